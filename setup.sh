#!/bin/sh
# Offline setup: build the overlay generator and warm the build cache for every harness package.
set -e
cd "$(dirname "$0")"
export GOFLAGS=-mod=mod GOPROXY=off GOSUMDB=off GOTOOLCHAIN=local GOWORK=off
mkdir -p bin
(cd tools/rewrite && go build -o ../../bin/rewrite .)
OV=$(mktemp -d /tmp/verif-setup-XXXXXX)
trap 'rm -rf "$OV"' EXIT
./bin/rewrite -repo "${VERIF_REPO:-/repo}" -out "$OV/overlay" >/dev/null
cd harness
for d in c*/; do
  [ -f "$d"/*_test.go ] 2>/dev/null || ls "$d"*_test.go >/dev/null 2>&1 || continue
  go test -c -vet=off -overlay "$OV/overlay/overlay.json" -o "$OV/$(basename $d).test" "./$d" || echo "setup: warm build of $d failed (the check will report it)"
done
echo setup done
