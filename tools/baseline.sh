#!/bin/sh
# Runs the repository's own test suite (the BASELINE.json command) against a tree and compares
# the passing tests with BASELINE.json's stable_pass list.  usage: tools/baseline.sh [repo=/repo]
REPO=${1:-/repo}
OUT=$(mktemp -d /tmp/verif-baseline-XXXXXX)
export GOPROXY=off GOTOOLCHAIN=local GOFLAGS=
. /w/out/goenv.sh
for m in $(cat /w/out/gomods.txt); do
  MF=$(cd $REPO/$m && gomodflag)
  (cd $REPO/$m && go test $MF -json -vet=off -count=1 -timeout 25m ./... ) >> $OUT/gotest.json 2>>$OUT/stderr.log
done
python3 - $OUT/gotest.json <<'PY'
import json,sys
passed=set(); failed=set()
for l in open(sys.argv[1]):
    try: e=json.loads(l)
    except Exception: continue
    if e.get('Test') and e.get('Action') in('pass','fail'):
        k=e['Package']+'::'+e['Test']
        (passed if e['Action']=='pass' else failed).add(k)
b=json.load(open('/root/.vp/BASELINE.json'))
want=set(b['stable_pass'])
missing=sorted(want-passed)
print('baseline stable_pass:',len(want),'passing now:',len(want&passed),'missing:',len(missing))
for m in missing[:40]: print('  MISSING',m, '(failed)' if m in failed else '(not run)')
PY
rm -rf $OUT
