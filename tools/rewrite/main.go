// Command rewrite generates a `go build -overlay` description that instruments
// the *current working tree* of the repository without touching it:
//
//  1. virtual clock: time.Now / time.Since -> verifhook.Now / verifhook.Since in
//     the SDK packages whose behaviour depends on time;
//  2. yield points: verifhook.Yield("<file>:<line>") before every statement in the
//     files that hold shared state (schedule exploration);
//  3. export files added to the secure-memory packages so a harness can supply its
//     own memcall implementation and random source.
//
// Only the standard library is used (go/parser, go/ast, go/printer). A file that
// cannot be parsed or printed is left untouched and reported on stderr: less
// instrumentation, never a behaviour change.
package main

import (
	"bytes"
	"encoding/json"
	"flag"
	"fmt"
	"go/ast"
	"go/format"
	"go/parser"
	"go/printer"
	"go/token"
	"os"
	"path/filepath"
	"sort"
	"strconv"
	"strings"
)

const hookImport = "verifhook"

var (
	repo   = flag.String("repo", "/repo", "repository root")
	out    = flag.String("out", "", "output directory (created)")
	yields = flag.Bool("yield", true, "insert yield points")
	clock  = flag.Bool("clock", true, "rewrite the clock")
	export = flag.Bool("export", true, "add export files")
)

// clockDirs: every non-test .go file directly inside these directories gets the clock rewrite.
var clockDirs = []string{
	"go/appencryption",
	"go/appencryption/internal",
	"go/appencryption/pkg/cache",
}

// yieldDirs: every non-test .go file in these directories gets yield points.
var yieldDirs = []string{
	"go/appencryption",
	"go/appencryption/internal",
	"go/appencryption/pkg/cache",
	"go/securememory/protectedmemory",
	"go/securememory/memguard",
}

// files never given yield points (pure data / option code, keeps the site list small).
var yieldSkip = map[string]bool{
	"go/appencryption/policy.go":        true,
	"go/appencryption/appencryption.go": true,
	"go/appencryption/partition.go":     true,
	"go/appencryption/internal/bytes.go": true,
}

type overlay struct {
	Replace map[string]string
}

func main() {
	flag.Parse()
	if *out == "" {
		fmt.Fprintln(os.Stderr, "rewrite: -out required")
		os.Exit(2)
	}
	if err := os.MkdirAll(*out, 0o755); err != nil {
		fatal(err)
	}
	ov := overlay{Replace: map[string]string{}}

	type job struct{ clock, yield bool }
	jobs := map[string]*job{}
	add := func(dirs []string, set func(*job)) {
		for _, d := range dirs {
			ents, err := os.ReadDir(filepath.Join(*repo, d))
			if err != nil {
				fmt.Fprintf(os.Stderr, "rewrite: skip dir %s: %v\n", d, err)
				continue
			}
			for _, e := range ents {
				n := e.Name()
				if e.IsDir() || !strings.HasSuffix(n, ".go") || strings.HasSuffix(n, "_test.go") {
					continue
				}
				rel := filepath.ToSlash(filepath.Join(d, n))
				j := jobs[rel]
				if j == nil {
					j = &job{}
					jobs[rel] = j
				}
				set(j)
			}
		}
	}
	if *clock {
		add(clockDirs, func(j *job) { j.clock = true })
	}
	if *yields {
		add(yieldDirs, func(j *job) { j.yield = true })
	}
	rels := make([]string, 0, len(jobs))
	for r := range jobs {
		rels = append(rels, r)
	}
	sort.Strings(rels)
	var sites []string
	for _, rel := range rels {
		j := jobs[rel]
		if yieldSkip[rel] {
			j.yield = false
		}
		if !j.clock && !j.yield {
			continue
		}
		src := filepath.Join(*repo, rel)
		res, fileSites, changed, err := rewriteFile(src, rel, j.clock, j.yield)
		if err != nil {
			fmt.Fprintf(os.Stderr, "rewrite: leaving %s untouched: %v\n", rel, err)
			continue
		}
		if !changed {
			continue
		}
		dst := filepath.Join(*out, strings.ReplaceAll(rel, "/", "__"))
		if err := os.WriteFile(dst, res, 0o644); err != nil {
			fatal(err)
		}
		ov.Replace[src] = dst
		sites = append(sites, fileSites...)
	}
	if *export {
		for rel, body := range exportFiles {
			dir := filepath.Join(*repo, filepath.Dir(rel))
			if _, err := os.Stat(dir); err != nil {
				continue
			}
			dst := filepath.Join(*out, strings.ReplaceAll(rel, "/", "__"))
			if err := os.WriteFile(dst, []byte(body), 0o644); err != nil {
				fatal(err)
			}
			ov.Replace[filepath.Join(*repo, rel)] = dst
		}
	}
	b, _ := json.MarshalIndent(ov, "", " ")
	if err := os.WriteFile(filepath.Join(*out, "overlay.json"), b, 0o644); err != nil {
		fatal(err)
	}
	sort.Strings(sites)
	_ = os.WriteFile(filepath.Join(*out, "sites.txt"), []byte(strings.Join(sites, "\n")+"\n"), 0o644)
	fmt.Printf("rewrite: %d files replaced/added, %d yield sites\n", len(ov.Replace), len(sites))
}

func fatal(err error) {
	fmt.Fprintln(os.Stderr, "rewrite:", err)
	os.Exit(2)
}

// rewriteFile returns the transformed source.
func rewriteFile(path, rel string, doClock, doYield bool) ([]byte, []string, bool, error) {
	srcBytes, err := os.ReadFile(path)
	if err != nil {
		return nil, nil, false, err
	}
	fset := token.NewFileSet()
	// Comments are dropped (positions of inserted statements would otherwise
	// scramble them); build constraints are re-attached from the raw text.
	f, err := parser.ParseFile(fset, path, srcBytes, 0)
	if err != nil {
		return nil, nil, false, err
	}
	if hasCgo(f) {
		return nil, nil, false, fmt.Errorf("cgo file")
	}
	if bytes.Contains(srcBytes, []byte("//go:linkname")) || bytes.Contains(srcBytes, []byte("//go:embed")) {
		return nil, nil, false, fmt.Errorf("file uses compiler directives that need comments")
	}

	timeName := importName(f, "time")
	used := false
	var sites []string

	if doClock && timeName != "" && timeName != "_" && timeName != "." {
		ast.Inspect(f, func(n ast.Node) bool {
			if ce, ok := n.(*ast.CallExpr); ok {
				// leave metrics timers alone: x.UpdateSince(time.Now())
				if se, ok := ce.Fun.(*ast.SelectorExpr); ok && se.Sel.Name == "UpdateSince" {
					return false
				}
			}
			se, ok := n.(*ast.SelectorExpr)
			if !ok {
				return true
			}
			id, ok := se.X.(*ast.Ident)
			if !ok || id.Name != timeName || id.Obj != nil {
				return true
			}
			if se.Sel.Name == "Now" || se.Sel.Name == "Since" {
				id.Name = hookImport
				used = true
			}
			return true
		})
	}

	if doYield {
		site := func(pos token.Pos) *ast.ExprStmt {
			p := fset.Position(pos)
			label := rel + ":" + strconv.Itoa(p.Line)
			sites = append(sites, label)
			used = true
			return &ast.ExprStmt{X: &ast.CallExpr{
				Fun:  &ast.SelectorExpr{X: ast.NewIdent(hookImport), Sel: ast.NewIdent("Yield")},
				Args: []ast.Expr{&ast.BasicLit{Kind: token.STRING, Value: strconv.Quote(label)}},
			}}
		}
		instr := func(list []ast.Stmt) []ast.Stmt {
			if len(list) == 0 {
				return list
			}
			res := make([]ast.Stmt, 0, 2*len(list))
			for _, s := range list {
				res = append(res, site(s.Pos()), s)
			}
			return res
		}
		// Bodies of switch / type switch / select hold clauses, not statements:
		// never insert there, only inside the clauses.
		clauseBlocks := map[*ast.BlockStmt]bool{}
		ast.Inspect(f, func(n ast.Node) bool {
			switch x := n.(type) {
			case *ast.SwitchStmt:
				clauseBlocks[x.Body] = true
			case *ast.TypeSwitchStmt:
				clauseBlocks[x.Body] = true
			case *ast.SelectStmt:
				clauseBlocks[x.Body] = true
			}
			return true
		})
		ast.Inspect(f, func(n ast.Node) bool {
			switch x := n.(type) {
			case *ast.BlockStmt:
				if x != nil && !clauseBlocks[x] {
					x.List = instr(x.List)
				}
			case *ast.CaseClause:
				x.Body = instr(x.Body)
			case *ast.CommClause:
				x.Body = instr(x.Body)
			}
			return true
		})
	}

	if !used {
		return nil, nil, false, nil
	}
	addImport(f, hookImport)
	if timeName != "" && timeName != "_" && timeName != "." && !identUsed(f, timeName) {
		// keep the import alive
		f.Decls = append(f.Decls, &ast.GenDecl{Tok: token.VAR, Specs: []ast.Spec{&ast.ValueSpec{
			Names:  []*ast.Ident{ast.NewIdent("_")},
			Values: []ast.Expr{&ast.SelectorExpr{X: ast.NewIdent(timeName), Sel: ast.NewIdent("Nanosecond")}},
		}}})
	}

	var buf bytes.Buffer
	for _, l := range buildLines(srcBytes) {
		buf.WriteString(l + "\n")
	}
	if buf.Len() > 0 {
		buf.WriteString("\n")
	}
	// Positions are meaningless after insertion; print from a fresh fileset so the
	// printer does not try to honour old line breaks.
	stripPos(f)
	if err := printer.Fprint(&buf, token.NewFileSet(), f); err != nil {
		return nil, nil, false, err
	}
	res, err := format.Source(buf.Bytes())
	if err != nil {
		return nil, nil, false, fmt.Errorf("printed source does not parse: %v", err)
	}
	return res, sites, true, nil
}

func stripPos(f *ast.File) {
	// The printer uses positions for line breaks; with comments dropped and a fresh
	// FileSet, leaving stale positions is harmless but a few constructs (composite
	// literals) print more stably without them. Nothing to do: keep as is.
	_ = f
}

func hasCgo(f *ast.File) bool {
	for _, im := range f.Imports {
		if im.Path.Value == `"C"` {
			return true
		}
	}
	return false
}

func importName(f *ast.File, path string) string {
	for _, im := range f.Imports {
		p, _ := strconv.Unquote(im.Path.Value)
		if p == path {
			if im.Name != nil {
				return im.Name.Name
			}
			return filepath.Base(path)
		}
	}
	return ""
}

func identUsed(f *ast.File, name string) bool {
	found := false
	ast.Inspect(f, func(n ast.Node) bool {
		if se, ok := n.(*ast.SelectorExpr); ok {
			if id, ok := se.X.(*ast.Ident); ok && id.Name == name && id.Obj == nil {
				found = true
			}
		}
		return !found
	})
	return found
}

func addImport(f *ast.File, path string) {
	for _, im := range f.Imports {
		if p, _ := strconv.Unquote(im.Path.Value); p == path {
			return
		}
	}
	spec := &ast.ImportSpec{Path: &ast.BasicLit{Kind: token.STRING, Value: strconv.Quote(path)}}
	decl := &ast.GenDecl{Tok: token.IMPORT, Specs: []ast.Spec{spec}}
	f.Decls = append([]ast.Decl{decl}, f.Decls...)
	f.Imports = append(f.Imports, spec)
}

// buildLines returns the //go:build and // +build lines that precede the package clause.
func buildLines(src []byte) []string {
	var res []string
	for _, l := range strings.Split(string(src), "\n") {
		t := strings.TrimSpace(l)
		if strings.HasPrefix(t, "package ") {
			break
		}
		if strings.HasPrefix(t, "//go:build") || strings.HasPrefix(t, "// +build") {
			res = append(res, t)
		}
	}
	return res
}

var exportFiles = map[string]string{
	"server/go/pkg/server/zz_verif_export.go": `package server

import "github.com/godaddy/asherah/go/appencryption"

// VerifNewAppEncryption builds the sidecar service around a caller-supplied
// SessionFactory (exactly what NewAppEncryption does after constructing its own).
func VerifNewAppEncryption(sf *appencryption.SessionFactory) *AppEncryption {
	return &AppEncryption{
		streamerFactory: streamerFactoryFunc(func() *streamer {
			return &streamer{sessionFactory: sf}
		}),
	}
}
`,
	"go/securememory/protectedmemory/zz_verif_export.go": `package protectedmemory

import (
	"github.com/godaddy/asherah/go/securememory"
	"github.com/godaddy/asherah/go/securememory/internal/memcall"
)

// VerifMemcall mirrors the internal memcall interface so that a harness outside
// this module can supply an implementation.
type VerifMemcall interface {
	Alloc(size int) ([]byte, error)
	Free([]byte) error
	Protect([]byte, memcall.MemoryProtectionFlag) error
	Lock([]byte) error
	Unlock([]byte) error
}

// VerifNewFactory returns a SecretFactory using mc for every memory primitive.
func VerifNewFactory(mc VerifMemcall) *SecretFactory { return &SecretFactory{mc: mc} }

// VerifCreateRandom is createRandom with an injectable random source.
func VerifCreateRandom(f *SecretFactory, size int, readFunc func([]byte) (int, error)) (securememory.Secret, error) {
	return f.createRandom(size, readFunc)
}
`,
	"go/securememory/memguard/zz_verif_export.go": `package memguard

import (
	"github.com/godaddy/asherah/go/securememory/internal/memcall"
)

// VerifMemcall mirrors the internal memcall interface.
type VerifMemcall interface {
	Alloc(size int) ([]byte, error)
	Free([]byte) error
	Protect([]byte, memcall.MemoryProtectionFlag) error
	Lock([]byte) error
	Unlock([]byte) error
}

// VerifNewFactory returns a SecretFactory using mc for the primitives it routes through memcall.
func VerifNewFactory(mc VerifMemcall) *SecretFactory { return &SecretFactory{mc: mc} }
`,
}
