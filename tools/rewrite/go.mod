module veriftools/rewrite

go 1.21
