#!/bin/sh
# usage: tools/trymutant.sh <patch.diff> <ID> [<ID>...]   (applies to /repo, runs quick checks, reverts)
P=$1; shift
cd /repo || exit 2
if ! git diff --quiet; then echo "/repo dirty"; exit 2; fi
git apply "$P" || git apply -3 "$P" || { echo "patch does not apply"; git checkout HEAD -- .; exit 2; }
for id in "$@"; do
  echo "=== $id"
  (cd /verif && VERIF_NOSAVE=1 timeout 1200 ./check $id ${TIER:-quick} 2>&1 | grep -v "rapid\] draw" | grep -E "VIOLATION|violated|KNOWN|INCONCLUSIVE|quick:|thorough:" | cut -c1-300 | head -8)
done
git checkout HEAD -- . ; git status --short | head -3
