#!/usr/bin/env python3
"""Runs the quick checks against every seeded change (applied to /repo, reverted afterwards) and writes
seeded/<id>/meta.json plus seeded/MATRIX.md.  usage: tools/seedmatrix.py [seed-id ...]"""
import json, os, re, subprocess, sys, time
V = os.path.dirname(os.path.dirname(os.path.abspath(__file__)))
NEEDS = {
 "C01-A": ("GetOrLoadLatest returns the reloaded key without taking a reference; the caller's Close destroys a key that stays cached as latest",
           "key caching on and a cache that outlives a key expiry or revocation: encrypt, cross ExpireKeyAfter, encrypt again, then decrypt the second record on the same or a sibling session"),
 "C01-B": ("tryStore treats a refused duplicate (false, nil) as success, so a never-persisted IK/SK is used",
           "a metastore reporting duplicates as (false, nil) and a second key creation for the same id inside one CreateDatePrecision window (revoked soon after creation, or two racing creators), then a decrypt in another session/factory"),
 "C02-A": ("createIntermediateKey reuses the local unsaved IK when the reloaded row has the same Created stamp",
           "an IK creation whose Store is refused because another process inserted an IK for the same partition in the same precision window; then a fresh process reads"),
 "C02-B": ("extra sk.Close() on the reload-failed path double-releases the cached SK",
           "SK caching on, IK Store fails and the following LoadLatest fails or finds nothing (one fault cold, two faults warm); damage shows on the NEXT operation"),
 "C03-A": ("tryStore ignores the bool from Metastore.Store: an unsaved key wraps other keys",
           "duplicate (id, created) store reported as (false, nil): two processes creating a partition's first IK in one precision window"),
 "C03-B": ("nonce pool that is never refreshed: the nonce stream repeats every 341 draws",
           "more than 341 nonce draws in the process under one long-lived key (write #342 on one session)"),
 "C04-B": ("GetOrLoadLatest falls back to the expired cached key when the reload's loader call fails",
           "cached latest key expired but still fresh (interval > expiry gap) and a metastore read or KMS fault exactly at the reload's loader call while writes are accepted"),
 "C05-A": ("superseded cached keys are never re-checked for revocation",
           "P1 has SK1 cached with two partitions' IKs under it, SK1 revoked, P2 rotates to SK2, P1 pulls SK2 into its SK cache before re-validating SK1, then keeps writing the other partition under IK/SK1"),
 "C05-B": ("the replaced revoked key is closed while it is still in the cache",
           "a long-lived cache: key cached, revoked, stale re-check marks it revoked, an encrypt rotates through the invalid-key branch, then an old record is decrypted through the same cache"),
 "C06-A": ("partition check skipped when the IK is already fresh in the cache",
           "shared IK cache and a session of the same factory that used the foreign partition's IK earlier (entry resident and fresh)"),
 "C06-B": ("default partition accepts id == own id or own id + '_' prefix",
           "non-suffixed metastore and a writer partition id equal to the reader id + '_<service>_<product>' (optionally + '_more')"),
 "C07-A": ("defer sk.Close() placed above the error check in loadIntermediateKey: nil dereference when the SK load fails",
           "IK fetched from the metastore (cold cache) and the parent SK load fails: IK row pointing at a missing SK, or SK row missing / bit-flipped"),
 "C07-B": ("AEAD Decrypt accepts any 12..28-byte input without checking the tag (returns empty payload)",
           "a genuine Key with Data truncated to 12..28 bytes"),
 "C08-A": ("sharedEncryption.Remove waits only once ('if' instead of 'for' around cond.Wait)",
           "session cache on, a session held by two users, evicted while held, then one holder closes"),
 "C08-B": ("GetOrLoad re-check path under the write lock returns the key without incrementing its reference count",
           "two goroutines both leave the read-locked fast path with a miss/stale result before either takes the write lock; one loads, the other hits the re-check"),
 "C09-B": ("eviction callback closes the CryptoKey directly, bypassing the reference count",
           "a bounded eviction policy, a full cache and a concurrent call evicting a key another call is still using"),
 "C10-A": ("rawDrk is wiped only when the payload decrypt succeeds (defer removed)",
           "the encrypted data key unwraps correctly and then the payload decrypt fails (fault after the plaintext exists)"),
 "C10-B": ("getValidIntermediateKey decrypts the IK before checking its SK; with an invalid SK the plaintext IK buffer is dropped unwiped",
           "latest IK valid, its parent SK revoked or expired, and the session's IK cache misses"),
 "C11-A": ("protectedmemory Close waits once and does not re-check the reader count",
           "two overlapping readers and a Close that starts while both are inside"),
 "C11-B": ("memguard: release() also runs when access() was rejected",
           "a reader in flight, a Close parked with closing=true, and another access attempt in that window"),
 "C12-A": ("protectedmemory close() uses memcall.Clean: Free runs even when Unlock failed",
           "one fault on Unlock inside Close with Free succeeding, then a retry of Close / counter check"),
 "C12-B": ("memguard: release() runs even when access() failed (reader count -1)",
           "one fault on Protect(ReadOnly) for the first reader, followed by a later read or Close (Close hangs)"),
 "C13-A": ("aws-v2 DynamoDB Store persists ParentKeyMeta.Created from the record's own Created",
           "aws-v2 DynamoDB metastore and a record whose parent created differs from its own (IK created later than its SK)"),
 "C13-B": ("MemoryMetastore.Store checks under RLock, then inserts under Lock without re-checking",
           "two or more concurrent Stores of the same (id, created) overlapping between check and insert"),
 "C14-A": ("tryStore returns false only on error: a refused insert (false, nil) counts as stored",
           "two processes generating a replacement key with the same truncated stamp, an interleaving where one Store lands after the other's, and a metastore reporting duplicates as (false, nil)"),
 "C14-B": ("parent-mismatch branch of intermediateKeyFromEKR shadows sk: the looked-up parent SK is never used",
           "a revoked SK that one process has not noticed yet (cached, fresh) while a cold process creates a new SK; both create an IK with the same stamp under different SKs and one insert is refused"),
 "C15-A": ("slru demotion leaves the protected flag set: ghost list elements, duplicate callbacks, size drift",
           "more distinct entries accessed than int(0.8*cap) to force a demotion, then that entry evicted/expired/deleted, then one more eviction or Close"),
 "C15-B": ("tinyLFU Victim returns nil when the main segment is empty but the window holds entries: Close panics",
           "TinyLFU with capacity >= 100 and Close (or eviction) while only admission-window entries exist"),
 "C16-A": ("sharedEncryption.Remove uses 'if' instead of 'for' around cond.Wait",
           "two holders of one cached session, evicted while both hold it, then exactly one holder closes"),
 "C16-B": ("expired cache entries are dropped without the evict callback",
           "SessionCacheDuration elapses on a cached partition and the same partition is requested again"),
 "C17-A": ("aws-v2 DecryptKey stores &kek of the range variable: every region decrypts the last envelope entry",
           ">= 2 regions with region-specific ciphertexts and the last-entry region failing at unwrap while another is healthy"),
 "C17-B": ("aws-v1 EncryptKey wipes the data key before encryptAllRegions runs: other regions wrap zero bytes",
           ">= 2 regions at wrap time and the generating region failing or absent at unwrap time"),
 "C18-A": ("aws-v2 DynamoDB Store writes ParentKeyMeta.Created = ekr.Created",
           "aws-v2 DynamoDB metastore, an IK created in a later stamp than its SK, and a reader without the IK cached"),
 "C18-B": ("AEAD Decrypt length guard off by one: rejects the 28-byte ciphertext of an empty payload",
           "a zero-length payload"),
 "C19-A": ("fromProtobufDRR reads meta.KeyId / meta.Created directly: nil dereference",
           "a successful get-session followed by a decrypt whose record has no key.parent_key_meta"),
 "C19-B": ("NewAppEncryption returns one shared *streamer for every stream",
           "two or more streams on the same sidecar"),
 "C20-A": ("keyCache.write returns early when the latest mapping already points at the key: refreshed loadedAt never stored",
           "the clock crosses RevokeCheckInterval once, then >= 2 encrypts on a session with no decrypt in between"),
 "C20-B": ("write's latest-map update loses the ordering check: loading an older generation re-points 'latest' at it",
           "two key generations, a fresh session that loads the newer key, then the older one, then uses the latest path again"),

 # ---- round 2 (agents were told what round 1 had produced and asked for different mechanisms and sites)
 "C01-C": ("sharedEncryption.Remove waits once ('if' instead of 'for'): an evicted cached session is torn down when the first of several holders closes",
           "session cache on, >= 2 holders of one partition's session, eviction while held, one holder closes, the other keeps using it"),
 "C01-D": ("keyCache.load deletes + closes a superseded latest key, but simpleCache.Delete never removes: the destroyed key stays cached",
           "default 'simple' key cache and a rotation discovered through the stale path (loader returns a key with another Created), then an old record is decrypted through that cache"),
 "C02-C": ("key rows are stamped with newKeyTimestamp() at store time instead of the key's own Created",
           "a CreateDatePrecision tick passes between key generation and Store (e.g. during the KMS round trip) in a cold or rotating state"),
 "C02-D": ("IK row's ParentKeyMeta built by a method promoted from defaultPartition: names the unsuffixed SK id",
           "a region-suffixing metastore, an IK creation, and a reader without that IK cached"),
 "C03-C": ("GetOrLoadLatest fast path returns the entry it last handed out without comparing the requested id",
           "shared IK cache and >= 2 partitions encrypting through one factory within one interval with no cache write in between"),
 "C03-D": ("SK / IK ids cut to 255 bytes: partitions sharing a 251-byte prefix share one IK",
           "partition ids long enough for the IK id to exceed 255 bytes"),
 "C04-C": ("isEnvelopeInvalid measures expiry against the clock truncated to CreateDatePrecision",
           "an IK is created in the window between the SK's true expiry and one precision unit later"),
 "C04-D": ("getValidIntermediateKey checks the SK's expiry against the IK record's Created",
           "an IK younger than its SK, the SK's expiry crossed while the IK is still valid, encrypts continuing afterwards"),
 "C05-C": ("intermediateKeyFromEKR takes the IK's revoked flag from the SK: the decrypt refresh path resets a revoked IK to valid",
           "IK cache on, a revoked latest IK, and a decrypt of an old record before the encrypt once the entry is stale"),
 "C05-D": ("GetOrLoad returns the stale cached key when the re-check's reload fails",
           "SK and IK caches on, a revoked parent SK and a metastore Load / KMS error exactly at the SK re-check"),
 "C06-C": ("session cache keys sessions by strings.ToLower(partition id)",
           "CacheSessions on and two partition ids equal after lower-casing, the first still cached"),
 "C06-D": ("empty-partition guard moved behind the session-cache fast path",
           "CacheSessions on and GetSession(\"\")"),
 "C07-C": ("GetOrLoad handles a miss under RLock: concurrent map writes crash the process",
           ">= 2 goroutines missing in the same key cache at once"),
 "C07-D": ("suffixedPartition.IsValidIntermediateKeyID slices at the last underscore: panics for ids without one",
           "region-suffixing metastore and a record whose ParentKeyMeta.ID contains no underscore"),
 "C08-C": ("GetOrLoadLatest's reload branch additionally Closes the invalid key (releases a reference it does not own)",
           "a long-lived key cache, the latest key becoming invalid while cached, then an encrypt; shows in a concurrent holder or a later decrypt of an old record"),
 "C08-D": ("cacheWrapper.Get increments the usage count after releasing the wrapper mutex",
           "session cache with more live partitions than slots and an evicting Get between another goroutine's lookup and its pin"),
 "C09-C": ("slru demotion leaves the protected flag set (ghost entries): evictions re-evict the ghost, real keys are never released",
           "slru (or tinylfu) key cache, > 80% of capacity re-accessed, then enough new keys to evict the demoted entry"),
 "C09-D": ("sharedEncryption.Remove waits once: session torn down under remaining holders / keys loaded afterwards never released",
           "CacheSessions with per-session IK caches, a session held by two callers when evicted, one closes, the other keeps working"),
 "C10-C": ("systemKeyFromEKR returns on ctx.Err() between KMS.DecryptKey and NewCryptoKey without wiping",
           "an SK cache miss whose caller's context is cancelled by the time the KMS call returns"),
 "C10-D": ("aws-v2 encryptAllRegions gives each region a private copy of the data key that is never wiped",
           "aws-v2 plugin with >= 2 regions creating or rotating a system key"),

 "C11-C": ("protectedmemory release() re-protects (PROT_NONE) as soon as a Close is pending, although another reader is still inside",
           ">= 2 overlapping readers, a Close issued while both are in flight, one reader returns, the other then reads"),
 "C11-D": ("memguard release() uses cond.Signal instead of Broadcast: only one of several waiting closers is woken",
           "an in-flight reader and >= 2 concurrent Close calls parked waiting for it"),
 "C12-C": ("protectedmemory: a failed Close resets closing=false although the bytes were already wiped: later reads succeed and return zeros",
           "a fault at the Unlock or Free inside Close followed by a read on the same secret"),
 "C12-D": ("memguard release(): Broadcast only after a successful Protect(NoAccess): a waiting Close is never woken when that protect fails",
           "a reader inside, a concurrent Close waiting on the cond, and a fault on the Protect(NoAccess) of the last reader leaving"),
 "C13-C": ("aws-v1 DynamoDB LoadLatest uses ConsistentRead only when the region suffix is off",
           "WithDynamoDBRegionSuffix(true), an eventually consistent backend, and a LoadLatest right after a completed Store"),
 "C13-D": ("SQL Store returns (true, nil) when the INSERT failed, the context is done and the row exists",
           "a duplicate (id, created) together with a cancelled / expired context on the losing Store"),
 "C15-C": ("expired entries are removed by Get without the eviction callback",
           "a cache built WithExpiry, an entry older than the expiry and a Get of exactly that key"),
 "C15-D": ("TinyLFU Victim: the candidate that wins the admission duel keeps the window LRU as its recorded segment (assignment to a map-value copy)",
           "TinyLFU with capacity >= 100, a full cache whose window entry was read more often than the main segment's oldest entry when a new key is Set, later removal of that entry"),
 "C16-C": ("slru demotion leaves the protected flag set: the same session's evict callback fires repeatedly, real entries are never released",
           "session cache with slru (default) or tinylfu, > 80% of capacity hit again while in probation (capacity 1: get the same id twice), then evictions / Close"),
 "C16-D": ("cacheWrapper.Get runs the loader outside the lock and Sets without a second lookup: two concurrent first-time callers get different sessions, one is overwritten and never released",
           ">= 2 goroutines missing on the same uncached partition at the same time"),
 "C17-C": ("aws-v1 DecryptKey breaks out of the region loop at the first configured region without an envelope entry",
           "an envelope missing the entry of a region that sits before a usable one in client order"),
 "C17-D": ("aws-v2 encryptAllRegions builds 'remaining' with append over a.clients: the instance's client list is corrupted after the first multi-region wrap",
           "a long-lived multi-region instance: an EncryptKey followed by another EncryptKey or a DecryptKey"),
 "C18-C": ("suffixedPartition builds ids with fmt.Sprintf(unsuffixedID + \"_%s\", suffix): caller data becomes the format string",
           "a region-suffixing metastore and a '%' in the partition id, service or product"),
 "C18-D": ("tryStoreSystemKey stamps the SK row with newKeyTimestamp() instead of sk.Created()",
           "an SK creation whose KMS.EncryptKey call crosses a CreateDatePrecision boundary, and a reader that does not share the writer's caches"),
 "C19-C": ("defaultHandler.GetSession assigns the (nil *Session, err) result straight into the session interface: typed nil defeats the nil guards",
           "a rejected get-session followed by encrypt, decrypt or end of stream"),
 "C19-D": ("NewAppEncryption builds the SDK factory lazily with broken double-checked locking: racing first get-sessions build separate factories (separate memory metastores)",
           ">= 2 truly parallel first get-sessions right after server start"),
 "C20-C": ("GetOrLoad skips the re-check under the write lock when the first lookup found the entry stale: every waiting caller reloads",
           "the interval has elapsed and >= 2 goroutines pass the read-locked lookup before the first takes the write lock"),
 "C14-C": ("MemoryMetastore.Store refuses a duplicate only when the existing record is not revoked: a revoked record is overwritten",
           "MemoryMetastore, a revoked SK or IK, and a replacement key created inside the revoked key's own CreateDatePrecision window"),
 "C14-D": ("both DynamoDB metastores build the put condition with expression.Name(<key id value>): attribute_not_exists on a non-existent attribute is always true, every PutItem overwrites",
           "a DynamoDB backend that evaluates the condition with its ExpressionAttributeNames, and a second insert of one (id, created): two creators racing in one creation window"),
 "C20-D": ("newIKCache builds a real key cache when CacheSessions is on although CacheIntermediateKeys is off",
           "session cache on together with intermediate-key caching off, then repeated operations"),
}
ALSO = {  # additional checks worth running per seed (own property's check always runs)
 "C01-B": ["C14", "C03"], "C02-A": ["C14", "C01"], "C03-A": ["C01", "C14"], "C05-B": ["C01"], "C08-A": ["C16"], "C09-B": ["C08"], "C13-A": ["C18"],
 "C14-A": ["C01", "C02"], "C16-A": ["C08"], "C16-B": ["C15", "C09"], "C18-A": ["C13"], "C18-B": ["C07"], "C07-B": ["C18"], "C01-A": ["C04", "C09"], "C02-B": ["C09"],
 "C10-A": ["C07"], "C16-C": ["C15", "C09"], "C15-C": ["C16"], "C18-D": ["C02"], "C18-C": ["C06"], "C20-C": ["C08"], "C16-D": ["C08"], "C11-D": ["C12"], "C07-C": ["C08"], "C01-C": ["C16", "C08"], "C03-D": ["C06", "C18"], "C09-C": ["C15"], "C09-D": ["C16"], "C03-C": ["C01"], "C15-A": ["C16"], "C20-A": ["C05"], "C12-B": ["C11"], "C11-B": ["C12"], "C14-C": ["C13"], "C14-D": ["C13", "C01"], "C13-D": ["C14"], "C12-D": ["C11"], "C13-C": ["C18"],
}
def sh(cmd, **kw):
    return subprocess.run(cmd, shell=True, stdout=subprocess.PIPE, stderr=subprocess.STDOUT, text=True, **kw)
def main():
    ids = sys.argv[1:] or sorted(d for d in os.listdir(os.path.join(V, "seeded")) if os.path.isdir(os.path.join(V, "seeded", d)))
    rows = []
    for sid in ids:
        d = os.path.join(V, "seeded", sid)
        prop = sid.split("-")[0]
        checks = [prop] + ALSO.get(sid, [])
        if sh("git -C /repo diff --quiet").returncode != 0:
            print("/repo dirty"); sys.exit(2)
        a = sh("git -C /repo apply %s/patch.diff" % d)
        if a.returncode != 0:
            print(sid, "does not apply:", a.stdout); sh("git -C /repo checkout HEAD -- ."); continue
        res = {}
        for c in checks:
            t0 = time.time()
            r = sh("cd %s && timeout 1500 ./check %s quick" % (V, c))
            viol = [l for l in r.stdout.splitlines() if l.startswith("VIOLATION")]
            msg = [l.strip() for l in r.stdout.splitlines() if " violated" in l][:1]
            res[c] = dict(detected=bool(viol), exit=r.returncode, seconds=round(time.time()-t0, 1), message=(msg[0][:300] if msg else ""))
        sh("git -C /repo checkout HEAD -- .")
        sh("rm -rf %s/replays/*/found" % V)
        confirm = ""
        try:
            confirm = [l for l in open(os.path.join(d, "confirm.log")) if l.startswith("RESULT")][-1].strip()
        except Exception: pass
        what, needs = NEEDS.get(sid, ("", ""))
        meta = dict(seed=sid, breaks_property=prop, change=what, needs_to_manifest=needs,
                    origin="written by an independent sub-agent that saw only the property text and a scratch worktree",
                    confirmed=confirm + " (tools/confirm_seed.sh: applies to HEAD, demo passes on the clean tree, fails with the change, the touched module's existing tests pass)",
                    ran=["tools/confirm_seed.sh <agent OUT dir> %s" % sid] + ["git -C /repo apply seeded/%s/patch.diff && ./check %s quick ; git -C /repo checkout HEAD -- ." % (sid, c) for c in checks],
                    checks=res, detected_by=[c for c in checks if res[c]["detected"]])
        json.dump(meta, open(os.path.join(d, "meta.json"), "w"), indent=1)
        rows.append(meta)
        print(sid, {c: res[c]["detected"] for c in checks}, flush=True)
    # matrix over all metas present
    lines = ["| seed | change | needs | detected by (quick tier) | not detected by |", "|---|---|---|---|---|"]
    for sid in sorted(os.listdir(os.path.join(V, "seeded"))):
        mp = os.path.join(V, "seeded", sid, "meta.json")
        if not os.path.exists(mp): continue
        m = json.load(open(mp))
        nd = [c for c in m["checks"] if not m["checks"][c]["detected"]]
        lines.append("| %s | %s | %s | %s | %s |" % (sid, m["change"], m["needs_to_manifest"], ", ".join(m["detected_by"]) or "**none**", ", ".join(nd)))
    open(os.path.join(V, "seeded", "MATRIX.md"), "w").write("\n".join(lines) + "\n")
if __name__ == "__main__":
    main()
