#!/bin/sh
# usage: tools/confirm_seed.sh <OUT/X dir> <seed-id> [pkgdir=go/appencryption] [module test args]
# Confirms a seeded change in a scratch worktree: applies cleanly to HEAD, builds, existing tests of the module pass,
# demo fails with it and passes without it. Writes /verif/seeded/<seed-id>/{patch.diff,demo*,notes.md,confirm.log}.
SRC=$1; ID=$2; PKG=${3:-go/appencryption}
WT=/tmp/confirm-$ID
export GOFLAGS= GOPROXY=off GOTOOLCHAIN=local
mkdir -p /verif/seeded/$ID
LOG=/verif/seeded/$ID/confirm.log
: > $LOG
git -C /repo worktree add -q --detach $WT HEAD || exit 2
cleanup() { git -C /repo worktree remove --force $WT; }
trap cleanup EXIT
cd $WT
cp $SRC/demo*_test.go $SRC/demo*.go $WT/$PKG/ 2>/dev/null
MOD=$(cd $WT/$PKG && go list -m -f '{{.Dir}}' 2>/dev/null | head -1)
echo "module dir: $MOD" >> $LOG
run_demo() { (cd $WT/$PKG && go test -count=1 -run "${DEMO_RUN:-Demo|C[0-9][0-9][AB]}" . 2>&1 | tail -15); }
echo "--- demo on clean tree" >> $LOG
run_demo >> $LOG; grep -q "^ok" $LOG && CLEAN=pass || CLEAN=fail
if git apply $SRC/patch.diff 2>>$LOG || git apply -3 $SRC/patch.diff 2>>$LOG; then APPLY=ok; else APPLY=conflict; fi
echo "--- apply: $APPLY" >> $LOG
git diff -- . ':!*demo*' > /verif/seeded/$ID/patch.diff
echo "--- demo with change" >> $LOG
run_demo > /tmp/confirm-$ID.demo 2>&1; cat /tmp/confirm-$ID.demo >> $LOG
grep -q "^FAIL\|--- FAIL\|panic:" /tmp/confirm-$ID.demo && MUT=fail || MUT=pass
rm -f /tmp/confirm-$ID.demo
echo "--- existing tests with change (demo removed)" >> $LOG
rm -f $WT/$PKG/demo*_test.go
case "$MOD" in
  */securememory) (cd $MOD && go test -count=1 -skip 'TriggerFinalizer|MemLockLimit' ./... 2>&1 | tail -15) > /tmp/confirm-$ID.ex;;
  */server/go) (cd $MOD && go test -count=1 ./... 2>&1 | tail -15) > /tmp/confirm-$ID.ex;;
  *) (cd $WT/go/appencryption && go test -count=1 . ./internal/... ./pkg/... ./plugins/... 2>&1 | tail -25) > /tmp/confirm-$ID.ex;;
esac
cat /tmp/confirm-$ID.ex >> $LOG
grep -q "^FAIL\|--- FAIL\|panic:" /tmp/confirm-$ID.ex && EX=fail || EX=pass
rm -f /tmp/confirm-$ID.ex
cp $SRC/demo* $SRC/notes.md /verif/seeded/$ID/ 2>/dev/null
echo "RESULT $ID apply=$APPLY demo_clean=$CLEAN demo_mutant=$MUT existing_tests=$EX" | tee -a $LOG
