#!/bin/sh
# runs every claimed check's quick tier (sequentially) so that the committed evidence files are quick-tier runs
cd "$(dirname "$0")/.."
for id in $(python3 -c "import json;print(' '.join(c['property_id'] for c in json.load(open('MANIFEST.json'))['checks']))"); do
  ./check $id quick 2>&1 | grep -E "VIOLATION|INCONCLUSIVE|quick:" | cut -c1-200
done
