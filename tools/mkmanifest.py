#!/usr/bin/env python3
"""Regenerates MANIFEST.json from the table below (keeps it valid at all times)."""
import json, os, sys
V = os.path.dirname(os.path.dirname(os.path.abspath(__file__)))

W = "trusted: overlay rewrite (virtual clock), harness spies; sequential histories (schedules are C08/C16)"
CLAIMED = {
 "C01": dict(level="exploration", engine="E1-world", technique="model-based stateful PBT (rapid) with round-trip + differential oracle against an independent reference decryptor",
   text="Thousands of generated histories over the real SDK (1-3 factories, drawn cache policies, virtual clock, out-of-band revocation/rotation, restarts) with every decrypt compared to the recorded payload, and every record re-decrypted by a fresh factory and by a reference decryptor from a store snapshot. Sampled, not exhaustive; sequential histories.",
   note="trusted: overlay rewrite (clock), the reference decryptor's reading of the docs; schedules are covered by C08/C16, not here", ref="3/C01"),
 "C02": dict(level="fault_enumeration", engine="E2-faults", technique="fault-position enumeration over rapid-drawn scenarios, oracle = store snapshot + reference decryptor at the instant Encrypt returns",
   text="For rapid-drawn scenarios (10 key states x cache configurations) every metastore/KMS call index of the operation receives every applicable fault, and every pair of faults (sampled in quick, complete in thorough); a returned record must be decryptable from the store snapshot alone, failures must be errors, and operations after the faults must succeed.",
   note="faults injected at the Metastore/KMS interfaces of harness fakes; crash = fresh process with snapshot+KMS; trusted: reference decryptor", ref="3/C02"),
 "C03": dict(level="exploration", engine="E1-world", technique="stateful PBT with invariants over the complete AEAD/KMS/store/log history (spies) and multi-pattern leak scanning",
   text="Histories with bursts of hundreds of encrypts per key; every AEAD encryption must be one of three legitimate wrap forms with independently derived key identities, all (key, nonce) pairs distinct, keys from CreateRandom in the same call, and no key bytes or payload markers in any emitted record, row, log line or KMS request.",
   note="uniqueness/provenance/length are checked, not randomness quality; "+W, ref="3/C03"),
 "C04": dict(level="exploration", engine="E1-world", technique="stateful PBT with virtual clock; invariant over (record, time, store) after every encrypt",
   text="Generated histories with clock steps concentrated on expiry and revoke-check boundaries; every produced record's IK age, the parents of IK rows written, and use of IKs under expired SKs are checked against the policy at the virtual time of the call.",
   note=W+"; demanded only when a later creation stamp was available throughout the last interval", ref="3/C04"),
 "C05": dict(level="exploration", engine="E1-world", technique="stateful PBT with virtual clock and out-of-band revocation; invariant over (record, revocation time, store)",
   text="Generated histories that revoke latest/older IKs and SKs under live sessions and other processes' rotations; after the bound (1 interval IK, 2 intervals SK, 0 without caching) a record must name an unrevoked stored IK under an unrevoked stored SK, and records under revoked keys must stay decryptable.",
   note=W+"; demanded only when a later creation stamp was available throughout the last interval", ref="3/C05"),
 "C09": dict(level="exploration", engine="E1-world+E2-faults", technique="stateful PBT with a tracking SecretFactory (resource-accounting invariants) plus fault-position enumeration (store/KMS/AEAD/allocator)",
   text="Every secret the SDK allocates is accounted for: DRK closed before Encrypt returns, nothing live after a no-cache call, per-(process,key) live copies bounded by the caches entitled to hold them and by capacity, zero live / closed once / never read after close once everything is closed; the same under every single injected fault position.",
   note=W+"; tracker mirrors the securememory contract; cross-checked with real memguard + InUseCounter", ref="3/C09"),
 "C20": dict(level="exploration", engine="E1-world", technique="stateful PBT with virtual clock; call-count invariants over the spy metastore/KMS log",
   text="Generated histories with repeated operations around the revoke-check interval: free repeats inside the interval, single re-read after it, at most one KMS unwrap per SK per factory per interval, nothing retained with caching disabled.",
   note=W+"; asserted only when the working set fits the caches and outside key creation (rotation handling)", ref="3/C20"),
}
PENDING_REASON = "check not built yet in this session (planned in DESIGN.md section 3); not claimed until it runs silently on the unchanged tree"

def main():
    props = [json.loads(l)["id"] for l in open(os.path.join(V, "properties.jsonl"))]
    checks = []
    for pid in props:
        if pid not in CLAIMED: continue
        c = CLAIMED[pid]
        checks.append(dict(property_id=pid, quick_cmd="./check %s quick" % pid, thorough_cmd="./check %s thorough" % pid,
            evidence_file="evidence/%s.json" % pid, replay_cmd_template="./check %s --replay {path}" % pid, engine=c["engine"],
            level_claimed=dict(category=c["level"], text=c["text"], design_ref=c["ref"]), level_note=c["note"], technique=c["technique"]))
    na = [dict(property_id=p, reason=NA.get(p, PENDING_REASON)) for p in props if p not in CLAIMED]
    m = dict(version=1,
      setup_cmd="./setup.sh",
      hooks=dict(guard="build overlay generated at check time by tools/rewrite (no guarded source is committed to /repo; guard off = the untouched tree)",
                 enable="go test -overlay <generated overlay.json>: time.Now->verifhook.Now, verifhook.Yield before statements, export files in securememory packages",
                 baseline_off_cmd=json.load(open("/root/.vp/BASELINE.json"))["cmd"], source_commits=FIX_COMMITS, add_only=True),
      engines=ENGINES, checks=checks, not_applicable=na,
      notes="Property-based testing and fuzzing only (pgregory.net/rapid v1.3.0 + native go fuzzing in the thorough tier). Exit codes: 0 held, 1 VIOLATION, 2 inconclusive. 'fix:' commits in /repo are listed in known_findings.json as fixed entries.")
    json.dump(m, open(os.path.join(V, "MANIFEST.json"), "w"), indent=1)
    print("claimed", len(checks), "pending", len(na))

NA = {}
FIX_COMMITS = []
ENGINES = [
 dict(name="E2-faults", path="harness/world/faults.go", serves_properties=["C02","C09","C10"], kind_free_text="re-executable pinned scenarios with fault plans addressed by call index (store/KMS/AEAD/allocator), positions enumerated"),
 dict(name="E1-world", path="harness/world", serves_properties=["C01","C03","C04","C05","C09","C10","C20"], kind_free_text="rapid state machine over the real SDK with virtual clock, spy store/KMS/AEAD, tracking secret factory, reference decryptor"),
]
if __name__ == "__main__":
    main()
