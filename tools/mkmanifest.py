#!/usr/bin/env python3
"""Regenerates MANIFEST.json from the table below (keeps it valid at all times)."""
import json, os, sys
V = os.path.dirname(os.path.dirname(os.path.abspath(__file__)))

W = "trusted: overlay rewrite (virtual clock), harness spies; sequential histories (schedules are C08/C16)"
CLAIMED = {
 "C01": dict(level="exploration", engine="E1-world", technique="model-based stateful PBT (rapid) with round-trip + differential oracle against an independent reference decryptor",
   text="Thousands of generated histories over the real SDK (1-3 factories, drawn cache policies, virtual clock, out-of-band revocation/rotation, restarts) with every decrypt compared to the recorded payload, and every record re-decrypted by a fresh factory and by a reference decryptor from a store snapshot. Sampled, not exhaustive; sequential histories. A third of the histories run over the real metastore implementations (memory, SQL dialects, DynamoDB v1/v2) on semantic fakes of their databases.",
   note="trusted: overlay rewrite (clock), the reference decryptor's reading of the docs; schedules are covered by C08/C16, not here", ref="3/C01"),
 "C02": dict(level="fault_enumeration", engine="E2-faults", technique="fault-position enumeration over rapid-drawn scenarios, oracle = store snapshot + reference decryptor at the instant Encrypt returns",
   text="For rapid-drawn scenarios (11 key states, among them a region-suffixed process over a metastore that already holds the partition's un-suffixed keys, x cache configurations) every metastore/KMS call index of the operation receives every applicable fault, and every pair of faults (sampled in quick, complete in thorough); a returned record must be decryptable from the store snapshot alone, failures must be errors, operations after the faults must succeed, and the record objects the caller holds from earlier encrypts must be unchanged.",
   note="faults injected at the Metastore/KMS interfaces of harness fakes; crash = fresh process with snapshot+KMS; trusted: reference decryptor", ref="3/C02"),
 "C03": dict(level="exploration", engine="E1-world", technique="stateful PBT with invariants over the complete AEAD/KMS/store/log history (spies) and multi-pattern leak scanning",
   text="Histories with bursts of hundreds of encrypts per key; every AEAD encryption must be one of three legitimate wrap forms with independently derived key identities, all (key, nonce) pairs distinct, keys from CreateRandom in the same call, and no key bytes or payload markers in any emitted record, row, log line or KMS request. A quarter of the histories run over real metastore implementations; payloads up to 70 KB; the caller's record is scanned after Decrypt. The two real secret factories are asked for random secrets by 2-16 goroutines at once: right length, not all zero, no two alike.",
   note="uniqueness/provenance/length are checked, not randomness quality; "+W, ref="3/C03"),
 "C04": dict(level="exploration", engine="E1-world", technique="stateful PBT with virtual clock; invariant over (record, time, store) after every encrypt",
   text="Generated histories with clock steps concentrated on expiry and revoke-check boundaries; every produced record's IK age, the parents of IK rows written, and use of IKs under expired SKs are checked against the policy at the virtual time of the call. A quarter of the histories run over real metastore implementations; compound histories (IK younger than its SK, decrypt of an old generation followed by an encrypt) are generated on purpose. The process runs in a synthetic local time zone whose UTC offset shifts every seven hours, so that lifetimes computed with wall-clock instead of elapsed-time arithmetic show.",
   note=W+"; demanded only when a later creation stamp was available throughout the last interval", ref="3/C04"),
 "C05": dict(level="exploration", engine="E1-world", technique="stateful PBT with virtual clock and out-of-band revocation; invariant over (record, revocation time, store)",
   text="Generated histories that revoke latest/older IKs and SKs under live sessions and other processes' rotations; after the bound (1 interval IK, 2 intervals SK, 0 without caching) a record must name an unrevoked stored IK under an unrevoked stored SK, and records under revoked keys must stay decryptable. A third of the histories run over real metastore implementations; RevokeCheckInterval 0 included; compound histories (revoked SK, rotation, eviction pressure, old record, encrypt).",
   note=W+"; demanded only when a later creation stamp was available throughout the last interval", ref="3/C05"),
 "C08": dict(level="exploration", engine="E3-delay", technique="preemption-bounded schedule sampling: rapid-drawn delay plans over statement-level yield points + systematic single-preemption enumeration, with a use-after-close tracking SecretFactory as oracle",
   text="Concurrent encrypt/decrypt/session churn on one factory with tiny and asynchronous bounded caches under drawn delay plans (1-3 pauses at (site, k-th visit)); in addition every reachable yield site is taken as the single preemption point for tight configurations. Every operation must succeed with the right bytes and no secret may be read after close. A third of the configurations keep the latest intermediate key revoked inside its own creation window, so every encrypt reloads and re-caches it while others hold the previous copy.",
   note="schedules are sampled; a violation needing more than 3 coordinated preemptions may be missed", ref="3/C08"),
 "C09": dict(level="exploration", engine="E1-world+E2-faults", technique="stateful PBT with a tracking SecretFactory (resource-accounting invariants) plus fault-position enumeration (store/KMS/AEAD/allocator)",
   text="Every secret the SDK allocates is accounted for: DRK closed before Encrypt returns, nothing live after a no-cache call, per-(process,key) live copies bounded by the caches entitled to hold them and by capacity, zero live / closed once / never read after close once everything is closed; the same under every single injected fault position.",
   note=W+"; tracker mirrors the securememory contract; cross-checked with real memguard + InUseCounter", ref="3/C09"),
 "C06": dict(level="exploration", engine="pairs", technique="PBT over adversarially constructed id pairs (must-reject relation, both directions, all store kinds and cache states)",
   text="Thousands of (service, product, region, P, Q) tuples built to collide with the key-id naming scheme; a session for P must reject Q's record (and vice versa) with plain, suffixed and DynamoDB metastores and warm/cold/shared/session caches; each partition must still read its own record. Includes ids differing only in printf verbs / case / blanks / invalid UTF-8, and suffixed deployments whose key table still holds un-suffixed records of both partitions.",
   note="region suffixes are AWS region names (no underscore); service/product names ending in the region string are not generated (the underscore-joined id scheme is ambiguous there)", ref="3/C06"),
 "C07": dict(level="exploration", engine="mutations", technique="systematic mutation enumeration (all single-bit flips / truncations / recombinations / corrupted rows) + rapid mutation programs + native fuzzing, oracle 'original payload or error, no panic'",
   text="Exhaustive single-bit and length mutations of Data and the encrypted key of genuine records (warm and cold sessions) and on the AEAD itself, full recombination of fields across partitions / key generations, structural malformations, Load with failing loaders, and every single-row corruption of the key table behind a genuine record.",
   note="the single-bit space is exhausted only for the short payloads in the pool; which error is returned is not asserted", ref="3/C07"),
 "C10": dict(level="exploration", engine="E1-world+E2-faults", technique="stateful PBT + fault-position enumeration with buffer-retaining spies (AEAD, KMS, SecretFactory, fake regional AWS KMS); oracle: retained key buffers are all zero after the call",
   text="Every slice handed out by the AEAD/KMS spies or passed to the secret factory that held key material must be zero when the public call returns, over generated histories with the real memguard/protectedmemory factories, under every injected fault position, and for both AWS KMS plugins with per-region failures.",
   note="only buffers that cross the AEAD/KMS/SecretFactory interfaces are visible", ref="3/C10"),
 "C11": dict(level="exploration", engine="smaps+E3-delay", technique="PBT over operation programs with the kernel's page state (/proc/self/smaps) as oracle, plus preemption-bounded schedule sampling (delay plans over injected yield points) for readers vs. closers",
   text="Real mmap/mlock/mprotect: page permissions and VmFlags are read from /proc/self/smaps inside every callback, between accesses and after Close for generated programs over sizes up to 3 pages; concurrent readers and closers run under drawn delay plans with fault-to-panic conversion, an active-callback counter and a deadlock watchdog. Plus a reader held inside while 4-16 goroutines enter and leave at full speed, every reached yield site taken once as the single preemption point (enumerated), and unclosed secrets dropped with a debug logger installed.",
   note="Linux only; schedules are sampled, not enumerated", ref="3/C11"),
 "C12": dict(level="fault_enumeration", engine="shadow-memcall", technique="exhaustive single and pair fault enumeration over the memory-primitive call sequence, with a shadow page table as oracle",
   text="An interposed memcall implementation with a shadow page table fails every primitive index and every pair of indices of creation/read/close programs for protectedmemory (all primitives + random source) and memguard (Protect): errors surfaced, nothing left mapped/locked, wipe-before-unlock/free, reader count and Close retry, counter balance, no hang. A Close parked behind a reader whose release fails, and a forced collection after every failed creation (no primitive may be called any more), are part of the programs.",
   note="memguard allocation failures cannot be injected; shadow table stands in for kernel state (real state is C11)", ref="3/C12"),
 "C13": dict(level="exploration", engine="metastore-model", technique="model-based stateful PBT against a reference key table, over semantic fakes of database/sql and DynamoDB (v1+v2 adapters)",
   text="Random Store/Load/LoadLatest sequences over overlapping ids and timestamps on the memory, SQL (3 dialects) and both DynamoDB metastores; the fakes interpret the SQL / expressions, enforce the documented schema and serve plain reads eventually consistently, so ordering, uniqueness, consistency flags and field fidelity are checked as behaviour. Stores with a dead context, 16 goroutines reading different ids through one metastore object, and concurrent same-key Stores on every backend.",
   note="trusted base: the fakes' reading of SQL / DynamoDB semantics; no real database", ref="3/C13"),
 "C14": dict(level="exploration", engine="E4-gate", technique="systematic schedule enumeration (stateless DFS over a metastore-call gate scheduler) over rapid-drawn race scenarios; convergence + store immutability + differential oracle",
   text="2-3 processes race key creation from cold / SK-only / expired / revoked (noticed and unnoticed) states; every process blocks before each metastore call until granted, so schedules are sequences of choices: all interleavings of 2 processes x 1 encrypt are enumerated per scenario (x2 encrypts in thorough), 3 processes are sampled. Every record must decrypt in the reference, a fresh process and every other racer; no row may change; unsaved keys must be discarded. Two thirds of the scenarios run over the real metastore implementations behind the gate; slow master-key wraps and same-creation-window revocations are among the start states.",
   note="granularity = metastore calls of processes sharing only the store; scenarios are sampled, their 2-process schedule spaces are complete", ref="3/C14"),
 "C15": dict(level="exploration", engine="cache-model", technique="model-based testing: exhaustive short operation sequences + long rapid sequences + rapid.MakeFuzz under go fuzz, against a reference bounded map with policy models",
   text="All sequences up to length 5 (6 in thorough) over Set/Get/Delete x 3 keys, clock advance and Close for every policy, capacities 1-3 (and TinyLFU at 99/100/101/200) with and without expiry, plus long random sequences at capacities on both sides of every internal threshold, synchronous and asynchronous; presence is owned by the callbacks, victims checked for LRU/LFU/SLRU (SLRU: any split into two non-empty segments); clock steps of whole and fractional seconds. Plus runs across several TinyLFU sample periods and a concurrent Get/Set/Delete part with run-unique values.",
   note="Delete callbacks 0 or 1, sliding expiry tolerated, TinyLFU victims and capacity 0 not asserted", ref="3/C15"),
 "C16": dict(level="exploration", engine="E3-delay", technique="stateful PBT (sequential) + preemption-bounded schedule sampling (concurrent) with a tracking SecretFactory; oracle: held sessions work, same-session sharing, exactly-once teardown",
   text="Session cache of size 1-3 with every policy and short expiry: generated histories and concurrent workloads hold sessions across evictions and expiry, use them afterwards, and finally close everything; delay plans (random and every reachable site of session_cache.go / cache.go as single preemption) vary the schedule. Plus session caches of capacity 100/101, a hot partition got and closed by many goroutines while held, a watchdog on every call, and 20 000 (thorough: 200 000) distinct partition ids live in one session cache, each of which must get its own session.",
   note="schedules are sampled; which session a bounded policy evicts is not asserted", ref="3/C16"),
 "C17": dict(level="fault_enumeration", engine="aws-kms-fakes", technique="exhaustive enumeration of regional failure subsets over fake regional KMS endpoints; oracle from the endpoints' call logs (truth table)",
   text="For 1-3 regions (4 in thorough; up to 6 with a reduced enumeration), keys configured by key ARN and by alias ARN, every preferred region, every subset failing GenerateDataKey / Encrypt at wrap and Decrypt / wrong-bytes at unwrap, wrapper and unwrapper each in {v1, v2}: success conditions, envelope contents, preferred-first order, at-most-once and stop-at-first-success are checked from the call log.",
   note="fake regional KMS = AES-GCM under per-region master keys; order among non-preferred regions not asserted", ref="3/C17"),
 "C18": dict(level="exploration", engine="refimpl", technique="two-way differential PBT against an independent reference implementation with strict parsers, per carrier (JSON, SQL row, both DynamoDB item shapes, protobuf mapping)",
   text="Everything the SDK emits is parsed by strict reference parsers and decrypted from the raw rows alone; everything the reference emits in each carrier's documented shape is decrypted (and adopted) by the SDK; key ids and the ciphertext||tag||nonce layout are checked by use.",
   note="trusted base: my reading of the documentation embodied in the reference implementation", ref="3/C18"),
 "C19": dict(level="exploration", engine="stream-model", technique="exhaustive short request sequences + rapid concurrent streams + real gRPC sample + native fuzz target, against a three-state protocol model and an SDK differential",
   text="Every request sequence up to length 4 (5 in thorough) over an 11-symbol alphabet through an in-memory stream against the real NewAppEncryption, longer random sequences on up to 8 concurrent streams, and a sample through real gRPC over bufconn: one reply per request, protocol errors, round trips, no panic in any state. Plus parallel first get-sessions on a fresh server, streams kept open among others with a small session cache, and many concurrent streams for never-seen partitions; one stream over a metastore that is unreachable for some operations (the stream stays usable, like an SDK session); options taken from generated ASHERAH_* variables (non-unit-aligned durations).",
   note="reply to an empty request and get-session after a rejected one are left free", ref="3/C19"),
 "C20": dict(level="exploration", engine="E1-world", technique="stateful PBT with virtual clock; call-count invariants over the spy metastore/KMS log",
   text="Generated histories with repeated operations around the revoke-check interval: free repeats inside the interval, single re-read after it, at most one KMS unwrap per SK per factory per interval, nothing retained with caching disabled.",
   note=W+"; asserted only when the working set fits the caches and outside key creation (rotation handling)", ref="3/C20"),
}
PENDING_REASON = "check not built yet in this session (planned in DESIGN.md section 3); not claimed until it runs silently on the unchanged tree"

def main():
    props = [json.loads(l)["id"] for l in open(os.path.join(V, "properties.jsonl"))]
    checks = []
    for pid in props:
        if pid not in CLAIMED: continue
        c = CLAIMED[pid]
        checks.append(dict(property_id=pid, quick_cmd="./check %s quick" % pid, thorough_cmd="./check %s thorough" % pid,
            evidence_file="evidence/%s.json" % pid, replay_cmd_template="./check %s --replay {path}" % pid, engine=c["engine"],
            level_claimed=dict(category=c["level"], text=c["text"], design_ref=c["ref"]), level_note=c["note"], technique=c["technique"]))
    na = [dict(property_id=p, reason=NA.get(p, PENDING_REASON)) for p in props if p not in CLAIMED]
    m = dict(version=1,
      setup_cmd="./setup.sh",
      hooks=dict(guard="build overlay generated at check time by tools/rewrite (no guarded source is committed to /repo; guard off = the untouched tree)",
                 enable="go test -overlay <generated overlay.json>: time.Now->verifhook.Now, verifhook.Yield before statements, export files in securememory packages",
                 baseline_off_cmd=json.load(open("/root/.vp/BASELINE.json"))["cmd"], source_commits=FIX_COMMITS, add_only=True),
      engines=ENGINES, checks=checks, not_applicable=na,
      notes="Property-based testing and fuzzing only (pgregory.net/rapid v1.3.0 + native go fuzzing in the thorough tier). Exit codes: 0 held, 1 VIOLATION, 2 inconclusive. 'fix:' commits in /repo are listed in known_findings.json as fixed entries.")
    json.dump(m, open(os.path.join(V, "MANIFEST.json"), "w"), indent=1)
    print("claimed", len(checks), "pending", len(na))

NA = {}
FIX_COMMITS = []
ENGINES = [
 dict(name="E3-delay", path="harness/kit/sched.go", serves_properties=["C08","C11","C16"], kind_free_text="delay-plan engine over statement-level yield points injected by the overlay (preemption-bounded schedule sampling), sites profiled from the same workload"),
 dict(name="E4-gate", path="harness/c14", serves_properties=["C14"], kind_free_text="gate scheduler at metastore-call granularity with stateless DFS enumeration of schedules"),
 dict(name="fakes", path="harness/fakes", serves_properties=["C06","C10","C13","C17","C18"], kind_free_text="semantic fakes: DynamoDB (v1+v2 adapters), database/sql driver interpreting a SQL subset, regional AWS KMS endpoints"),
 dict(name="refimpl", path="harness/kit/refimpl.go", serves_properties=["C01","C02","C14","C18"], kind_free_text="independent reference implementation of the documented formats and key hierarchy"),
 dict(name="E2-faults", path="harness/world/faults.go", serves_properties=["C02","C09","C10"], kind_free_text="re-executable pinned scenarios with fault plans addressed by call index (store/KMS/AEAD/allocator), positions enumerated"),
 dict(name="E1-world", path="harness/world", serves_properties=["C01","C03","C04","C05","C09","C10","C20"], kind_free_text="rapid state machine over the real SDK with virtual clock, spy store/KMS/AEAD, tracking secret factory, reference decryptor"),
]
if __name__ == "__main__":
    main()
