#!/usr/bin/env python3
"""Regenerates MANIFEST.json from the table below (keeps it valid at all times)."""
import json, os, sys
V = os.path.dirname(os.path.dirname(os.path.abspath(__file__)))

CLAIMED = {
 "C01": dict(level="exploration", engine="E1-world", technique="model-based stateful PBT (rapid) with round-trip + differential oracle against an independent reference decryptor",
   text="Thousands of generated histories over the real SDK (1-3 factories, drawn cache policies, virtual clock, out-of-band revocation/rotation, restarts) with every decrypt compared to the recorded payload, and every record re-decrypted by a fresh factory and by a reference decryptor from a store snapshot. Sampled, not exhaustive; sequential histories.",
   note="trusted: overlay rewrite (clock), the reference decryptor's reading of the docs; schedules are covered by C08/C16, not here", ref="3/C01"),
}
PENDING_REASON = "check not built yet in this session (planned in DESIGN.md section 3); not claimed until it runs silently on the unchanged tree"

def main():
    props = [json.loads(l)["id"] for l in open(os.path.join(V, "properties.jsonl"))]
    checks = []
    for pid in props:
        if pid not in CLAIMED: continue
        c = CLAIMED[pid]
        checks.append(dict(property_id=pid, quick_cmd="./check %s quick" % pid, thorough_cmd="./check %s thorough" % pid,
            evidence_file="evidence/%s.json" % pid, replay_cmd_template="./check %s --replay {path}" % pid, engine=c["engine"],
            level_claimed=dict(category=c["level"], text=c["text"], design_ref=c["ref"]), level_note=c["note"], technique=c["technique"]))
    na = [dict(property_id=p, reason=NA.get(p, PENDING_REASON)) for p in props if p not in CLAIMED]
    m = dict(version=1,
      setup_cmd="./setup.sh",
      hooks=dict(guard="build overlay generated at check time by tools/rewrite (no guarded source is committed to /repo; guard off = the untouched tree)",
                 enable="go test -overlay <generated overlay.json>: time.Now->verifhook.Now, verifhook.Yield before statements, export files in securememory packages",
                 baseline_off_cmd=json.load(open("/root/.vp/BASELINE.json"))["cmd"], source_commits=FIX_COMMITS, add_only=True),
      engines=ENGINES, checks=checks, not_applicable=na,
      notes="Property-based testing and fuzzing only (pgregory.net/rapid v1.3.0 + native go fuzzing in the thorough tier). Exit codes: 0 held, 1 VIOLATION, 2 inconclusive. 'fix:' commits in /repo are listed in known_findings.json as fixed entries.")
    json.dump(m, open(os.path.join(V, "MANIFEST.json"), "w"), indent=1)
    print("claimed", len(checks), "pending", len(na))

NA = {}
FIX_COMMITS = []
ENGINES = [
 dict(name="E1-world", path="harness/world", serves_properties=["C01","C03","C04","C05","C09","C10","C20"], kind_free_text="rapid state machine over the real SDK with virtual clock, spy store/KMS/AEAD, tracking secret factory, reference decryptor"),
]
if __name__ == "__main__":
    main()
