module verifhook

go 1.21
