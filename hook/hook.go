// Package verifhook is imported by the overlay-rewritten copies of the
// repository's sources. Idle (nothing installed) every hook is one atomic load
// and behaves exactly like the code it replaces.
package verifhook

import (
	"sync/atomic"
	"time"
)

// ---- virtual clock --------------------------------------------------------

type clockBox struct{ nanos atomic.Int64 }

var clock atomic.Pointer[clockBox]

// Now replaces time.Now in rewritten sources.
func Now() time.Time {
	if c := clock.Load(); c != nil {
		return time.Unix(0, c.nanos.Load())
	}
	return time.Now()
}

// Since replaces time.Since in rewritten sources.
func Since(t time.Time) time.Duration { return Now().Sub(t) }

// InstallClock starts a virtual clock at t. Time then only moves through Advance/Set.
func InstallClock(t time.Time) {
	b := &clockBox{}
	b.nanos.Store(t.UnixNano())
	clock.Store(b)
}

// RemoveClock returns to the real clock.
func RemoveClock() { clock.Store(nil) }

// Advance moves the virtual clock forward by d (no-op when none is installed).
func Advance(d time.Duration) {
	if c := clock.Load(); c != nil {
		c.nanos.Add(int64(d))
	}
}

// SetClock sets the virtual clock to t.
func SetClock(t time.Time) {
	if c := clock.Load(); c != nil {
		c.nanos.Store(t.UnixNano())
	}
}

// VirtualClockInstalled reports whether a virtual clock is active.
func VirtualClockInstalled() bool { return clock.Load() != nil }

// ---- yield points ---------------------------------------------------------

// YieldFunc is called at every instrumented statement with the site label
// "<relative file>:<line>".
type YieldFunc func(site string)

type yieldBox struct{ f YieldFunc }

var yielder atomic.Pointer[yieldBox]

// Yield is inserted before statements of the instrumented files.
func Yield(site string) {
	if y := yielder.Load(); y != nil {
		y.f(site)
	}
}

// InstallYield installs f as the yield handler (nil removes it).
func InstallYield(f YieldFunc) {
	if f == nil {
		yielder.Store(nil)
		return
	}
	yielder.Store(&yieldBox{f: f})
}
