// Package c07: decrypt yields the original plaintext or an error - never other bytes, no crash.
package c07

import (
	"bytes"
	"context"
	"encoding/base64"
	"encoding/json"
	"errors"
	"fmt"
	"testing"
	"time"

	"github.com/godaddy/asherah/go/appencryption"
	"github.com/godaddy/asherah/go/appencryption/pkg/crypto/aead"
	"pgregory.net/rapid"
	"verif/backing"
	"verif/kit"
	"verifhook"
)

func TestMain(m *testing.M) {
	kit.Main(m, "C07", "exploration",
		"a pool of genuine records over 2 partitions, 2 IK generations and 2 SKs (rotation by revocation), payloads of 0/1/16/33 bytes. "+
			"(1) EXHAUSTIVE for every genuine record: every single-bit flip, every truncation length and a one-byte extension of Data and of the encrypted key, each decrypted on a warm and on a cold session; the same exhaustively on the AEAD itself; "+
			"(2) recombination: every field of one genuine record combined with every field of another (same partition / other IK generation / other partition), Created and ParentKeyMeta pointing at every existing key including SK ids; "+
			"(3) structural: nil Key, nil ParentKeyMeta, empty and short slices (0..28 bytes), extreme integers, through Decrypt and through Load with a loader that errs, returns nothing or returns garbage; "+
			"(4) corrupted store rows behind a genuine record: bit flips / truncations of the IK and SK rows' key bytes, rows without parent meta, parent meta naming a missing or wrong key, swapped and missing rows; (5) rapid-drawn mutation programs over the pool and the store; (6) thorough: native fuzz target over mutation programs; "+
			"(7) key rows damaged IN THE DATABASE behind the real SQL (3 dialects) and DynamoDB (v1, v2) metastores: ~30 damaged key_record texts (null, wrong JSON types, truncated, missing / non-base64 Key, broken ParentKeyMeta ...) and ~24 damaged items (KeyRecord missing / NULL / wrong attribute types ...), on the IK row and on the SK row, key caching on and off, decrypt followed by the partition's next encrypt; "+
			"(7b) the recombination part also over the real MemoryMetastore; key rows stored under Created 0 with records whose parent meta says Created 0 (the SDK's own internal marker for the latest key), decrypted four times each; (8) runs of 1300 (thorough 9000) decrypts, half of them of mutated records, on one session for every key-cache eviction policy x capacity {1, 99, 100, 128} x shared on/off, long enough for the policies' periodic maintenance (TinyLFU sample periods). "+
			"Oracle: the call returns an error, or bytes equal to the payload originally encrypted under the genuine record whose Data the input carries; a panic is a violation. "+
			"One evaluation = one decrypt of one mutated input. Non-trivial = the input differs from every genuine record (or a store row differs from what the SDK wrote); enumerated mutations are distinct by construction",
		"which error is returned is not asserted; a change of unauthenticated metadata only (DRK Created) may succeed with the original payload")
}

var ctx = context.Background()

type genuine struct {
	part    string
	payload []byte
	drr     appencryption.DataRowRecord
}

type fixture struct {
	store            *kit.Store
	kms              *kit.SpyKMS
	factory          *appencryption.SessionFactory
	pool             []genuine
	byData           map[string]int // string(Data) -> index in pool
	warm             map[string]*appencryption.Session
	service, product string
	suffix           string
}

func cloneDRR(d appencryption.DataRowRecord) appencryption.DataRowRecord {
	r := appencryption.DataRowRecord{Data: append([]byte(nil), d.Data...)}
	if d.Data == nil {
		r.Data = nil
	}
	if d.Key != nil {
		k := *d.Key
		k.EncryptedKey = append([]byte(nil), d.Key.EncryptedKey...)
		if d.Key.EncryptedKey == nil {
			k.EncryptedKey = nil
		}
		if d.Key.ParentKeyMeta != nil {
			pm := *d.Key.ParentKeyMeta
			k.ParentKeyMeta = &pm
		}
		r.Key = &k
	}
	return r
}

func newFactory(fx *fixture, store appencryption.Metastore, cache bool) *appencryption.SessionFactory {
	pol := appencryption.NewCryptoPolicy()
	pol.CreateDatePrecision = time.Second
	pol.RevokeCheckInterval = time.Second
	if !cache {
		pol.CacheSystemKeys, pol.CacheIntermediateKeys = false, false
	}
	return appencryption.NewSessionFactory(&appencryption.Config{Service: fx.service, Product: fx.product, Policy: pol}, store, fx.kms, aead.NewAES256GCM(), appencryption.WithSecretFactory(kit.NewTracker()))
}

// newFixture builds the pool: 2 partitions x 2 IK generations x 2 SKs x 4 payload sizes.
func newFixture() *fixture { return newFixtureSuffix("") }

// newFixtureSuffix builds the pool over a store that reports the given region suffix.
func newFixtureSuffix(suffix string) *fixture { return newFixtureOver(suffix, "") }

// newFixtureOver builds the pool over a real metastore implementation (see kit.Store.Backing) when backend is set.
func newFixtureOver(suffix, backend string) *fixture {
	verifhook.InstallClock(time.Unix(1_700_000_000, 0))
	log := &kit.CallLog{}
	fx := &fixture{store: kit.NewStore(log), kms: kit.NewSpyKMS(log), byData: map[string]int{}, warm: map[string]*appencryption.Session{}, service: "svc", product: "prod"}
	if backend != "" {
		fx.store.Backing = backing.New(backend)
	}
	fx.store.Suffix = suffix
	fx.suffix = suffix
	fx.factory = newFactory(fx, fx.store, true)
	payloads := [][]byte{{}, {0x41}, []byte("sixteen byte pay"), bytes.Repeat([]byte{0xab}, 33)}
	for gen := 0; gen < 2; gen++ {
		for _, part := range []string{"p1", "p2"} {
			s, err := fx.factory.GetSession(part)
			if err != nil {
				panic(err)
			}
			for _, p := range payloads {
				r, err := s.Encrypt(ctx, p)
				if err != nil {
					panic(err)
				}
				fx.byData[string(r.Data)] = len(fx.pool)
				fx.pool = append(fx.pool, genuine{part, p, cloneDRR(*r)})
			}
			s.Close()
		}
		if gen == 0 {
			// rotate SK and IKs: revoke the SK out of band, let the caches notice
			sk := fx.store.Latest(kit.RefSKID(fx.service, fx.product, suffix))
			fx.store.Revoke(sk.ID, sk.Created)
			verifhook.Advance(5 * time.Second)
		}
	}
	for _, part := range []string{"p1", "p2"} {
		s, _ := fx.factory.GetSession(part)
		fx.warm[part] = s
	}
	return fx
}

// outcome classifies one decrypt attempt; a non-empty string is a violation.
func (fx *fixture) judge(what string, in appencryption.DataRowRecord, out []byte, err error, panicked any) string {
	if panicked != nil {
		return fmt.Sprintf("%s: PANIC: %v", what, panicked)
	}
	if err != nil {
		return ""
	}
	idx, ok := fx.byData[string(in.Data)]
	if !ok {
		return fmt.Sprintf("%s: returned %d bytes %q without error although the input's Data is not the Data of any genuine record", what, len(out), trunc(out))
	}
	if !bytes.Equal(out, fx.pool[idx].payload) {
		return fmt.Sprintf("%s: returned %q, but the payload originally encrypted under that Data is %q", what, trunc(out), trunc(fx.pool[idx].payload))
	}
	return ""
}

func trunc(b []byte) []byte {
	if len(b) > 40 {
		return b[:40]
	}
	return b
}

func safeDecrypt(s *appencryption.Session, in appencryption.DataRowRecord) (out []byte, err error, p any) {
	defer func() { p = recover() }()
	out, err = s.Decrypt(ctx, in)
	return
}

func describe(in appencryption.DataRowRecord) string {
	k := "nil"
	if in.Key != nil {
		pm := "nil"
		if in.Key.ParentKeyMeta != nil {
			pm = fmt.Sprintf("{%q,%d}", in.Key.ParentKeyMeta.ID, in.Key.ParentKeyMeta.Created)
		}
		k = fmt.Sprintf("{Created:%d EncryptedKey:%dB %x ParentKeyMeta:%s}", in.Key.Created, len(in.Key.EncryptedKey), trunc(in.Key.EncryptedKey), pm)
	}
	return fmt.Sprintf("DRR{Key:%s Data:%dB %x}", k, len(in.Data), trunc(in.Data))
}

type counter struct{ total, nontrivial int64 }

// try decrypts in on a warm session of part and on a cold (fresh factory, no cache) one.
func (fx *fixture) try(t *testing.T, c *counter, part, what string, in appencryption.DataRowRecord, isMutant bool) {
	for _, mode := range []string{"warm", "cold"} {
		var s *appencryption.Session
		var f *appencryption.SessionFactory
		if mode == "warm" {
			s = fx.warm[part]
		} else {
			f = newFactory(fx, fx.store, false)
			var err error
			s, err = f.GetSession(part)
			if err != nil {
				t.Fatalf("GetSession: %v", err)
			}
		}
		arg := cloneDRR(in)
		out, err, p := safeDecrypt(s, arg)
		if f != nil {
			s.Close()
			f.Close()
		}
		c.total++
		if isMutant {
			c.nontrivial++
		}
		if msg := fx.judge(what+" ["+mode+" session of "+part+"]", in, out, err, p); msg != "" {
			kit.Rec.Violation(msg)
			t.Fatalf("C07 violated: %s\n  input: %s", msg, describe(in))
		}
	}
}

func TestBitFlipsAndTruncations(t *testing.T) {
	fx := newFixture()
	defer verifhook.RemoveClock()
	c := &counter{}
	for gi, g := range fx.pool {
		// the genuine record itself decrypts (the oracle is not vacuous)
		out, err := fx.warm[g.part].Decrypt(ctx, cloneDRR(g.drr))
		if err != nil || !bytes.Equal(out, g.payload) {
			t.Fatalf("harness: genuine record %d does not decrypt: %v", gi, err)
		}
		for _, field := range []string{"Data", "EncryptedKey"} {
			get := func(d *appencryption.DataRowRecord) *[]byte {
				if field == "Data" {
					return &d.Data
				}
				return &d.Key.EncryptedKey
			}
			n := len(*get(&g.drr))
			for bit := 0; bit < n*8; bit++ {
				m := cloneDRR(g.drr)
				(*get(&m))[bit/8] ^= 1 << (bit % 8)
				fx.try(t, c, g.part, fmt.Sprintf("rec%d %s bit %d flipped", gi, field, bit), m, true)
			}
			for l := 0; l < n; l++ {
				m := cloneDRR(g.drr)
				*get(&m) = (*get(&m))[:l]
				fx.try(t, c, g.part, fmt.Sprintf("rec%d %s truncated to %d bytes", gi, field, l), m, true)
			}
			for _, b := range []byte{0, 0xff} {
				m := cloneDRR(g.drr)
				*get(&m) = append(*get(&m), b)
				fx.try(t, c, g.part, fmt.Sprintf("rec%d %s extended by one byte", gi, field), m, true)
				m2 := cloneDRR(g.drr)
				*get(&m2) = append([]byte{b}, *get(&m2)...)
				fx.try(t, c, g.part, fmt.Sprintf("rec%d %s prefixed by one byte", gi, field), m2, true)
			}
		}
		if kit.Tier() == "quick" && gi >= 7 {
			break // quick: first IK generation only (8 records); thorough: all 16
		}
	}
	kit.Rec.Enumerated(c.total, c.nontrivial)
	kit.Rec.LabelN("bitflip-truncation-decrypts", c.total)
	kit.Rec.Sample(map[string]any{"kind": "bit flip", "example": "rec0 Data bit 5 flipped, decrypted on a warm and a cold session"})
}

func TestAEADDirect(t *testing.T) {
	a := aead.NewAES256GCM()
	key := bytes.Repeat([]byte{7}, 32)
	var total int64
	for _, n := range []int{0, 1, 16, 31} {
		pt := bytes.Repeat([]byte{0x5c}, n)
		ct, err := a.Encrypt(pt, key)
		if err != nil {
			t.Fatal(err)
		}
		check := func(what string, m []byte) {
			total++
			var out []byte
			var err error
			func() {
				defer func() {
					if p := recover(); p != nil {
						err = nil
						out = []byte(fmt.Sprint("PANIC ", p))
					}
				}()
				out, err = a.Decrypt(m, key)
			}()
			if err == nil {
				msg := fmt.Sprintf("AEAD.Decrypt accepted a ciphertext with %s (returned %q)", what, trunc(out))
				kit.Rec.Violation(msg)
				t.Fatalf("C07 violated: %s", msg)
			}
		}
		for bit := 0; bit < len(ct)*8; bit++ {
			m := append([]byte(nil), ct...)
			m[bit/8] ^= 1 << (bit % 8)
			check(fmt.Sprintf("bit %d flipped (plaintext %d bytes)", bit, n), m)
		}
		for l := 0; l < len(ct); l++ {
			check(fmt.Sprintf("length %d of %d", l, len(ct)), ct[:l])
		}
		check("one byte appended", append(append([]byte(nil), ct...), 0))
		wrong := bytes.Repeat([]byte{8}, 32)
		total++
		if _, err := a.Decrypt(ct, wrong); err == nil {
			t.Fatalf("C07 violated: AEAD.Decrypt accepted a ciphertext under the wrong key")
		}
	}
	kit.Rec.Enumerated(total, total)
}

func TestRecombinationAndStructure(t *testing.T) {
	recombinationAndStructure(t, newFixture())
}

// TestRecombinationAndStructureSuffixed: the same with a region-suffixing metastore (another partition implementation).
func TestRecombinationAndStructureSuffixed(t *testing.T) {
	recombinationAndStructure(t, newFixtureSuffix("us-west-2"))
}

// TestRecombinationAndStructureMemoryMetastore: the same over the real MemoryMetastore (lookups of
// known ids with unknown timestamps, unknown ids, ... go through its own code).
func TestRecombinationAndStructureMemoryMetastore(t *testing.T) {
	recombinationAndStructure(t, newFixtureOver("", "memory"))
}

func recombinationAndStructure(t *testing.T, fx *fixture) {
	defer verifhook.RemoveClock()
	c := &counter{}
	rows := fx.store.CopyRows()
	// (2) every field of one record with every field of another
	for i, a := range fx.pool {
		for j, b := range fx.pool {
			if i == j {
				continue
			}
			m := cloneDRR(a.drr)
			m.Key.EncryptedKey = append([]byte(nil), b.drr.Key.EncryptedKey...)
			fx.try(t, c, a.part, fmt.Sprintf("Data of rec%d with encrypted key of rec%d", i, j), m, true)
			m = cloneDRR(a.drr)
			pm := *b.drr.Key.ParentKeyMeta
			m.Key.ParentKeyMeta = &pm
			mutant := pm != *a.drr.Key.ParentKeyMeta
			fx.try(t, c, a.part, fmt.Sprintf("rec%d with ParentKeyMeta of rec%d", i, j), m, mutant)
			m = cloneDRR(b.drr)
			m.Data = append([]byte(nil), a.drr.Data...)
			fx.try(t, c, b.part, fmt.Sprintf("key of rec%d with Data of rec%d", j, i), m, true)
		}
		// ParentKeyMeta pointing at every existing row (IKs of both partitions and SKs)
		for _, r := range rows {
			m := cloneDRR(a.drr)
			m.Key.ParentKeyMeta = &appencryption.KeyMeta{ID: r.ID, Created: r.Created}
			fx.try(t, c, a.part, fmt.Sprintf("rec%d with ParentKeyMeta -> row (%s,%d)", i, r.ID, r.Created), m, true)
			m = cloneDRR(a.drr)
			m.Key.ParentKeyMeta.Created = r.Created
			fx.try(t, c, a.part, fmt.Sprintf("rec%d with ParentKeyMeta.Created=%d", i, r.Created), m, r.Created != a.drr.Key.ParentKeyMeta.Created)
		}
		for _, cr := range []int64{0, -1, 1 << 62, -1 << 63} {
			m := cloneDRR(a.drr)
			m.Key.Created = cr // unauthenticated metadata: may succeed with the original payload
			fx.try(t, c, a.part, fmt.Sprintf("rec%d with DRK Created=%d", i, cr), m, true)
			m = cloneDRR(a.drr)
			m.Key.ParentKeyMeta.Created = cr
			fx.try(t, c, a.part, fmt.Sprintf("rec%d with ParentKeyMeta.Created=%d", i, cr), m, true)
		}
	}
	// (3) structural
	g := fx.pool[2]
	structural := map[string]func(*appencryption.DataRowRecord){
		"nil Key":                                   func(d *appencryption.DataRowRecord) { d.Key = nil },
		"nil ParentKeyMeta":                         func(d *appencryption.DataRowRecord) { d.Key.ParentKeyMeta = nil },
		"nil Data":                                  func(d *appencryption.DataRowRecord) { d.Data = nil },
		"nil EncryptedKey":                          func(d *appencryption.DataRowRecord) { d.Key.EncryptedKey = nil },
		"empty ParentKeyMeta.ID":                    func(d *appencryption.DataRowRecord) { d.Key.ParentKeyMeta.ID = "" },
		"ParentKeyMeta.ID without underscore":       func(d *appencryption.DataRowRecord) { d.Key.ParentKeyMeta.ID = "garbage" },
		"ParentKeyMeta.ID = '_'":                    func(d *appencryption.DataRowRecord) { d.Key.ParentKeyMeta.ID = "_" },
		"ParentKeyMeta.ID with trailing underscore": func(d *appencryption.DataRowRecord) { d.Key.ParentKeyMeta.ID += "_" },
		"ParentKeyMeta.ID truncated":                func(d *appencryption.DataRowRecord) { d.Key.ParentKeyMeta.ID = d.Key.ParentKeyMeta.ID[:3] },
		"zero value record":                         func(d *appencryption.DataRowRecord) { *d = appencryption.DataRowRecord{} },
		"empty key record":                          func(d *appencryption.DataRowRecord) { d.Key = &appencryption.EnvelopeKeyRecord{} },
		"revoked flag set":                          func(d *appencryption.DataRowRecord) { d.Key.Revoked = true },
		"key ID field set":                          func(d *appencryption.DataRowRecord) { d.Key.ID = "_IK_p2_svc_prod" },
	}
	for name, f := range structural {
		m := cloneDRR(g.drr)
		f(&m)
		fx.try(t, c, g.part, name, m, name != "revoked flag set" && name != "key ID field set")
	}
	for l := 0; l <= 28; l++ {
		m := cloneDRR(g.drr)
		m.Data = bytes.Repeat([]byte{byte(l)}, l)
		fx.try(t, c, g.part, fmt.Sprintf("Data replaced by %d arbitrary bytes", l), m, true)
		m = cloneDRR(g.drr)
		m.Key.EncryptedKey = bytes.Repeat([]byte{byte(l)}, l)
		fx.try(t, c, g.part, fmt.Sprintf("encrypted key replaced by %d arbitrary bytes", l), m, true)
	}
	// Load with loaders that err, return nothing, or return garbage
	loaders := map[string]appencryption.Loader{
		"loader returns an error":         loaderFunc(func() (*appencryption.DataRowRecord, error) { return nil, errors.New("not found") }),
		"loader returns nil, nil":         loaderFunc(func() (*appencryption.DataRowRecord, error) { return nil, nil }),
		"loader returns an empty record":  loaderFunc(func() (*appencryption.DataRowRecord, error) { return &appencryption.DataRowRecord{}, nil }),
		"loader returns record + error":   loaderFunc(func() (*appencryption.DataRowRecord, error) { d := cloneDRR(g.drr); return &d, errors.New("partial") }),
		"loader returns a genuine record": loaderFunc(func() (*appencryption.DataRowRecord, error) { d := cloneDRR(g.drr); return &d, nil }),
		"loader returns a foreign record": loaderFunc(func() (*appencryption.DataRowRecord, error) { d := cloneDRR(fx.pool[6].drr); return &d, nil }),
	}
	for name, l := range loaders {
		var out []byte
		var err error
		var p any
		func() {
			defer func() { p = recover() }()
			out, err = fx.warm[g.part].Load(ctx, "some-key", l)
		}()
		c.total++
		c.nontrivial++
		var in appencryption.DataRowRecord
		if d, _ := l.Load(ctx, nil); d != nil {
			in = *d
		}
		if msg := fx.judge("Session.Load, "+name, in, out, err, p); msg != "" {
			kit.Rec.Violation(msg)
			t.Fatalf("C07 violated: %s", msg)
		}
		if name == "loader returns a genuine record" && (err != nil || !bytes.Equal(out, g.payload)) {
			t.Fatalf("harness: Load of a genuine record failed: %v", err)
		}
	}
	kit.Rec.Enumerated(c.total, c.nontrivial)
	kit.Rec.LabelN("recombination-structure-decrypts", c.total)
	kit.Rec.Sample(map[string]any{"kind": "recombination", "example": "Data of rec0 with encrypted key of rec9 (other partition, other IK generation)"})
}

type loaderFunc func() (*appencryption.DataRowRecord, error)

func (f loaderFunc) Load(context.Context, interface{}) (*appencryption.DataRowRecord, error) {
	return f()
}

// ---- (4) corrupted store rows ---------------------------------------------------------

type rowMutation struct {
	name  string
	apply func(rows []*appencryption.EnvelopeKeyRecord) []*appencryption.EnvelopeKeyRecord
}

func isIK(r *appencryption.EnvelopeKeyRecord) bool { return len(r.ID) > 4 && r.ID[:4] == "_IK_" }

func rowMutations(rows []*appencryption.EnvelopeKeyRecord) []rowMutation {
	var ms []rowMutation
	for i, r := range rows {
		i, r := i, r
		kind := "SK"
		if isIK(r) {
			kind = "IK"
		}
		tag := fmt.Sprintf("%s row (%s,%d)", kind, r.ID, r.Created)
		step := 1
		for bit := 0; bit < len(r.EncryptedKey)*8; bit += step {
			bit := bit
			ms = append(ms, rowMutation{fmt.Sprintf("%s key bit %d flipped", tag, bit), func(rs []*appencryption.EnvelopeKeyRecord) []*appencryption.EnvelopeKeyRecord {
				rs[i].EncryptedKey[bit/8] ^= 1 << (bit % 8)
				return rs
			}})
			if kit.Tier() == "quick" {
				step = 7
			}
		}
		for _, l := range []int{0, 1, 11, 12, 27, 28, 29, len(r.EncryptedKey) - 1} {
			l := l
			if l < 0 || l >= len(r.EncryptedKey) {
				continue
			}
			ms = append(ms, rowMutation{fmt.Sprintf("%s key truncated to %d bytes", tag, l), func(rs []*appencryption.EnvelopeKeyRecord) []*appencryption.EnvelopeKeyRecord {
				rs[i].EncryptedKey = rs[i].EncryptedKey[:l]
				return rs
			}})
		}
		ms = append(ms, rowMutation{tag + " removed", func(rs []*appencryption.EnvelopeKeyRecord) []*appencryption.EnvelopeKeyRecord {
			return append(rs[:i:i], rs[i+1:]...)
		}})
		ms = append(ms, rowMutation{tag + " key bytes nil", func(rs []*appencryption.EnvelopeKeyRecord) []*appencryption.EnvelopeKeyRecord {
			rs[i].EncryptedKey = nil
			return rs
		}})
		if isIK(r) {
			ms = append(ms, rowMutation{tag + " without parent meta", func(rs []*appencryption.EnvelopeKeyRecord) []*appencryption.EnvelopeKeyRecord {
				rs[i].ParentKeyMeta = nil
				return rs
			}})
			ms = append(ms, rowMutation{tag + " parent meta names a missing key", func(rs []*appencryption.EnvelopeKeyRecord) []*appencryption.EnvelopeKeyRecord {
				rs[i].ParentKeyMeta = &appencryption.KeyMeta{ID: "_SK_nope_nope", Created: 42}
				return rs
			}})
			for j, o := range rows {
				j, o := j, o
				if j == i {
					continue
				}
				ms = append(ms, rowMutation{fmt.Sprintf("%s parent meta -> (%s,%d)", tag, o.ID, o.Created), func(rs []*appencryption.EnvelopeKeyRecord) []*appencryption.EnvelopeKeyRecord {
					rs[i].ParentKeyMeta = &appencryption.KeyMeta{ID: o.ID, Created: o.Created}
					return rs
				}})
				ms = append(ms, rowMutation{fmt.Sprintf("%s key bytes swapped with (%s,%d)", tag, o.ID, o.Created), func(rs []*appencryption.EnvelopeKeyRecord) []*appencryption.EnvelopeKeyRecord {
					rs[i].EncryptedKey, rs[j].EncryptedKey = rs[j].EncryptedKey, rs[i].EncryptedKey
					return rs
				}})
			}
		}
	}
	return ms
}

func (fx *fixture) corruptedStore(m rowMutation) *kit.Store {
	st := kit.NewStore(&kit.CallLog{})
	st.Suffix = fx.suffix
	for _, r := range m.apply(fx.store.CopyRows()) {
		st.Insert("corrupt", r.ID, r.Created, r)
	}
	return st
}

func TestCorruptedStoreRows(t *testing.T) {
	fx := newFixture()
	defer verifhook.RemoveClock()
	c := &counter{}
	targets := []int{2, 6, 10, 14} // one 16-byte record per (partition, generation)
	for _, m := range rowMutations(fx.store.CopyRows()) {
		st := fx.corruptedStore(m)
		for _, cache := range []bool{false, true} {
			f := newFactory(fx, st, cache)
			for _, gi := range targets {
				g := fx.pool[gi]
				s, err := f.GetSession(g.part)
				if err != nil {
					t.Fatalf("GetSession: %v", err)
				}
				out, err, p := safeDecrypt(s, cloneDRR(g.drr))
				func() { defer func() { _ = recover() }(); s.Close() }()
				c.total++
				c.nontrivial++
				if msg := fx.judge(fmt.Sprintf("genuine rec%d behind a corrupted store (%s), key caching %v", gi, m.name, cache), g.drr, out, err, p); msg != "" {
					kit.Rec.Violation(msg)
					t.Fatalf("C07 violated: %s", msg)
				}
			}
			func() { defer func() { _ = recover() }(); f.Close() }()
		}
	}
	kit.Rec.Enumerated(c.total, c.nontrivial)
	kit.Rec.LabelN("corrupted-store-decrypts", c.total)
	kit.Rec.Sample(map[string]any{"kind": "corrupted store row", "example": "IK row without parent meta, genuine record decrypted by a cold factory"})
}

// ---- (5) rapid mutation programs ---------------------------------------------------------

var sharedFx *fixture

func mutationProgram(t *rapid.T, fx *fixture) (appencryption.DataRowRecord, string, string) {
	base := fx.pool[rapid.IntRange(0, len(fx.pool)-1).Draw(t, "base")]
	m := cloneDRR(base.drr)
	part := base.part
	var steps []string
	n := rapid.IntRange(1, 4).Draw(t, "steps")
	for i := 0; i < n; i++ {
		target := rapid.SampledFrom([]string{"Data", "EncryptedKey"}).Draw(t, "field")
		buf := &m.Data
		if target == "EncryptedKey" {
			if m.Key == nil {
				continue
			}
			buf = &m.Key.EncryptedKey
		}
		switch rapid.IntRange(0, 7).Draw(t, "mutation") {
		case 0:
			if len(*buf) > 0 {
				bit := rapid.IntRange(0, len(*buf)*8-1).Draw(t, "bit")
				(*buf)[bit/8] ^= 1 << (bit % 8)
				steps = append(steps, fmt.Sprintf("flip %s bit %d", target, bit))
			}
		case 1:
			l := rapid.IntRange(0, len(*buf)).Draw(t, "len")
			*buf = (*buf)[:l]
			steps = append(steps, fmt.Sprintf("truncate %s to %d", target, l))
		case 2:
			*buf = append(*buf, rapid.SliceOfN(rapid.Byte(), 1, 40).Draw(t, "extra")...)
			steps = append(steps, "extend "+target)
		case 3:
			o := fx.pool[rapid.IntRange(0, len(fx.pool)-1).Draw(t, "other")]
			if target == "Data" {
				*buf = append([]byte(nil), o.drr.Data...)
			} else {
				*buf = append([]byte(nil), o.drr.Key.EncryptedKey...)
			}
			steps = append(steps, "splice "+target+" from another record")
		case 4:
			o := fx.pool[rapid.IntRange(0, len(fx.pool)-1).Draw(t, "other")]
			if m.Key != nil {
				pm := *o.drr.Key.ParentKeyMeta
				m.Key.ParentKeyMeta = &pm
				steps = append(steps, "ParentKeyMeta from another record")
			}
		case 5:
			// splice halves of two ciphertexts
			o := fx.pool[rapid.IntRange(0, len(fx.pool)-1).Draw(t, "other")]
			src := o.drr.Data
			if target == "EncryptedKey" {
				src = o.drr.Key.EncryptedKey
			}
			cut := rapid.IntRange(0, len(*buf)).Draw(t, "cut")
			if cut <= len(src) {
				*buf = append(append([]byte(nil), (*buf)[:cut]...), src[cut:]...)
				steps = append(steps, fmt.Sprintf("splice %s at %d with another record", target, cut))
			}
		case 6:
			part = rapid.SampledFrom([]string{"p1", "p2"}).Draw(t, "session")
			steps = append(steps, "decrypt on a session of "+part)
		default:
			*buf = rapid.SliceOfN(rapid.Byte(), 0, 80).Draw(t, "bytes")
			steps = append(steps, "replace "+target+" by arbitrary bytes")
		}
	}
	return m, part, fmt.Sprint(steps)
}

func propMutation(t *rapid.T) {
	if sharedFx == nil {
		sharedFx = newFixture()
	}
	fx := sharedFx
	m, part, steps := mutationProgram(t, fx)
	out, err, p := safeDecrypt(fx.warm[part], cloneDRR(m))
	_, isGenuine := fx.byData[string(m.Data)]
	kit.Rec.Case(steps+describe(m), !isGenuine || err != nil, func() any {
		return map[string]any{"program": steps, "input": describe(m), "error": fmt.Sprint(err)}
	})
	if msg := fx.judge("mutation program "+steps+" on a session of "+part, m, out, err, p); msg != "" {
		kit.Rec.Violation(msg)
		t.Fatalf("C07 violated: %s\n  input: %s", msg, describe(m))
	}
}

func TestMutationPrograms(t *testing.T) {
	kit.Check(t, 60000, 3200000, propMutation)
}

// FuzzDecryptMutations: the native fuzzer drives the same mutation programs (thorough tier).
func FuzzDecryptMutations(f *testing.F) {
	f.Fuzz(rapid.MakeFuzz(propMutation))
}

// TestArbitraryJSONRecords: records arrive as JSON in practice. Arbitrary JSON documents
// (wrong types, missing fields, huge numbers, nested junk, genuine records with one field
// replaced) are unmarshalled the way an application would and, when that succeeds, decrypted.
func TestArbitraryJSONRecords(t *testing.T) {
	kit.Check(t, 20000, 1600000, func(t *rapid.T) {
		if sharedFx == nil {
			sharedFx = newFixture()
		}
		fx := sharedFx
		g := fx.pool[rapid.IntRange(0, len(fx.pool)-1).Draw(t, "base")]
		good, _ := json.Marshal(g.drr)
		var doc map[string]any
		_ = json.Unmarshal(good, &doc)
		junk := func(label string) any {
			switch rapid.IntRange(0, 9).Draw(t, label) {
			case 0:
				return nil
			case 1:
				return rapid.Float64().Draw(t, label+"f")
			case 2:
				return rapid.StringN(0, 80, -1).Draw(t, label+"s")
			case 3:
				return []any{1, "x", nil}
			case 4:
				return map[string]any{"KeyId": rapid.StringN(0, 40, -1).Draw(t, label+"id"), "Created": rapid.Int64().Draw(t, label+"c")}
			case 5:
				return true
			case 6:
				return rapid.Int64().Draw(t, label+"i")
			case 7:
				return base64.StdEncoding.EncodeToString(rapid.SliceOfN(rapid.Byte(), 0, 100).Draw(t, label+"b"))
			case 8:
				return map[string]any{}
			default:
				return "!!not base64!!"
			}
		}
		path := rapid.SampledFrom([]string{"Key", "Data", "Key.Created", "Key.Key", "Key.ParentKeyMeta", "Key.ParentKeyMeta.KeyId", "Key.ParentKeyMeta.Created", "Key.Revoked", "extra", "whole"}).Draw(t, "path")
		key, _ := doc["Key"].(map[string]any)
		pm, _ := key["ParentKeyMeta"].(map[string]any)
		var raw []byte
		switch path {
		case "whole":
			raw, _ = json.Marshal(junk("doc"))
		case "Key", "Data", "extra":
			doc[path] = junk("v")
			raw, _ = json.Marshal(doc)
		case "Key.Created", "Key.Key", "Key.ParentKeyMeta", "Key.Revoked":
			key[path[4:]] = junk("v")
			raw, _ = json.Marshal(doc)
		default:
			pm[path[len("Key.ParentKeyMeta."):]] = junk("v")
			raw, _ = json.Marshal(doc)
		}
		var in appencryption.DataRowRecord
		var out []byte
		var err error
		var p any
		func() {
			defer func() { p = recover() }()
			if err = json.Unmarshal(raw, &in); err != nil {
				return
			}
			out, err = fx.warm[g.part].Decrypt(ctx, in)
		}()
		kit.Rec.Case("json|"+path+"|"+string(raw), true, func() any {
			return map[string]any{"mutated_path": path, "json": string(trunc(raw)), "error": fmt.Sprint(err)}
		})
		if msg := fx.judge("JSON record with "+path+" replaced", in, out, err, p); msg != "" {
			kit.Rec.Violation(msg)
			t.Fatalf("C07 violated: %s\n  json: %s", msg, raw)
		}
	})
}
