package c07

import (
	"encoding/json"
	"fmt"
	"strings"
	"testing"
	"time"

	"github.com/godaddy/asherah/go/appencryption"
	"github.com/godaddy/asherah/go/appencryption/pkg/crypto/aead"
	"verif/backing"
	"verif/fakes"
	"verif/kit"
	"verifhook"
)

// Key rows damaged IN THE DATABASE, behind the real metastore implementations: whatever the
// stored text / item looks like, a decrypt that needs that row returns an error (or, when the
// damage is immaterial, the right plaintext) - it never panics and never returns other bytes.

type dbMutation struct {
	name string
	sql  func(text string) string                         // new key_record text
	item func(it map[string]fakes.AV) map[string]fakes.AV // new item
}

func jsonEdit(text string, f func(m map[string]any)) string {
	var m map[string]any
	if err := json.Unmarshal([]byte(text), &m); err != nil {
		panic(err)
	}
	f(m)
	b, _ := json.Marshal(m)
	return string(b)
}

func sqlMutations() []dbMutation {
	lit := func(s string) func(string) string { return func(string) string { return s } }
	edit := func(f func(m map[string]any)) func(string) string {
		return func(t string) string { return jsonEdit(t, f) }
	}
	return []dbMutation{
		{name: "null", sql: lit("null")},
		{name: "empty text", sql: lit("")},
		{name: "{}", sql: lit("{}")},
		{name: "[]", sql: lit("[]")},
		{name: "string", sql: lit(`"x"`)},
		{name: "number", sql: lit("123")},
		{name: "true", sql: lit("true")},
		{name: "unterminated", sql: lit("{")},
		{name: "truncated", sql: func(t string) string { return t[:len(t)/2] }},
		{name: "trailing garbage", sql: func(t string) string { return t + "}" }},
		{name: "Key null", sql: edit(func(m map[string]any) { m["Key"] = nil })},
		{name: "Key number", sql: edit(func(m map[string]any) { m["Key"] = 5 })},
		{name: "Key missing", sql: edit(func(m map[string]any) { delete(m, "Key") })},
		{name: "Key empty", sql: edit(func(m map[string]any) { m["Key"] = "" })},
		{name: "Key not base64", sql: edit(func(m map[string]any) { m["Key"] = "!!!!" })},
		{name: "Key short", sql: edit(func(m map[string]any) { m["Key"] = "QUJD" })},
		{name: "Key 27 bytes", sql: edit(func(m map[string]any) { m["Key"] = "QUJDQUJDQUJDQUJDQUJDQUJDQUJDQUJDQUJD" })},
		{name: "Key object", sql: edit(func(m map[string]any) { m["Key"] = map[string]any{"a": 1} })},
		{name: "Created string", sql: edit(func(m map[string]any) { m["Created"] = "yesterday" })},
		{name: "Created null", sql: edit(func(m map[string]any) { m["Created"] = nil })},
		{name: "Created float", sql: edit(func(m map[string]any) { m["Created"] = 1.5 })},
		{name: "Created negative", sql: edit(func(m map[string]any) { m["Created"] = -1 })},
		{name: "ParentKeyMeta null", sql: edit(func(m map[string]any) { m["ParentKeyMeta"] = nil })},
		{name: "ParentKeyMeta number", sql: edit(func(m map[string]any) { m["ParentKeyMeta"] = 7 })},
		{name: "ParentKeyMeta {}", sql: edit(func(m map[string]any) { m["ParentKeyMeta"] = map[string]any{} })},
		{name: "ParentKeyMeta KeyId number", sql: edit(func(m map[string]any) { m["ParentKeyMeta"] = map[string]any{"KeyId": 5, "Created": 1} })},
		{name: "ParentKeyMeta names nothing", sql: edit(func(m map[string]any) { m["ParentKeyMeta"] = map[string]any{"KeyId": "_SK_nobody", "Created": 1} })},
		{name: "ParentKeyMeta on SK row / self", sql: edit(func(m map[string]any) {
			m["ParentKeyMeta"] = map[string]any{"KeyId": "_SK_svc_prod", "Created": m["Created"]}
		})},
		{name: "Revoked string", sql: edit(func(m map[string]any) { m["Revoked"] = "yes" })},
		{name: "Revoked true", sql: edit(func(m map[string]any) { m["Revoked"] = true })},
		{name: "unknown member", sql: edit(func(m map[string]any) { m["Extra"] = []any{1, 2} })},
	}
}

func dynamoMutations() []dbMutation {
	kr := func(f func(m map[string]fakes.AV)) func(map[string]fakes.AV) map[string]fakes.AV {
		return func(it map[string]fakes.AV) map[string]fakes.AV {
			if it["KeyRecord"].M != nil {
				f(it["KeyRecord"].M)
			}
			return it
		}
	}
	top := func(f func(it map[string]fakes.AV)) func(map[string]fakes.AV) map[string]fakes.AV {
		return func(it map[string]fakes.AV) map[string]fakes.AV { f(it); return it }
	}
	return []dbMutation{
		{name: "KeyRecord missing", item: top(func(it map[string]fakes.AV) { delete(it, "KeyRecord") })},
		{name: "KeyRecord NULL", item: top(func(it map[string]fakes.AV) { it["KeyRecord"] = fakes.AV{NULL: true} })},
		{name: "KeyRecord S", item: top(func(it map[string]fakes.AV) { it["KeyRecord"] = fakes.Str("{}") })},
		{name: "KeyRecord L", item: top(func(it map[string]fakes.AV) { it["KeyRecord"] = fakes.AV{L: []fakes.AV{fakes.Num(1)}} })},
		{name: "KeyRecord empty M", item: top(func(it map[string]fakes.AV) { it["KeyRecord"] = fakes.AV{M: map[string]fakes.AV{}} })},
		{name: "Key missing", item: kr(func(m map[string]fakes.AV) { delete(m, "Key") })},
		{name: "Key N", item: kr(func(m map[string]fakes.AV) { m["Key"] = fakes.Num(5) })},
		{name: "Key NULL", item: kr(func(m map[string]fakes.AV) { m["Key"] = fakes.AV{NULL: true} })},
		{name: "Key B", item: kr(func(m map[string]fakes.AV) { m["Key"] = fakes.AV{B: []byte("binary")} })},
		{name: "Key not base64", item: kr(func(m map[string]fakes.AV) { m["Key"] = fakes.Str("!!!!") })},
		{name: "Key empty", item: kr(func(m map[string]fakes.AV) { m["Key"] = fakes.Str("") })},
		{name: "Key short", item: kr(func(m map[string]fakes.AV) { m["Key"] = fakes.Str("QUJD") })},
		{name: "Created S", item: kr(func(m map[string]fakes.AV) { m["Created"] = fakes.Str("yesterday") })},
		{name: "Created missing", item: kr(func(m map[string]fakes.AV) { delete(m, "Created") })},
		{name: "Created NULL", item: kr(func(m map[string]fakes.AV) { m["Created"] = fakes.AV{NULL: true} })},
		{name: "ParentKeyMeta S", item: kr(func(m map[string]fakes.AV) { m["ParentKeyMeta"] = fakes.Str("x") })},
		{name: "ParentKeyMeta NULL", item: kr(func(m map[string]fakes.AV) { m["ParentKeyMeta"] = fakes.AV{NULL: true} })},
		{name: "ParentKeyMeta empty M", item: kr(func(m map[string]fakes.AV) { m["ParentKeyMeta"] = fakes.AV{M: map[string]fakes.AV{}} })},
		{name: "ParentKeyMeta KeyId N", item: kr(func(m map[string]fakes.AV) {
			m["ParentKeyMeta"] = fakes.AV{M: map[string]fakes.AV{"KeyId": fakes.Num(5), "Created": fakes.Num(1)}}
		})},
		{name: "ParentKeyMeta Created S", item: kr(func(m map[string]fakes.AV) {
			m["ParentKeyMeta"] = fakes.AV{M: map[string]fakes.AV{"KeyId": fakes.Str("_SK_svc_prod"), "Created": fakes.Str("x")}}
		})},
		{name: "ParentKeyMeta names nothing", item: kr(func(m map[string]fakes.AV) {
			m["ParentKeyMeta"] = fakes.AV{M: map[string]fakes.AV{"KeyId": fakes.Str("_SK_nobody"), "Created": fakes.Num(1)}}
		})},
		{name: "Revoked S", item: kr(func(m map[string]fakes.AV) { m["Revoked"] = fakes.Str("yes") })},
		{name: "Revoked true", item: kr(func(m map[string]fakes.AV) { m["Revoked"] = fakes.Bool(true) })},
		{name: "unknown attribute", item: kr(func(m map[string]fakes.AV) { m["Extra"] = fakes.AV{L: []fakes.AV{fakes.Num(1)}} })},
	}
}

func TestCorruptedDatabaseRows(t *testing.T) {
	verifhook.InstallClock(time.Unix(1_700_000_000, 0))
	defer verifhook.RemoveClock()
	var total, nontrivial int64
	for _, name := range backing.Names {
		if name == "memory" {
			continue // MemoryMetastore holds Go values, covered by TestCorruptedStoreRows
		}
		b := backing.New(name)
		log := &kit.CallLog{}
		st := kit.NewStore(log)
		st.Backing = b
		kms := kit.NewSpyKMS(log)
		mk := func(cache bool) *appencryption.SessionFactory {
			pol := appencryption.NewCryptoPolicy()
			pol.CreateDatePrecision = time.Second
			if !cache {
				pol.CacheSystemKeys, pol.CacheIntermediateKeys = false, false
			}
			return appencryption.NewSessionFactory(&appencryption.Config{Service: "svc", Product: "prod", Policy: pol}, st, kms, aead.NewAES256GCM(), appencryption.WithSecretFactory(kit.NewTracker()))
		}
		w := mk(true)
		s, err := w.GetSession("p1")
		if err != nil {
			t.Fatalf("GetSession: %v", err)
		}
		payload := []byte("payload behind " + name)
		rec, err := s.Encrypt(ctx, payload)
		if err != nil {
			t.Fatalf("[%s] encrypt: %v", name, err)
		}
		s.Close()
		w.Close()
		drr := cloneDRR(*rec)
		ikID, ikCreated := drr.Key.ParentKeyMeta.ID, drr.Key.ParentKeyMeta.Created
		rows := st.Rows()
		var skID string
		var skCreated int64
		for _, r := range rows {
			if strings.HasPrefix(r.ID, "_SK_") {
				skID, skCreated = r.ID, r.Created
			}
		}
		muts := sqlMutations()
		if b.Dynamo != nil {
			muts = dynamoMutations()
		}
		for _, target := range []struct {
			what    string
			id      string
			created int64
		}{{"IK row", ikID, ikCreated}, {"SK row", skID, skCreated}} {
			for _, m := range muts {
				var restore func()
				if b.SQL != nil {
					orig, ok := b.SQL.RawRow(target.id, target.created)
					if !ok {
						t.Fatalf("[%s] no raw row (%s,%d)", name, target.id, target.created)
					}
					b.SQL.Update(target.id, target.created, m.sql(orig))
					restore = func() { b.SQL.Update(target.id, target.created, orig) }
				} else {
					orig := b.Dynamo.Raw(target.id, target.created)
					if orig == nil {
						t.Fatalf("[%s] no raw item (%s,%d)", name, target.id, target.created)
					}
					b.Dynamo.Replace(target.id, target.created, m.item(b.Dynamo.Raw(target.id, target.created)))
					restore = func() { b.Dynamo.Replace(target.id, target.created, orig) }
				}
				for _, cache := range []bool{false, true} {
					f := mk(cache)
					se, err := f.GetSession("p1")
					if err != nil {
						t.Fatalf("GetSession: %v", err)
					}
					out, derr, p := safeDecrypt(se, cloneDRR(drr))
					var encPanic any
					func() {
						defer func() { encPanic = recover() }()
						// the damaged row is also what the next write of the partition finds
						_, _ = se.Encrypt(ctx, []byte("next write"))
					}()
					func() { defer func() { _ = recover() }(); se.Close() }()
					func() { defer func() { _ = recover() }(); f.Close() }()
					total++
					nontrivial++
					what := fmt.Sprintf("[%s] %s damaged in the database (%s), key caching %v", name, target.what, m.name, cache)
					var msg string
					switch {
					case p != nil:
						msg = fmt.Sprintf("%s: decrypt PANIC: %v", what, p)
					case encPanic != nil:
						msg = fmt.Sprintf("%s: the next encrypt PANIC: %v", what, encPanic)
					case derr == nil && string(out) != string(payload):
						msg = fmt.Sprintf("%s: decrypt returned %q without error, the payload is %q", what, trunc(out), payload)
					}
					if msg != "" {
						kit.Rec.Violation(msg)
						t.Fatalf("C07 violated: %s", msg)
					}
				}
				restore()
			}
		}
		if u := b.Unsupported(); len(u) > 0 {
			fmt.Printf("VERIF-INCONCLUSIVE fake cannot interpret: %v\n", u)
			t.Fatalf("inconclusive: the fake cannot interpret %v", u)
		}
		// the restored rows decrypt again (the harness did not break anything for good)
		f := mk(false)
		se, _ := f.GetSession("p1")
		if out, err := se.Decrypt(ctx, cloneDRR(drr)); err != nil || string(out) != string(payload) {
			t.Fatalf("[%s] harness: restored rows do not decrypt: %v", name, err)
		}
		se.Close()
		f.Close()
		b.Done()
		kit.Rec.LabelN("database-row-damage:"+name, int64(len(muts)*4))
	}
	kit.Rec.Enumerated(total, nontrivial)
	kit.Rec.Sample(map[string]any{"kind": "key row damaged in the database", "example": "sql-postgres: key_record of the IK row replaced by the JSON literal null; DynamoDB: KeyRecord.Key as N"})
}

// TestLongRunsEveryCachePolicy: decrypt stays "payload or error" over runs long enough for the
// key caches' eviction policies to go through their periodic maintenance (frequency-sketch
// resets, promotions, demotions), for every policy and capacities around the TinyLFU threshold.
func TestLongRunsEveryCachePolicy(t *testing.T) {
	fx := newFixture()
	defer verifhook.RemoveClock()
	var total, nontrivial int64
	n := kit.Pick(1300, 9000)
	for _, policy := range []string{"simple", "lru", "lfu", "slru", "tinylfu"} {
		for _, capacity := range []int{1, 99, 100, 128} {
			for _, shared := range []bool{false, true} {
				pol := appencryption.NewCryptoPolicy()
				pol.CreateDatePrecision, pol.RevokeCheckInterval = time.Second, time.Hour
				pol.IntermediateKeyCacheEvictionPolicy, pol.IntermediateKeyCacheMaxSize = policy, capacity
				pol.SystemKeyCacheEvictionPolicy, pol.SystemKeyCacheMaxSize = policy, capacity
				pol.SharedIntermediateKeyCache = shared
				f := appencryption.NewSessionFactory(&appencryption.Config{Service: fx.service, Product: fx.product, Policy: pol}, fx.store, fx.kms, aead.NewAES256GCM(), appencryption.WithSecretFactory(kit.NewTracker()))
				sess := map[string]*appencryption.Session{}
				for _, part := range []string{"p1", "p2"} {
					s, err := f.GetSession(part)
					if err != nil {
						t.Fatalf("GetSession: %v", err)
					}
					sess[part] = s
				}
				x := uint32(12345)
				for i := 0; i < n; i++ {
					x = x*1664525 + 1013904223
					g := fx.pool[int(x>>8)%len(fx.pool)]
					in := cloneDRR(g.drr)
					mutant := i%2 == 1
					if mutant {
						switch (x >> 4) % 3 {
						case 0:
							in.Data[int(x>>12)%len(in.Data)] ^= 1 << (x % 8)
						case 1:
							in.Key.EncryptedKey[int(x>>12)%len(in.Key.EncryptedKey)] ^= 1 << (x % 8)
						default:
							in.Key.ParentKeyMeta.Created -= int64(x>>16)%3 + 1
						}
					}
					out, err, p := safeDecrypt(sess[g.part], cloneDRR(in))
					total++
					if mutant {
						nontrivial++
					}
					what := fmt.Sprintf("decrypt #%d on one session with key caches %s/%d shared=%v", i, policy, capacity, shared)
					msg := fx.judge(what, in, out, err, p)
					if msg == "" && !mutant && err != nil {
						msg = fmt.Sprintf("%s: a genuine record failed: %v", what, err)
					}
					if msg != "" {
						kit.Rec.Violation(msg)
						t.Fatalf("C07 violated: %s\n  input: %s", msg, describe(in))
					}
				}
				for _, s := range sess {
					s.Close()
				}
				f.Close()
			}
		}
	}
	kit.Rec.Enumerated(total, nontrivial)
	kit.Rec.LabelN("long-run-decrypts", total)
}

// TestZeroCreatedKeyRows: key rows stored under creation time 0 (a legacy import, a buggy writer)
// and records whose parent meta says Created 0 - the value the SDK itself uses internally to mean
// "the latest key". Repeated decrypts return the payload or an error.
func TestZeroCreatedKeyRows(t *testing.T) {
	fx := newFixture()
	defer verifhook.RemoveClock()
	var total int64
	for _, backend := range []string{"", "memory"} {
		for _, level := range []string{"IK", "SK", "both"} {
			for _, cache := range []bool{true, false} {
				st := kit.NewStore(&kit.CallLog{})
				if backend != "" {
					st.Backing = backing.New(backend)
				}
				g := fx.pool[2]
				in := cloneDRR(g.drr)
				for _, r := range fx.store.CopyRows() {
					st.Insert("copy", r.ID, r.Created, r)
				}
				ik := fx.store.Get(g.drr.Key.ParentKeyMeta.ID, g.drr.Key.ParentKeyMeta.Created)
				sk := fx.store.Get(ik.Rec.ParentKeyMeta.ID, ik.Rec.ParentKeyMeta.Created)
				ik0 := &appencryption.EnvelopeKeyRecord{ID: ik.ID, Created: 0, EncryptedKey: append([]byte(nil), ik.Rec.EncryptedKey...), ParentKeyMeta: &appencryption.KeyMeta{ID: sk.ID, Created: sk.Created}}
				if level != "IK" {
					st.Insert("legacy", sk.ID, 0, &appencryption.EnvelopeKeyRecord{ID: sk.ID, Created: 0, EncryptedKey: append([]byte(nil), sk.Rec.EncryptedKey...)})
					ik0.ParentKeyMeta.Created = 0
				}
				if level != "SK" {
					st.Insert("legacy", ik.ID, 0, ik0)
					in.Key.ParentKeyMeta.Created = 0
				} else {
					// an IK row at its real stamp whose parent meta says Created 0
					st2 := kit.NewStore(&kit.CallLog{})
					st2.Backing = st.Backing
					_ = st2
					ikp := *ik.Rec
					ikp.ParentKeyMeta = &appencryption.KeyMeta{ID: sk.ID, Created: 0}
					ikp.Created = ik.Created + 1
					st.Insert("legacy", ik.ID, ik.Created+1, &ikp)
					in.Key.ParentKeyMeta.Created = ik.Created + 1
				}
				f := newFactory(fx, st, cache)
				s, err := f.GetSession(g.part)
				if err != nil {
					t.Fatalf("GetSession: %v", err)
				}
				for i := 0; i < 4; i++ {
					out, derr, p := safeDecrypt(s, cloneDRR(in))
					total++
					what := fmt.Sprintf("decrypt #%d of a record whose key chain goes through rows stored under Created 0 (%s level, metastore %q, key caching %v)", i, level, backend, cache)
					var msg string
					switch {
					case p != nil:
						msg = fmt.Sprintf("%s: PANIC: %v", what, p)
					case derr == nil && string(out) != string(g.payload):
						msg = fmt.Sprintf("%s: returned %q, the payload is %q", what, trunc(out), trunc(g.payload))
					}
					if msg != "" {
						kit.Rec.Violation(msg)
						t.Fatalf("C07 violated: %s", msg)
					}
					// the partition's next write must not crash either
					func() {
						defer func() {
							if p := recover(); p != nil {
								kit.Rec.Violation(fmt.Sprint(p))
								t.Fatalf("C07 violated: %s: the next encrypt PANIC: %v", what, p)
							}
						}()
						_, _ = s.Encrypt(ctx, []byte("next"))
					}()
				}
				func() { defer func() { _ = recover() }(); s.Close() }()
				func() { defer func() { _ = recover() }(); f.Close() }()
			}
		}
	}
	kit.Rec.Enumerated(total, total)
	kit.Rec.LabelN("zero-created-rows", total)
}
