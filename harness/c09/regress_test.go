package c09

import (
	"testing"
	"time"

	"github.com/godaddy/asherah/go/appencryption"
	"pgregory.net/rapid"
	"verif/kit"
	"verif/world"
)

// TestRegressOverwriteLeak: the fixed defect "cache-entry-overwrite-leak" as a plain scenario:
// encrypt; revoke the latest IK while no later creation stamp exists; further encrypts.
func TestRegressOverwriteLeak(t *testing.T) {
	for _, ikPolicy := range []string{"", "lru"} {
		kit.Scripted(t, func(rt *rapid.T) {
			pol := func(*rapid.T) *appencryption.CryptoPolicy {
				p := appencryption.NewCryptoPolicy()
				p.ExpireKeyAfter, p.RevokeCheckInterval, p.CreateDatePrecision = 24*time.Hour, time.Second, time.Hour
				p.IntermediateKeyCacheEvictionPolicy, p.IntermediateKeyCacheMaxSize = ikPolicy, 10
				return p
			}
			w := world.New(rt, world.Options{MaxProcs: 1, SimpleIDs: true, Partitions: 1, FixedPolicy: pol, SmallPayloads: true})
			s := w.Open(w.Procs[0], w.Parts[0])
			_, rec0 := w.Encrypt(s, []byte("x"), false, true)
			w.RevokeRow(rec0.IKID, rec0.IKCreated, false)
			w.Advance(2 * time.Second)
			for i := 0; i < 6; i++ {
				if ev, r := w.Encrypt(s, []byte("y"), false, false); r == nil {
					rt.Fatalf("encrypt failed: %v", ev.Err)
				}
			}
			if n := w.Secrets.LiveCount(); n > 2 {
				kit.Rec.Violation("regression: cache entry overwrite leaks secrets")
				rt.Fatalf("C09 violated: %d secrets are live for one session with one SK and one IK (each encrypt under the revoked key leaked a copy)\n%s", n, w.Describe())
			}
			w.Teardown()
			if l := w.Secrets.Live(); len(l) > 0 {
				kit.Rec.Violation("regression: secrets survive Close")
				rt.Fatalf("C09 violated: %d secret(s) survive Session.Close and Factory.Close; first: %s", len(l), l[0])
			}
			kit.Rec.Case("regress-overwrite-leak|"+ikPolicy, true, nil)
		})
	}
}
