// Package c09: protected key memory is released - per call for DRKs, on Close for cached keys.
package c09

import (
	"fmt"
	"sort"
	"strings"
	"testing"
	"time"

	"pgregory.net/rapid"
	"verif/kit"
	"verif/world"
)

func TestMain(m *testing.M) {
	kit.Main(m, "C09", "exploration",
		"(1) rapid state machine over the real SDK with a tracking SecretFactory that accounts for every secret: histories with rotations, revocations (with and without an available later stamp), duplicate-key fallbacks, evictions, restarts, every cache layout. "+
			"Oracle after every operation: the DRK of an encrypt (matched through the spy AEAD's key fingerprint) is closed; without key caching every secret created by the call is closed; "+
			"live secrets grouped by (process, key fingerprint) never exceed the number of caches entitled to hold that key, nor a bounded cache's capacity; after closing all sessions and factories (polling for asynchronous teardown) zero secrets are live, each was closed exactly once, none was read after close. "+
			"(2) the same accounting under every single injected metastore/KMS/AEAD/allocator fault position of cold/warm/rotating encrypt+decrypt scenarios (positions enumerated). "+
			"One evaluation = one history or one fault run. Non-trivial = contains a rotation, revocation, duplicate-key fallback, eviction, restart or fired fault before the final accounting; distinct = distinct (event-kind set, cache classes) or (scenario, fault position, fault kind)",
		"virtual clock injected by build overlay", "the tracking factory mirrors the securememory contract (copy-and-wipe on New, error after Close, Close waits for readers)")
}

var weights = map[string]int{"encrypt": 9, "decrypt": 5, "open": 2, "close": 3, "restart": 1, "advance": 4, "revoke": 3, "rotate": 2, "pressure": 2}

func TestWorld(t *testing.T) {
	kit.Steps(kit.Pick(40, 60))
	kit.Check(t, 1500, 48000, func(t *rapid.T) { runHistory(t, false) })
}

// TestWorldRealFactory cross-checks with the real memguard factory and securememory.InUseCounter.
func TestWorldRealFactory(t *testing.T) {
	kit.Steps(30)
	kit.Check(t, 60, 1600, func(t *rapid.T) { runHistory(t, true) })
}

type mon struct {
	w        *world.World
	t        *rapid.T
	opProc   map[string]string          // op tag -> "proc.gen"
	handed   map[string]map[string]bool // proc.gen|partition -> set of underlying session pointers handed out
	mismatch map[string]bool            // SK fingerprints involved in the known parent-mismatch leak
	kinds    map[string]bool
	async    bool
}

func runHistory(t *rapid.T, real bool) {
	w := world.New(t, world.Options{RealSecrets: real, SmallPayloads: true, NoRetainAEAD: true})
	m := &mon{w: w, t: t, opProc: map[string]string{}, handed: map[string]map[string]bool{}, mismatch: map[string]bool{}, kinds: map[string]bool{}}
	torn := false
	defer func() {
		if !torn {
			w.Teardown()
		}
	}()
	var base int64
	if real {
		base = inUse()
	}
	for _, p := range w.Procs {
		m.noteAsync(p)
	}
	w.OnOp = m.after
	t.Repeat(kit.Weighted(w.Actions(), weights, nil))
	// final accounting
	w.OnOp = nil
	w.Teardown()
	torn = true
	m.final()
	if real {
		if want := base + int64(w.Secrets.LiveCount()); !m.poll(func() bool { return inUse() == want }) {
			fail(t, w, "securememory.InUseCounter is %d after everything was closed, expected %d (%d before the history + %d secrets the tracker still sees live)", inUse(), want, base, w.Secrets.LiveCount())
		}
	}
	var ks []string
	for k := range m.kinds {
		ks = append(ks, k)
	}
	sort.Strings(ks)
	classes := map[string]bool{}
	for _, p := range w.Procs {
		classes[world.CacheClass(p.Policy)] = true
	}
	var cs []string
	for c := range classes {
		cs = append(cs, c)
	}
	sort.Strings(cs)
	kit.Rec.Case(strings.Join(ks, ",")+"|"+strings.Join(cs, "+"), len(ks) > 0, func() any {
		var procs []string
		for _, p := range w.Procs {
			procs = append(procs, p.Name+": "+world.PolicyString(p.Policy))
		}
		return map[string]any{"procs": procs, "history": w.History(), "events": ks, "secrets_created": w.Secrets.Count()}
	})
	for _, k := range ks {
		kit.Rec.Label("history-with:" + k)
	}
}

func fail(t *rapid.T, w *world.World, format string, args ...any) {
	msg := fmt.Sprintf(format, args...)
	kit.Rec.Violation(msg)
	t.Fatalf("C09 violated: %s\n%s", msg, w.Describe())
}

// poll waits (bounded) for asynchronous teardown: session-cache evictions release
// their sessions in goroutines and key caches of capacity >= 100 deliver eviction
// callbacks asynchronously. Worlds without such machinery are checked at once.
func (m *mon) poll(ok func() bool) bool {
	if ok() {
		return true
	}
	if !m.async {
		return false
	}
	for i := 0; i < 150; i++ {
		time.Sleep(time.Duration(1+i/30) * time.Millisecond)
		if ok() {
			return true
		}
	}
	return false
}

func (m *mon) noteAsync(p *world.Proc) {
	pol := p.Policy
	bounded := func(s string) bool { return s != "" && s != "simple" }
	if pol.CacheSessions || (bounded(pol.IntermediateKeyCacheEvictionPolicy) && pol.IntermediateKeyCacheMaxSize >= 100) ||
		(bounded(pol.SystemKeyCacheEvictionPolicy) && pol.SystemKeyCacheMaxSize >= 100) {
		m.async = true
	}
}

func procKey(p *world.Proc) string { return fmt.Sprintf("%s.%d", p.Name, p.Gen) }

func (m *mon) after(ev *world.Event) {
	w, t := m.w, m.t
	tag := fmt.Sprintf("op%d:%s", ev.Seq, ev.Kind)
	if ev.Proc != nil {
		m.opProc[tag] = procKey(ev.Proc)
	}
	switch ev.Kind {
	case "restart", "revoke", "rotate", "pressure":
		m.kinds[ev.Kind] = true
	case "open":
		k := procKey(ev.Proc) + "|" + ev.Partition
		if m.handed[k] == nil {
			m.handed[k] = map[string]bool{}
		}
		m.handed[k][fmt.Sprintf("%p", ev.Sess.S)] = true
	}
	if ev.Kind != "encrypt" && ev.Kind != "decrypt" && ev.Kind != "close" && ev.Kind != "restart" {
		return
	}
	if (ev.Kind == "encrypt" || ev.Kind == "decrypt") && ev.Err != nil {
		fail(t, w, "%s failed in a fault-free history: %v", ev.Kind, ev.Err)
	}
	calls := w.Log.Calls[ev.CallFrom:ev.CallTo]
	for _, c := range calls {
		if c.Target == "store" && c.Op == "Store" && !c.OK {
			m.kinds["duplicate-key-fallback"] = true
		}
	}
	created := w.Secrets.InfosRange(ev.SecretFrom, ev.SecretTo)
	// known finding: remember the SK involved so that the final accounting can attribute it
	for _, si := range created {
		if si.Closed == 0 && w.IsParentMismatchSKLeak(ev, si) {
			m.mismatch[si.Fp] = true
		}
	}
	if ev.Proc != nil && (ev.Kind == "encrypt") {
		m.noteMismatchSK(ev)
	}
	if ev.Kind == "encrypt" {
		// (a) the DRK is released before Encrypt returns
		var drkFp string
		for _, c := range w.AEAD.Since(ev.AEADFrom) {
			if c.Op == "Encrypt" && c.PlainFp == kit.Fp(ev.Rec.Payload) && c.PlainLen == len(ev.Rec.Payload) && c.KeyLen == 32 {
				drkFp = c.KeyFp
			}
		}
		if drkFp == "" {
			fail(t, w, "harness: could not identify the payload encryption of rec%d", ev.Rec.ID)
		}
		found := false
		for _, si := range created {
			if si.Fp == drkFp {
				found = true
				if si.Closed == 0 {
					fail(t, w, "the data key of rec%d (%s) is still live after Encrypt returned", ev.Rec.ID, si)
				}
			}
		}
		if !found {
			fail(t, w, "the data key of rec%d was not allocated through the secret factory during the call", ev.Rec.ID)
		}
		kit.Rec.Label("drk-released")
	}
	// (b) without key caching nothing survives the call
	if ev.Proc != nil && (ev.Kind == "encrypt" || ev.Kind == "decrypt") {
		pol := ev.Proc.Policy
		if !pol.CacheSystemKeys && !pol.CacheIntermediateKeys {
			for _, si := range created {
				if si.Closed == 0 {
					if w.IsParentMismatchSKLeak(ev, si) && kit.KnownOpen("C09", "sk-ref-leak-on-parent-mismatch") {
						kit.Rec.Known("sk-ref-leak-on-parent-mismatch", "duplicate-IK fallback onto an IK wrapped by another SK: the SK looked up to unwrap it is never released")
						continue
					}
					fail(t, w, "%s with key caching disabled left %s live after the call returned", ev.Kind, si)
				}
			}
		}
	}
	// (c) quiescent accounting: live secrets per (process, key) never exceed the caches entitled to hold the key
	var why string
	if ev.Kind == "restart" {
		m.noteAsync(ev.Proc)
	}
	if !m.poll(func() bool { why = m.excess(); return why == "" }) {
		fail(t, w, "%s", why)
	}
	// none touched after release
	if ra := w.Secrets.ReadsAfterClose(); len(ra) > 0 {
		fail(t, w, "secret accessed after it was closed: %s", ra[0])
	}
}

// noteMismatchSK records SK fingerprints for which the parent-mismatch path ran in
// this operation (with caching on the leak is a reference that is never dropped,
// visible only at the final accounting).
func (m *mon) noteMismatchSK(ev *world.Event) {
	for _, fp := range m.w.MismatchParents(ev) {
		m.mismatch[fp] = true
	}
}

// excess returns a description of a (process, key) whose live copies exceed its entitlement, or "".
func (m *mon) excess() string {
	w := m.w
	type gk struct{ proc, fp string }
	live := map[gk][]kit.SecretInfo{}
	perProcIK := map[string]int{}
	for _, si := range w.Secrets.Live() {
		pk, ok := m.opProc[si.Tag]
		if !ok {
			continue
		}
		live[gk{pk, si.Fp}] = append(live[gk{pk, si.Fp}], si)
		if !w.KMS.SeenSK[si.Fp] {
			perProcIK[pk]++
		}
	}
	for _, p := range w.Procs {
		pk := procKey(p)
		pol := p.Policy
		for k, sis := range live {
			if k.proc != pk {
				continue
			}
			isSK := w.KMS.SeenSK[k.fp]
			ent := 0
			switch {
			case isSK && pol.CacheSystemKeys:
				ent = 1
			case isSK:
				ent = 0
			case !pol.CacheIntermediateKeys:
				ent = 0
			case pol.SharedIntermediateKeyCache:
				ent = 1
			default:
				// one per session-owned cache of this process (the key's partition is unknown to the tracker)
				for key, set := range m.handed {
					if strings.HasPrefix(key, pk+"|") {
						if pol.CacheSessions {
							ent += len(set)
						}
					}
				}
				if !pol.CacheSessions {
					ent = len(p.Sessions)
				}
			}
			if isSK && m.mismatch[k.fp] && kit.KnownOpen("C09", "sk-ref-leak-on-parent-mismatch") {
				continue
			}
			if len(sis) > ent {
				return fmt.Sprintf("process %s holds %d live copies of key %s but only %d cache(s) are entitled to hold it (policy %s); first: %s", pk, len(sis), k.fp, ent, world.PolicyString(pol), sis[0])
			}
		}
		// capacity of a bounded shared IK cache
		if pol.CacheIntermediateKeys && pol.SharedIntermediateKeyCache && pol.IntermediateKeyCacheEvictionPolicy != "" && pol.IntermediateKeyCacheEvictionPolicy != "simple" {
			if perProcIK[pk] > pol.IntermediateKeyCacheMaxSize {
				return fmt.Sprintf("process %s holds %d live intermediate keys, more than its shared cache capacity %d", pk, perProcIK[pk], pol.IntermediateKeyCacheMaxSize)
			}
			if perProcIK[pk] == pol.IntermediateKeyCacheMaxSize {
				m.kinds["cache-full"] = true
			}
		}
	}
	// secrets of processes that no longer exist (restarted): must be gone
	alive := map[string]bool{}
	for _, p := range w.Procs {
		alive[procKey(p)] = true
	}
	for k, sis := range live {
		if !alive[k.proc] {
			if w.KMS.SeenSK[k.fp] && m.mismatch[k.fp] && kit.KnownOpen("C09", "sk-ref-leak-on-parent-mismatch") {
				kit.Rec.Known("sk-ref-leak-on-parent-mismatch", "duplicate-IK fallback onto an IK wrapped by another SK: the reference on the SK looked up to unwrap it is never dropped, so the key survives Factory.Close")
				continue
			}
			return fmt.Sprintf("process %s was closed but %s is still live", k.proc, sis[0])
		}
	}
	return ""
}

func (m *mon) final() {
	w, t := m.w, m.t
	var leaked []kit.SecretInfo
	ok := m.poll(func() bool {
		leaked = leaked[:0]
		for _, si := range w.Secrets.Live() {
			if w.KMS.SeenSK[si.Fp] && m.mismatch[si.Fp] && kit.KnownOpen("C09", "sk-ref-leak-on-parent-mismatch") {
				continue
			}
			leaked = append(leaked, si)
		}
		return len(leaked) == 0
	})
	if !ok {
		fail(t, w, "%d secret(s) still live after every session and factory was closed; first: %s", len(leaked), leaked[0])
	}
	for _, si := range w.Secrets.Live() {
		if m.mismatch[si.Fp] {
			kit.Rec.Known("sk-ref-leak-on-parent-mismatch", "duplicate-IK fallback onto an IK wrapped by another SK: the reference on the SK looked up to unwrap it is never dropped, so the key survives Factory.Close")
		}
	}
	for _, si := range w.Secrets.Infos() {
		if si.CloseCalls > 1 {
			fail(t, w, "secret released more than once: %s (Close called %d times)", si, si.CloseCalls)
		}
		if si.ReadsAfterClose > 0 {
			fail(t, w, "secret accessed after it was closed: %s", si)
		}
	}
}
