package c09

import (
	"testing"
	"time"

	"github.com/godaddy/asherah/go/appencryption"
	"pgregory.net/rapid"
	"verif/kit"
	"verif/world"
)

// ParentMismatchScenario drives the history of the listed finding
// sk-ref-leak-on-parent-mismatch and returns the leaking encrypt event.
func parentMismatchScenario(rt *rapid.T, cache bool) (*world.World, *world.Event) {
	pol := func(*rapid.T) *appencryption.CryptoPolicy {
		p := appencryption.NewCryptoPolicy()
		p.ExpireKeyAfter, p.RevokeCheckInterval, p.CreateDatePrecision = time.Hour, 10*time.Second, time.Minute
		p.CacheSystemKeys, p.CacheIntermediateKeys = cache, cache
		return p
	}
	w := world.New(rt, world.Options{MaxProcs: 1, SimpleIDs: true, Partitions: 1, FixedPolicy: pol, SmallPayloads: true, HomogeneousTime: true})
	part := w.Parts[0]
	w.ExternalRotate(part, true) // SK@t0, IK@t0 written by another process
	w.Advance(time.Minute)
	w.ExternalRotate(part, false) // IK@t1 under SK@t0
	w.RevokeRow(w.SKID(), w.Store.Latest(w.SKID()).Created, true)
	s := w.Open(w.Procs[0], part)
	ev, _ := w.Encrypt(s, []byte("x"), false, true)
	return w, ev
}

// TestKnownParentMismatchLeak replays the listed open finding deterministically (never fails).
func TestKnownParentMismatchLeak(t *testing.T) {
	if !kit.KnownOpen("C09", "sk-ref-leak-on-parent-mismatch") {
		t.Skip("not listed as open")
	}
	kit.Scripted(t, func(rt *rapid.T) {
		w, ev := parentMismatchScenario(rt, true)
		if ev.Err != nil {
			w.Teardown()
			rt.Fatalf("encrypt failed: %v", ev.Err)
		}
		w.Teardown()
		for _, si := range w.Secrets.Live() {
			if w.KMS.SeenSK[si.Fp] {
				kit.Rec.Known("sk-ref-leak-on-parent-mismatch", "another process wrote the IK for the current stamp under SK1, SK1 is revoked, this process creates SK2, collides on the IK stamp and falls back to the stored IK; the reference it takes on SK1 to unwrap it is never dropped, so SK1's secret is still live after Session.Close and Factory.Close")
			}
		}
	})
}
