package c09

import (
	"fmt"
	"strings"
	"testing"
	"time"

	"github.com/godaddy/asherah/go/appencryption"
	"pgregory.net/rapid"
	"verif/conc"
	"verif/kit"
)

// TestConcurrentAccounting: the release clauses also hold "after evictions" while other
// calls are in flight. Concurrent workloads over tiny bounded caches run under delay plans
// (every reachable yield site of key_cache.go and pkg/cache as a single preemption for
// tight configurations, plus rapid-drawn plans); afterwards the factory is closed and
// every secret must have been released exactly once and never touched afterwards.
func TestConcurrentAccounting(t *testing.T) {
	shard, shards := kit.Shard()
	check := func(fail func(string), c conc.Config, plan []kit.PlanEntry, o conc.Outcome) {
		desc := fmt.Sprintf("\n  config: %s workers=%d x %d ops\n  delay plan: %v", c.Class(), c.Workers, c.OpsPer, plan)
		switch {
		case strings.Contains(o.Viol, "accessed after it had been destroyed") || strings.Contains(o.Viol, "already been destroyed"):
			fail("a key secret was released while a call was still using it: " + o.Viol + desc)
		case o.Viol != "":
			fail(o.Viol + desc)
		case len(o.DoubleClosed) > 0:
			fail(fmt.Sprintf("secret released more than once: %s", o.DoubleClosed[0]) + desc)
		case len(o.Leaked) > 0:
			fail(fmt.Sprintf("%d secret(s) still live after the factory was closed; first: %s", len(o.Leaked), o.Leaked[0]) + desc)
		}
	}
	var total, nt int64
	unit := 0
	for _, pol := range []string{"lru", "lfu", "slru", "tinylfu"} {
		for _, shared := range []bool{true, false} {
			p := appencryption.NewCryptoPolicy()
			p.ExpireKeyAfter, p.RevokeCheckInterval, p.CreateDatePrecision = time.Hour, time.Second, time.Second
			p.IntermediateKeyCacheEvictionPolicy, p.IntermediateKeyCacheMaxSize = pol, 1
			p.SystemKeyCacheEvictionPolicy, p.SystemKeyCacheMaxSize = pol, 1
			p.SharedIntermediateKeyCache = shared
			if !shared {
				p.CacheSessions, p.SessionCacheMaxSize = true, 2
			}
			c := conc.Config{Pol: p, Partitions: 3, Workers: 3, OpsPer: 8, SeedOps: []int{7, 91, 1234}}
			prof := conc.RunCase(c, nil)
			check(func(m string) { kit.Rec.Violation(m); t.Fatalf("C09 violated: %s", m) }, c, nil, prof)
			for _, site := range prof.Sites {
				if !strings.Contains(site, "key_cache.go") && !strings.Contains(site, "pkg/cache/") && !strings.Contains(site, "internal/key.go") {
					continue
				}
				for h := 0; h < kit.Pick(2, 5) && h < prof.Hits[site]; h++ {
					unit++
					if unit%shards != shard {
						continue
					}
					plan := []kit.PlanEntry{{Site: site, Hit: h, Pause: 2 * time.Millisecond}}
					o := conc.RunCase(c, plan)
					total++
					if o.Fired > 0 && o.Destroyed > 0 {
						nt++
					}
					check(func(m string) { kit.Rec.Violation(m); t.Fatalf("C09 violated: %s", m) }, c, plan, o)
				}
			}
		}
	}
	kit.Rec.Enumerated(total, nt)
	kit.Check(t, 60, 4800, func(rt *rapid.T) {
		c := conc.DrawConfig(rt)
		prof := conc.RunCase(c, nil)
		check(func(m string) { kit.Rec.Violation(m); rt.Fatalf("C09 violated: %s", m) }, c, nil, prof)
		plan := kit.DrawPlan(rt, prof.Sites, prof.Hits, 3, []time.Duration{100 * time.Microsecond, time.Millisecond, 3 * time.Millisecond})
		o := conc.RunCase(c, plan)
		check(func(m string) { kit.Rec.Violation(m); rt.Fatalf("C09 violated: %s", m) }, c, plan, o)
		kit.Rec.Case("conc|"+c.Class()+fmt.Sprint(plan), o.Fired > 0 && o.Destroyed > 0, nil)
	})
}
