package c09

import (
	"fmt"
	"testing"

	"pgregory.net/rapid"
	"verif/kit"
	"verif/world"
)

// TestFaultAccounting re-uses the C02 scenarios with secret accounting on: every
// single metastore/KMS fault position, every AEAD call, every secret allocation and every open / re-protect of a key secret of
// the operation (an encrypt, or a decrypt of a record written during setup) is failed in turn; afterwards an encrypt, a decrypt and an encrypt on another partition must succeed.
func TestFaultAccounting(t *testing.T) {
	kit.Check(t, 150, 1600, func(t *rapid.T) {
		op := rapid.SampledFrom([]string{"encrypt", "encrypt", "decrypt"}).Draw(t, "op")
		states := world.KeyStates
		if op == "decrypt" {
			states = []string{"warm-held", "warm-fresh", "stale", "expired", "ik-revoked", "sk-revoked", "ext-rotated", "ext-rotated-sk"}
		}
		sc := world.DrawScenario(t, states)
		clone := func(faults ...world.FaultAt) *world.FaultScenario {
			c := *sc
			c.Faults = faults
			return &c
		}
		runAccounted := func(t *rapid.T, sc *world.FaultScenario) ([]kit.Call, int, int, int) {
			return runAccountedOp(t, sc, op)
		}
		seq, aeadN, allocN, readsN := runAccounted(t, clone())
		for i, c := range seq {
			for _, k := range world.ApplicableFaults(c) {
				runAccounted(t, clone(world.FaultAt{Target: "ext", Rel: i, Kind: k}))
			}
		}
		for i := 0; i < aeadN; i++ {
			runAccounted(t, clone(world.FaultAt{Target: "aead", Rel: i}))
		}
		for i := 0; i < allocN; i++ {
			runAccounted(t, clone(world.FaultAt{Target: "alloc", Rel: i}))
			runAccounted(t, clone(world.FaultAt{Target: "alloc-consumed", Rel: i}))
		}
		// a key secret that cannot be opened for reading / cannot be re-protected after its callback ran
		for i := 0; i < readsN; i++ {
			runAccounted(t, clone(world.FaultAt{Target: "sec-open", Rel: i}))
			runAccounted(t, clone(world.FaultAt{Target: "sec-release", Rel: i}))
		}
	})
}

func failSc(t *rapid.T, sc *world.FaultScenario, format string, args ...any) {
	msg := fmt.Sprintf(format, args...)
	kit.Rec.Violation(msg)
	t.Fatalf("C09 violated: %s\n  scenario: %s\n  calls of the operation: %v\n%s", msg, sc.Describe(), sc.OpCalls(), sc.W.Describe())
}

func runAccountedOp(t *rapid.T, sc *world.FaultScenario, op string) ([]kit.Call, int, int, int) {
	mismatch := map[string]bool{}
	var rec *world.Rec
	ev := sc.Exec(t, func(sc *world.FaultScenario) *world.Event {
		if op == "decrypt" && sc.Rec0 != nil {
			// the operation under faults is a decrypt of a record written during setup
			e, _ := sc.W.Decrypt(sc.Sess, sc.Rec0, false, false)
			if e.Err == nil {
				rec = sc.Rec0
			}
			return e
		}
		e, r := sc.W.Encrypt(sc.Sess, []byte("payload-under-faults"), false, false)
		rec = r
		return e
	})
	w := sc.W
	torn := false
	defer func() {
		if !torn {
			w.Teardown()
		}
	}()
	calls := sc.OpCalls()
	aeadN := w.AEAD.Len() - sc.ABase
	allocN := w.Secrets.Count() - sc.SBase
	readsN := w.Secrets.Reads() - sc.RBase
	for _, fp := range w.MismatchParents(ev) {
		mismatch[fp] = true
	}
	pol := sc.Fixed.Policies[0]
	created := w.Secrets.InfosRange(ev.SecretFrom, ev.SecretTo)
	// the DRK (the CreateRandom secret that keyed a payload encryption, success or not) is released
	for _, c := range w.AEAD.Since(ev.AEADFrom) {
		if c.Op == "Encrypt" && c.PlainFp == kit.Fp([]byte("payload-under-faults")) {
			for _, si := range created {
				if si.Fp == c.KeyFp && si.Closed == 0 {
					failSc(t, sc, "the data key %s is still live after Encrypt returned (err=%v)", si, ev.Err)
				}
			}
		}
	}
	if !pol.CacheSystemKeys && !pol.CacheIntermediateKeys {
		for _, si := range created {
			if si.Closed == 0 {
				if w.KMS.SeenSK[si.Fp] && mismatch[si.Fp] && kit.KnownOpen("C09", "sk-ref-leak-on-parent-mismatch") {
					kit.Rec.Known("sk-ref-leak-on-parent-mismatch", "duplicate-IK fallback onto an IK wrapped by another SK: the SK looked up to unwrap it is never released")
					continue
				}
				failSc(t, sc, "encrypt (err=%v) with key caching disabled left %s live after the call returned", ev.Err, si)
			}
		}
	}
	// a failed encrypt must not leave the secrets it created behind unless a cache holds them;
	// whatever the caches hold is released by closing the session and the factory
	ev2, _ := w.Encrypt(sc.Sess, []byte("payload-after-faults"), false, false)
	if ev2.Err != nil {
		failSc(t, sc, "after the faults stopped the next encrypt fails: %v", ev2.Err)
	}
	if sc.Rec0 != nil {
		// ... and so does a decrypt through the same caches (a key released once too often is still cached, destroyed)
		if ev3, _ := w.Decrypt(sc.Sess, sc.Rec0, false, false); ev3.Err != nil {
			failSc(t, sc, "after the faults stopped a decrypt of a record written before them fails: %v", ev3.Err)
		}
		o, fresh := w.SessionFor(sc.W.Procs[0], sc.W.Parts[1], false)
		if ev4, _ := w.Encrypt(o, []byte("other partition after faults"), false, fresh); ev4.Err != nil {
			failSc(t, sc, "after the faults stopped an encrypt on another partition of the same factory fails: %v", ev4.Err)
		}
	}
	for _, fp := range w.MismatchParents(ev2) {
		mismatch[fp] = true
	}
	w.Teardown()
	torn = true
	for _, si := range w.Secrets.Live() {
		if w.KMS.SeenSK[si.Fp] && mismatch[si.Fp] && kit.KnownOpen("C09", "sk-ref-leak-on-parent-mismatch") {
			kit.Rec.Known("sk-ref-leak-on-parent-mismatch", "duplicate-IK fallback onto an IK wrapped by another SK: the reference on the SK looked up to unwrap it is never dropped, so the key survives Factory.Close")
			continue
		}
		failSc(t, sc, "after the session and the factory were closed %s is still live (first encrypt err=%v)", si, ev.Err)
	}
	for _, si := range w.Secrets.Infos() {
		if si.CloseCalls > 1 {
			failSc(t, sc, "secret released more than once: %s", si)
		}
		if si.ReadsAfterClose > 0 {
			failSc(t, sc, "secret accessed after it was closed: %s", si)
		}
	}
	outcome := "error"
	if rec != nil {
		outcome = "record"
	}
	shape := fmt.Sprintf("fault|%s|%s|%s|%v|%s", op, sc.State, world.CacheClass(pol), sc.Faults, outcome)
	kit.Rec.Case(shape, len(sc.Faults) > 0 && sc.AnyFired(), func() any {
		return map[string]any{"operation": op, "state": sc.State, "policy": world.PolicyString(pol), "faults": fmt.Sprint(sc.Faults), "outcome": outcome, "secrets_created_by_op": len(created)}
	})
	if len(sc.Faults) > 0 {
		kit.Rec.Label("fault:" + sc.Faults[0].Target + ":" + outcome)
	}
	return calls, aeadN, allocN, readsN
}
