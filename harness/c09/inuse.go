package c09

import "github.com/godaddy/asherah/go/securememory"

func inUse() int64 { return securememory.InUseCounter.Count() }
