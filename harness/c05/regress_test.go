package c05

import (
	"testing"
	"time"

	"pgregory.net/rapid"
	"verif/kit"
	"verif/world"
)

// TestRegressLongLivedSessionAdoptsNewKey is the shrunk history of the fixed defect
// "load-merges-newer-key-into-old-entry" as a plain scenario (no generators).
func TestRegressLongLivedSessionAdoptsNewKey(t *testing.T) {
	for _, shared := range []bool{false, true} {
		kit.Scripted(t, func(rt *rapid.T) {
			w := world.New(rt, world.Options{MaxProcs: 1, SimpleIDs: true, Partitions: 1, FixedPolicy: fixedPolicy(shared), SmallPayloads: true})
			defer w.Teardown()
			s := w.Open(w.Procs[0], w.Parts[0])
			_, rec0 := w.Encrypt(s, []byte("x"), false, true)
			w.RevokeRow(rec0.IKID, rec0.IKCreated, false)
			w.Advance(12 * time.Second) // > one revoke-check interval (10 s), a later stamp is available
			ev, rec1 := w.Encrypt(s, []byte("y"), false, false)
			if rec1 == nil {
				rt.Fatalf("encrypt failed: %v", ev.Err)
			}
			if f := w.Facts(ev); f.IK == nil || f.IK.Rec.Revoked {
				kit.Rec.Violation("regression: long-lived session still encrypts under the revoked IK")
				rt.Fatalf("C05 violated: a long-lived session (shared IK cache: %v) still names the revoked IK (%s,%d) 12 s after it was revoked (interval 10 s)\n%s", shared, rec1.IKID, rec1.IKCreated, w.Describe())
			}
			kit.Rec.Case("regress-load-merge", true, nil)
		})
	}
}
