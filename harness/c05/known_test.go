package c05

import (
	"testing"
	"time"

	"github.com/godaddy/asherah/go/appencryption"
	"pgregory.net/rapid"
	"verif/kit"
	"verif/world"
)

func fixedPolicy(shared bool) func(*rapid.T) *appencryption.CryptoPolicy {
	return func(*rapid.T) *appencryption.CryptoPolicy {
		p := appencryption.NewCryptoPolicy()
		p.ExpireKeyAfter, p.RevokeCheckInterval, p.CreateDatePrecision = time.Hour, 10*time.Second, 0
		p.SharedIntermediateKeyCache = shared
		return p
	}
}

// TestKnownDecryptRefresh replays the listed open finding
// C05/decrypt-refresh-hides-parent-revocation deterministically. It never fails:
// it reports KNOWN-FINDING while the defect is present and nothing once it is gone.
func TestKnownDecryptRefresh(t *testing.T) {
	if !kit.KnownOpen("C05", "decrypt-refresh-hides-parent-revocation") {
		t.Skip("not listed as open")
	}
	kit.Scripted(t, func(rt *rapid.T) {
		w := world.New(rt, world.Options{MaxProcs: 1, SimpleIDs: true, Partitions: 1, FixedPolicy: fixedPolicy(true), SmallPayloads: true})
		defer w.Teardown()
		p := w.Procs[0]
		s := w.Open(p, w.Parts[0])
		_, rec0 := w.Encrypt(s, []byte("x"), false, true)
		w.RevokeRow(w.SKID(), w.Store.Latest(w.SKID()).Created, true)
		w.Advance(25 * time.Second)
		w.Decrypt(s, rec0, false, false)
		ev, rec1 := w.Encrypt(s, []byte("y"), false, false)
		if rec1 == nil {
			rt.Fatalf("encrypt failed: %v", ev.Err)
		}
		f := w.Facts(ev)
		if f.SK != nil && f.SK.RevokedAt != 0 {
			kit.Rec.Known("decrypt-refresh-hides-parent-revocation", "encrypt; revoke SK out of band; wait > 2 intervals; decrypt on the same IK cache; the next encrypt within one interval still uses the IK under the revoked SK")
		}
	})
}
