package c05

import (
	"fmt"
	"testing"
	"time"

	"pgregory.net/rapid"
	"verif/kit"
	"verif/world"
)

// TestRevocationUnderReadFaults: the bound is not conditional on reads or the KMS working.
// In the states where a cached key was revoked longer ago than its bound (and a later stamp
// is available), every metastore read and every KMS call of the next encrypts is failed in
// turn; an encrypt may fail, but a record that is returned all the same must not be under the
// revoked key - and the faults must not buy the revoked chain another interval.
func TestRevocationUnderReadFaults(t *testing.T) {
	kit.Check(t, 120, 1600, func(t *rapid.T) {
		sc := world.DrawScenario(t, []string{"ik-revoked", "sk-revoked"})
		clone := func(faults ...world.FaultAt) *world.FaultScenario {
			c := *sc
			c.Faults = faults
			return &c
		}
		seq := runRevoked(t, clone())
		for i, c := range seq {
			if c.Target == "store" && c.Op == "Store" {
				continue
			}
			runRevoked(t, clone(world.FaultAt{Target: "ext", Rel: i, Kind: kit.FaultError}))
		}
	})
}

func runRevoked(t *rapid.T, sc *world.FaultScenario) []kit.Call {
	ev := sc.Exec(t, func(sc *world.FaultScenario) *world.Event {
		e, _ := sc.W.Encrypt(sc.Sess, []byte("x"), false, false)
		return e
	})
	w := sc.W
	defer w.Teardown()
	calls := sc.OpCalls()
	pol := sc.Fixed.Policies[0]
	bad := func(format string, args ...any) {
		msg := fmt.Sprintf(format, args...)
		kit.Rec.Violation(msg)
		t.Fatalf("C05 violated: %s\n  scenario: %s\n  calls: %v\n%s", msg, sc.Describe(), calls, w.Describe())
	}
	check := func(e *world.Event, when string) {
		if e.Rec == nil {
			return
		}
		f := w.Facts(e)
		if f.IK == nil || f.SK == nil {
			bad("%s: the record names keys that are not in the metastore", when)
		}
		if !pol.CacheIntermediateKeys && !pol.CacheSystemKeys {
			// without key caching the revoked key must already be gone; with caching the setup waited out the bound
		}
		if f.IK.RevokedAt != 0 && w.LaterStampSince(e, pol.RevokeCheckInterval, f.IK.Created) {
			bad("%s: the record names IK (%s,%d), flagged revoked %s ago (interval %s)", when, f.IK.ID, f.IK.Created, time.Duration(e.At-f.IK.RevokedAt), pol.RevokeCheckInterval)
		}
		if f.SK.RevokedAt != 0 && w.LaterStampSince(e, pol.RevokeCheckInterval, f.IK.Created, f.SK.Created) {
			bad("%s: the record names an IK whose SK (created %d) was flagged revoked %s ago (interval %s)", when, f.SK.Created, time.Duration(e.At-f.SK.RevokedAt), pol.RevokeCheckInterval)
		}
	}
	check(ev, fmt.Sprintf("under read faults %v", sc.Faults))
	// the faults have stopped; one interval later the session must be on an unrevoked chain
	w.Advance(pol.RevokeCheckInterval + pol.CreateDatePrecision + time.Second)
	ev2, _ := w.Encrypt(sc.Sess, []byte("y"), false, false)
	if ev2.Err != nil {
		bad("after the faults stopped the next encrypt fails: %v", ev2.Err)
	}
	check(ev2, "one interval after the faults stopped")
	outcome := "error"
	if ev.Rec != nil {
		outcome = "record"
	}
	kit.Rec.Case(fmt.Sprintf("readfault|%s|%s|%v|%s", sc.State, world.CacheClass(pol), sc.Faults, outcome), sc.AnyFired(), nil)
	kit.Rec.Label("readfault:" + sc.State + ":" + outcome)
	return calls
}
