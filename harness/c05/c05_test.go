// Package c05: revocation in the metastore takes effect within the revoke-check interval.
package c05

import (
	"bytes"
	"fmt"
	"sort"
	"strings"
	"testing"
	"time"

	"pgregory.net/rapid"
	"verif/backing"
	"verif/kit"
	"verif/world"
)

func TestMain(m *testing.M) {
	kit.Main(m, "C05", "exploration",
		"rapid state machine over the real SDK with a virtual clock: encrypts fill caches, keys are flagged revoked out of band in the store (latest IK / latest SK / any older row), "+
			"optionally another process rotates, the clock advances around the revoke-check interval, sessions are long-lived or fresh, every cache layout. "+
			"Oracle per successful encrypt at t: if the named IK was flagged revoked at R and t > R + n*interval (n=1; 0 without key caching), or its parent SK was flagged at R and t > R + 2*interval, "+
			"and a key with a later creation stamp can be created (trunc(t, CreateDatePrecision) > stamp of the keys to replace), the record must name an unrevoked IK present in the store whose SK is present and unrevoked. "+
			"Every decrypt of a record written under a revoked key still returns its payload. One evaluation = one history. "+
			"Non-trivial = an encrypt after revoke+bound by a process that had produced a record under the revoked key (or a child of it) before the revocation; distinct = distinct sets of (revoked level, held/fresh session, cache class, rotated-by-other)",
		"virtual clock injected by build overlay", "revocation is copy-on-write in the store (readers holding the old row object are unaffected, like a database)")
}

var weights = map[string]int{"encrypt": 10, "decrypt": 3, "open": 1, "close": 1, "restart": 1, "advance": 7, "revoke": 4, "rotate": 1, "pressure": 1, "revokeDecryptEncrypt": 2, "oldThenNew": 2, "revokedSKRotatedEvictedOldNew": 2}

func TestWorld(t *testing.T) {
	kit.Steps(kit.Pick(40, 60))
	kit.Check(t, 2500, 96000, func(t *rapid.T) { runHistory(t) })
}

type used struct {
	at   int64
	sess int
}

func runHistory(t *rapid.T) {
	// long expiries so that revocation, not expiry, drives rotation
	opts := world.Options{MaxProcs: 2, SmallPayloads: true, NoRetainAEAD: true, HomogeneousTime: true}
	defer backing.Use(t, &opts, 30)()
	w := world.New(t, opts)
	defer w.Teardown()
	shapes := map[string]bool{}
	usedIK := map[string]*used{} // proc|ikid|created -> last use
	w.OnOp = func(ev *world.Event) { monitor(t, w, ev, shapes, usedIK) }
	acts := w.Actions()
	// a compound history that random interleaving reaches too rarely: a key cached by a live
	// session is revoked, the interval passes, and the FIRST thing the session does is decrypt
	// an old record under that key (the refresh path), then it encrypts
	acts["revokeDecryptEncrypt"] = func(t *rapid.T) {
		var cands []*world.Sess
		for _, p := range w.Procs {
			for _, s := range p.Sessions {
				if s.Encrypts > 0 {
					cands = append(cands, s)
				}
			}
		}
		if len(cands) == 0 {
			t.Skip("no session that has encrypted yet")
		}
		s := cands[rapid.IntRange(0, len(cands)-1).Draw(t, "sess")]
		var rec *world.Rec
		for i := len(w.Recs) - 1; i >= 0; i-- {
			if w.Recs[i].SessID == s.ID {
				rec = w.Recs[i]
				break
			}
		}
		if rec == nil {
			t.Skip("no record of that session")
		}
		pol := s.Proc.Policy
		if rapid.Bool().Draw(t, "revokeSK") {
			if ik := w.Store.Get(rec.IKID, rec.IKCreated); ik != nil && ik.Rec.ParentKeyMeta != nil {
				w.RevokeRow(ik.Rec.ParentKeyMeta.ID, ik.Rec.ParentKeyMeta.Created, true)
			}
			w.Advance(2*pol.RevokeCheckInterval + pol.CreateDatePrecision + time.Second)
		} else {
			w.RevokeRow(rec.IKID, rec.IKCreated, false)
			w.Advance(pol.RevokeCheckInterval + pol.CreateDatePrecision + time.Second)
		}
		w.Decrypt(s, rec, false, false)
		w.Encrypt(s, []byte("after revocation"), false, false)
	}
	// the parent SK is revoked, the long-lived session rotates as it must, other partitions push
	// the new IK out of a bounded cache, then an old record is decrypted and the session encrypts
	acts["revokedSKRotatedEvictedOldNew"] = func(t *rapid.T) {
		p := w.PickProc("proc")
		pol := p.Policy
		s, fresh := w.SessionFor(p, w.Parts[0], true)
		_, r1 := w.Encrypt(s, []byte("before the revocation"), false, fresh)
		if r1 == nil {
			return
		}
		ik := w.Store.Get(r1.IKID, r1.IKCreated)
		if ik == nil || ik.Rec.ParentKeyMeta == nil {
			return
		}
		w.RevokeRow(ik.Rec.ParentKeyMeta.ID, ik.Rec.ParentKeyMeta.Created, true)
		w.Advance(2*pol.RevokeCheckInterval + pol.CreateDatePrecision + time.Second)
		w.Encrypt(s, []byte("rotates"), false, false)
		for _, part := range w.Parts[1:] {
			o, fr := w.SessionFor(p, part, true)
			w.Encrypt(o, []byte("pressure"), false, fr)
		}
		w.Decrypt(s, r1, false, false)
		w.Encrypt(s, []byte("after an old record"), false, false)
	}
	t.Repeat(kit.Weighted(acts, weights, nil))
	var ss []string
	for s := range shapes {
		ss = append(ss, s)
	}
	sort.Strings(ss)
	kit.Rec.Case(strings.Join(ss, ";"), len(ss) > 0, func() any {
		var procs []string
		for _, p := range w.Procs {
			procs = append(procs, p.Name+": "+world.PolicyString(p.Policy))
		}
		return map[string]any{"procs": procs, "history": w.History(), "post_revocation_encrypts": ss}
	})
}

func fail(t *rapid.T, w *world.World, format string, args ...any) {
	msg := fmt.Sprintf(format, args...)
	kit.Rec.Violation(msg)
	t.Fatalf("C05 violated: %s\n%s", msg, w.Describe())
}

func monitor(t *rapid.T, w *world.World, ev *world.Event, shapes map[string]bool, usedIK map[string]*used) {
	switch ev.Kind {
	case "decrypt":
		if ev.Err != nil {
			fail(t, w, "decrypt of rec%d failed: %v", ev.Rec.ID, ev.Err)
		}
		if !bytes.Equal(ev.Out, ev.Rec.Payload) {
			fail(t, w, "decrypt of rec%d returned other bytes", ev.Rec.ID)
		}
		if ik := w.Store.Get(ev.Rec.IKID, ev.Rec.IKCreated); ik != nil {
			if ik.Rec.Revoked {
				kit.Rec.Label("decrypt-under-revoked-ik")
			} else if pm := ik.Rec.ParentKeyMeta; pm != nil {
				if sk := w.Store.Get(pm.ID, pm.Created); sk != nil && sk.Rec.Revoked {
					kit.Rec.Label("decrypt-under-revoked-sk")
				}
			}
		}
		return
	case "restart":
		for k := range usedIK {
			if strings.HasPrefix(k, ev.Proc.Name+"|") {
				delete(usedIK, k)
			}
		}
		return
	case "encrypt":
	default:
		return
	}
	if ev.Err != nil || ev.Rec == nil {
		fail(t, w, "encrypt failed in a fault-free history: %v", ev.Err)
	}
	pol := ev.Proc.Policy
	f := w.Facts(ev)
	if f.IK == nil {
		fail(t, w, "rec%d names IK (%s,%d) which is not in the metastore", ev.Rec.ID, ev.Rec.IKID, ev.Rec.IKCreated)
	}
	if f.SK == nil {
		fail(t, w, "rec%d names an IK whose parent SK is not in the metastore", ev.Rec.ID)
	}
	iv := pol.RevokeCheckInterval
	nIK, nSK := time.Duration(1), time.Duration(2)
	if !f.KeyCaching {
		nIK, nSK = 0, 0
	}
	canReplace := w.LaterStampSince(ev, nIK*iv, f.IK.Created, f.SK.Created)
	if f.IK.RevokedAt != 0 {
		r := time.Unix(0, f.IK.RevokedAt)
		switch {
		case !f.T.After(r.Add(nIK * iv)):
			kit.Rec.Label("revoked-ik-within-bound")
		case !canReplace:
			kit.Rec.Label("revoked-ik-no-later-stamp")
		default:
			fail(t, w, "rec%d produced at %d names IK (%s,%d) flagged revoked at %d, more than %d revoke-check interval(s) of %s ago, although a key with a later stamp (%d) can be created",
				ev.Rec.ID, f.T.Unix(), f.IK.ID, f.IK.Created, r.Unix(), nIK, iv, f.Trunc)
		}
	}
	if f.SK.RevokedAt != 0 {
		r := time.Unix(0, f.SK.RevokedAt)
		switch {
		case !f.T.After(r.Add(nSK * iv)):
			kit.Rec.Label("revoked-sk-within-bound")
		case !canReplace:
			kit.Rec.Label("revoked-sk-no-later-stamp")
		default:
			if o := w.RefreshedByDecrypt(ev, f.IK.ID, f.IK.Created, f.T.Add(-iv).UnixNano()-1); o != nil && !w.NewerKnownToCache(ev, f.IK.ID, f.IK.Created) && kit.KnownOpen("C05", "decrypt-refresh-hides-parent-revocation") {
				kit.Rec.Known("decrypt-refresh-hides-parent-revocation", "a decrypt that re-reads a stale cached IK renews the cache entry without validating its parent SK, so the next encrypts keep using an IK whose SK is revoked")
			} else {
				fail(t, w, "rec%d produced at %d names IK (%s,%d) whose SK (created %d) was flagged revoked at %d, more than %d revoke-check intervals of %s ago, although keys with a later stamp (%d) can be created",
					ev.Rec.ID, f.T.Unix(), f.IK.ID, f.IK.Created, f.SK.Created, r.Unix(), nSK, iv, f.Trunc)
			}
		}
	}
	// classification: this process used a key before it was revoked, and now (after the bound) encrypts again
	for _, rv := range w.Revoked {
		var key string
		n := nIK
		level := "ik"
		if rv.IsSK {
			level, n = "sk", nSK
			// any IK of this partition used by this process under that SK
			key = ev.Proc.Name + "|sk|" + fmt.Sprint(rv.Created)
		} else {
			if rv.ID != ev.Rec.IKID {
				continue
			}
			key = ev.Proc.Name + "|" + rv.ID + "|" + fmt.Sprint(rv.Created)
		}
		u := usedIK[key]
		if u == nil || u.at > rv.At {
			continue
		}
		if !f.T.After(time.Unix(0, rv.At).Add(n * iv)) {
			continue
		}
		held := "fresh"
		if u.sess == ev.Sess.ID {
			held = "held"
		}
		rot := ""
		if l := w.Store.Latest(ev.Rec.IKID); l != nil && l.By == "ext" {
			rot = "|ext-rotated"
		}
		shapes[level+"|"+held+"|"+world.CacheClass(pol)+rot] = true
		kit.Rec.Label("post-revocation-encrypt:" + level + ":" + held)
	}
	usedIK[ev.Proc.Name+"|"+f.IK.ID+"|"+fmt.Sprint(f.IK.Created)] = &used{at: ev.At, sess: ev.Sess.ID}
	usedIK[ev.Proc.Name+"|sk|"+fmt.Sprint(f.SK.Created)] = &used{at: ev.At, sess: ev.Sess.ID}
}
