package c03

import (
	"bytes"
	"crypto/sha256"
	"fmt"
	"sync"
	"testing"

	"github.com/godaddy/asherah/go/securememory"
	"github.com/godaddy/asherah/go/securememory/memguard"
	"github.com/godaddy/asherah/go/securememory/protectedmemory"
	"pgregory.net/rapid"
	"verif/kit"
)

// TestFreshKeysFromRealFactories: "every encrypt uses a newly generated random 256-bit data key" rests on the
// configured secret factory's CreateRandom, which one SessionFactory shares between all its sessions and
// goroutines. The histories above run over the tracking factory; here the two real factories are asked for
// random secrets by several goroutines at once, as concurrent encrypts do. Oracle: every secret has the
// requested length, is not all zero, and no two secrets of a run have the same content.
func TestFreshKeysFromRealFactories(t *testing.T) {
	kit.Check(t, 12, 400, func(t *rapid.T) {
		kind := rapid.SampledFrom([]string{"protectedmemory", "memguard"}).Draw(t, "factory")
		workers := rapid.IntRange(2, 16).Draw(t, "goroutines")
		per := rapid.IntRange(200, 2000).Draw(t, "perGoroutine")
		size := rapid.SampledFrom([]int{32, 32, 32, 16, 64}).Draw(t, "size")
		var f securememory.SecretFactory
		if kind == "memguard" {
			f = new(memguard.SecretFactory)
		} else {
			f = new(protectedmemory.SecretFactory)
		}
		zero := make([]byte, size)
		type seen struct {
			worker, i int
		}
		var mu sync.Mutex
		all := map[[32]byte]seen{}
		var viol string
		note := func(format string, args ...any) {
			mu.Lock()
			if viol == "" {
				viol = fmt.Sprintf(format, args...)
			}
			mu.Unlock()
		}
		var wg sync.WaitGroup
		for w := 0; w < workers; w++ {
			wg.Add(1)
			go func(w int) {
				defer wg.Done()
				local := make(map[[32]byte]int, per)
				for i := 0; i < per; i++ {
					s, err := f.CreateRandom(size)
					if err != nil {
						note("CreateRandom(%d) failed: %v", size, err)
						return
					}
					var fp [32]byte
					err = s.WithBytes(func(b []byte) error {
						if len(b) != size {
							note("CreateRandom(%d) returned %d bytes", size, len(b))
						}
						if bytes.Equal(b, zero) {
							note("goroutine %d, secret #%d: CreateRandom(%d) returned an all-zero secret", w, i, size)
						}
						fp = sha256.Sum256(b)
						return nil
					})
					s.Close()
					if err != nil {
						note("reading a new secret failed: %v", err)
						return
					}
					if j, dup := local[fp]; dup {
						note("goroutine %d: secrets #%d and #%d have the same content", w, j, i)
					}
					local[fp] = i
				}
				mu.Lock()
				for fp, i := range local {
					if o, dup := all[fp]; dup {
						if viol == "" {
							viol = fmt.Sprintf("two random secrets have the same content: goroutine %d #%d and goroutine %d #%d", o.worker, o.i, w, i)
						}
					}
					all[fp] = seen{w, i}
				}
				mu.Unlock()
			}(w)
		}
		wg.Wait()
		if viol != "" {
			msg := fmt.Sprintf("%s factory, %d goroutines x %d CreateRandom(%d): %s", kind, workers, per, size, viol)
			kit.Rec.Violation(msg)
			t.Fatalf("C03 violated: %s", msg)
		}
		kit.Rec.Case(fmt.Sprintf("fresh|%s|%d|%d|%d", kind, workers, per, size), true, func() any {
			return map[string]any{"factory": kind, "goroutines": workers, "secrets_per_goroutine": per, "size": size, "distinct_contents": len(all)}
		})
		kit.Rec.LabelN("random-secrets-compared:"+kind, int64(len(all)))
	})
}
