// Package c03: envelope discipline - fresh random DRK per write; keys wrapped only by their parent; nothing leaks.
package c03

import (
	"bytes"
	"crypto/sha256"
	"encoding/binary"
	"fmt"
	"sort"
	"strings"
	"sync"
	"testing"

	applog "github.com/godaddy/asherah/go/appencryption/pkg/log"
	smlog "github.com/godaddy/asherah/go/securememory/log"
	"pgregory.net/rapid"
	"verif/backing"
	"verif/kit"
	"verif/world"
)

func TestMain(m *testing.M) {
	applog.SetLogger(capture)
	smlog.SetLogger(capture)
	kit.Main(m, "C03", "exploration",
		"rapid state machine over the real SDK with spy AEAD/KMS/store/secret factory and both debug loggers captured; histories biased to bursts of tens to hundreds of encrypts per key over several partitions, with rotations and revocations. "+
			"Oracle over the complete call logs: every AEAD encryption is one of exactly three legitimate forms (payload under a 32-byte key that the secret factory's CreateRandom produced in the same call and that never encrypted another payload; that DRK under the IK named by the record's ParentKeyMeta; a new IK under the SK named by the row written, of the same service/product), "+
			"system keys reach only KMS.EncryptKey, no key plays two roles, all (key, nonce) pairs are distinct with 12-byte nonces, and no plaintext key bytes or payload marker occurs raw / base64 / hex in any returned record, in the record a caller handed to Decrypt as it looks afterwards (payloads up to 70 KB), stored row, log line or KMS request. "+
			"In addition the two real secret factories (one instance shared by all goroutines of a SessionFactory) are asked for random secrets by 2-16 goroutines at once, as concurrent encrypts do: right length, not all zero, no two alike. "+
			"One evaluation = one history (or one concurrent run). Non-trivial = >= 2 encrypts under one IK and >= 1 rotation (a concurrent run always); distinct = distinct (encrypt-count bucket, #IK generations, #SK generations, cache classes)",
		"key identities are established independently by unwrapping the stored rows with the harness KMS and crypto/cipher", "uniqueness, length and provenance are checked, not randomness quality")
}

// ---- log capture -------------------------------------------------------------------

type capLogger struct {
	mu    sync.Mutex
	lines [][]byte
}

var capture = &capLogger{}

func (c *capLogger) Debugf(format string, v ...interface{}) {
	s := fmt.Sprintf(format, v...)
	c.mu.Lock()
	c.lines = append(c.lines, []byte(s))
	c.mu.Unlock()
}

func (c *capLogger) take() [][]byte {
	c.mu.Lock()
	defer c.mu.Unlock()
	l := c.lines
	c.lines = nil
	return l
}

var weights = map[string]int{"encryptUnderFault": 2, "burst": 6, "encrypt": 4, "decrypt": 3, "open": 1, "close": 1, "restart": 1, "advance": 3, "revoke": 1, "rotate": 1}

func TestWorld(t *testing.T) {
	kit.Steps(kit.Pick(25, 40))
	kit.Check(t, 300, 8000, func(t *rapid.T) { runHistory(t) })
}

type mon struct {
	faultPlanned bool // the operation in progress runs under an injected fault and may fail
	w            *world.World
	t            *rapid.T
	payloadKey   map[string]int  // DRK fp -> record id it encrypted
	pairs        map[string]bool // keyfp|nonce
	drk          map[string]bool
	ikFp         map[string]string // rowkey -> fp (reference-derived)
	skFp         map[string]string
	roleIK       map[string]bool
	roleSK       map[string]bool
	perIK        map[string]int
	markerSeq    uint64
	markers      [][]byte
	pairsSeen    int
	reqSeen      int
	scan         *kit.Scanner
}

func (m *mon) payload(t *rapid.T) []byte {
	// high-entropy marker derived from a drawn seed (rapid's byte generators favour small values)
	seed := rapid.Uint64().Draw(t, "payloadSeed")
	m.markerSeq++
	var buf [16]byte
	binary.LittleEndian.PutUint64(buf[:8], seed)
	binary.LittleEndian.PutUint64(buf[8:], m.markerSeq)
	h := sha256.Sum256(buf[:])
	n := rapid.SampledFrom([]int{0, 1, 16, 100, 4096}).Draw(t, "payloadExtra")
	if rapid.IntRange(0, 49).Draw(t, "hugePayload") == 23 { // (rapid favours the ends of a range: an interior value keeps this rare)
		n = 70000 // beyond 64 KiB
	}
	p := append([]byte{}, h[:24]...)
	for i := 0; i < n; i++ {
		p = append(p, h[i%32]^byte(i))
	}
	m.markers = append(m.markers, h[:24])
	// known to the leak scanner from the moment it exists (an encrypt that fails must not leak it either)
	m.scan.Add(p[:24], fmt.Sprintf("payload marker #%d", m.markerSeq))
	return p
}

func runHistory(t *rapid.T) {
	m := &mon{t: t, payloadKey: map[string]int{}, pairs: map[string]bool{}, drk: map[string]bool{}, ikFp: map[string]string{}, skFp: map[string]string{},
		roleIK: map[string]bool{}, roleSK: map[string]bool{}, perIK: map[string]int{}, scan: kit.NewScanner()}
	capture.take()
	opts := world.Options{MaxProcs: 2, NoRetainAEAD: true, PayloadGen: m.payload}
	defer backing.Use(t, &opts, 25)()
	w := world.New(t, opts)
	m.w = w
	defer w.Teardown()
	w.OnOp = m.after
	acts := w.Actions()
	delete(acts, "pressure")
	// one operation under one injected fault (metastore / KMS call, AEAD call, secret allocation - also one that
	// strikes after the factory consumed its input -, opening / re-protecting a key secret): it may fail; what
	// it logs is scanned, and everything the following operations do is judged as usual
	acts["encryptUnderFault"] = func(t *rapid.T) {
		p := w.PickProc("proc")
		s, fresh := w.SessionFor(p, w.PickPart("part"), false)
		target := rapid.SampledFrom([]string{"ext", "ext", "aead", "alloc", "alloc-consumed", "sec-open", "sec-release"}).Draw(t, "faultTarget")
		rel := rapid.IntRange(0, 5).Draw(t, "faultAt")
		base, abase := w.Log.Len(), w.AEAD.Len()
		switch target {
		case "ext":
			w.Log.Plan = func(idx int, c *kit.Call) kit.FaultKind {
				if idx-base == rel {
					return kit.FaultError
				}
				return kit.NoFault
			}
		case "aead":
			w.AEAD.Plan = func(idx int, c *kit.AEADCall) bool { return idx-abase == rel }
		case "alloc":
			w.Secrets.FailRel(rel, func() {})
		case "alloc-consumed":
			w.Secrets.FailRelWiped(rel, func() {})
		case "sec-open":
			w.Secrets.FailOpenRel(rel, func() {})
		case "sec-release":
			w.Secrets.FailReleaseRel(rel, func() {})
		}
		m.faultPlanned = true
		w.Encrypt(s, m.payload(t), false, fresh)
		m.faultPlanned = false
		w.Log.Plan, w.AEAD.Plan = nil, nil
		w.Secrets.ClearFail()
	}
	acts["burst"] = func(t *rapid.T) {
		p := w.PickProc("proc")
		part := w.PickPart("part")
		s, fresh := w.SessionFor(p, part, true)
		n := rapid.IntRange(10, kit.Pick(120, 400)).Draw(t, "burst")
		for i := 0; i < n; i++ {
			w.Encrypt(s, m.payload(t), false, fresh && i == 0)
		}
	}
	t.Repeat(kit.Weighted(acts, weights, nil))
	m.finalScan()
	maxPer, iks, sks := 0, 0, 0
	for _, n := range m.perIK {
		if n > maxPer {
			maxPer = n
		}
	}
	for _, r := range w.Store.Rows() {
		if strings.HasPrefix(r.ID, "_IK_") {
			iks++
		} else {
			sks++
		}
	}
	bucket := "1"
	switch {
	case maxPer >= 1000:
		bucket = "1000+"
	case maxPer >= 100:
		bucket = "100+"
	case maxPer >= 10:
		bucket = "10+"
	case maxPer >= 2:
		bucket = "2+"
	}
	classes := map[string]bool{}
	for _, p := range w.Procs {
		classes[world.CacheClass(p.Policy)] = true
	}
	var cs []string
	for c := range classes {
		cs = append(cs, c)
	}
	sort.Strings(cs)
	rotated := iks > len(m.partsUsed())
	kit.Rec.Case(fmt.Sprintf("%s|ik=%d|sk=%d|%s", bucket, iks, sks, strings.Join(cs, "+")), maxPer >= 2 && rotated, func() any {
		return map[string]any{"records": len(w.Recs), "max_encrypts_under_one_ik": maxPer, "ik_rows": iks, "sk_rows": sks, "aead_calls": w.AEAD.Len(), "history_head": head(w.History(), 40)}
	})
	kit.Rec.AddExtra("distinct_key_nonce_pairs", int64(len(m.pairs)))
	kit.Rec.AddExtra("payload_encryptions", int64(len(m.payloadKey)))
}

func (m *mon) partsUsed() map[string]bool {
	u := map[string]bool{}
	for _, r := range m.w.Recs {
		u[r.Partition] = true
	}
	return u
}

func head(s []string, n int) []string {
	if len(s) > n {
		return append(s[:n:n], fmt.Sprintf("... %d more", len(s)-n))
	}
	return s
}

func fail(t *rapid.T, w *world.World, format string, args ...any) {
	msg := fmt.Sprintf(format, args...)
	kit.Rec.Violation(msg)
	hist := w.Describe()
	if len(hist) > 6000 {
		hist = hist[:3000] + "\n  ...\n" + hist[len(hist)-3000:]
	}
	t.Fatalf("C03 violated: %s\n%s", msg, hist)
}

// refKeys derives, independently of the SDK, the plaintext fingerprint of every stored key.
func (m *mon) refKeys() {
	w := m.w
	for _, r := range w.Store.Rows() {
		k := fmt.Sprintf("%s@%d", r.ID, r.Created)
		if strings.HasPrefix(r.ID, "_SK_") {
			if _, ok := m.skFp[k]; ok {
				continue
			}
			pt, err := kit.KMSUnwrap(w.KMS.Master, r.Rec.EncryptedKey)
			if err != nil {
				fail(m.t, w, "stored SK row %s does not unwrap with the KMS: %v", k, err)
			}
			m.skFp[k] = kit.Fp(pt)
			m.roleSK[kit.Fp(pt)] = true
		}
	}
	for _, r := range w.Store.Rows() {
		k := fmt.Sprintf("%s@%d", r.ID, r.Created)
		if !strings.HasPrefix(r.ID, "_IK_") {
			continue
		}
		if _, ok := m.ikFp[k]; ok {
			continue
		}
		pm := r.Rec.ParentKeyMeta
		if pm == nil {
			fail(m.t, w, "stored IK row %s has no parent meta", k)
		}
		if pm.ID != w.SKID() {
			fail(m.t, w, "stored IK row %s names parent %q, not the system key of its service/product %q", k, pm.ID, w.SKID())
		}
		skRow := w.Store.Get(pm.ID, pm.Created)
		if skRow == nil {
			fail(m.t, w, "stored IK row %s names a parent SK that is not in the store", k)
		}
		sk, err := kit.KMSUnwrap(w.KMS.Master, skRow.Rec.EncryptedKey)
		if err != nil {
			fail(m.t, w, "SK row does not unwrap: %v", err)
		}
		ik, err := kit.GCMOpen(sk, r.Rec.EncryptedKey)
		if err != nil {
			fail(m.t, w, "stored IK row %s is not wrapped by the SK named in its ParentKeyMeta (%s@%d): %v", k, pm.ID, pm.Created, err)
		}
		m.ikFp[k] = kit.Fp(ik)
		m.roleIK[kit.Fp(ik)] = true
	}
}

func (m *mon) after(ev *world.Event) {
	w, t := m.w, m.t
	lines := capture.take()
	if ev.Kind != "encrypt" && ev.Kind != "decrypt" && ev.Kind != "open" && ev.Kind != "close" && ev.Kind != "restart" {
		return
	}
	if ev.Err != nil && m.faultPlanned {
		// an operation that failed under an injected fault: whatever it logged on the way out is scanned
		for _, h := range lines {
			if what, enc := m.scan.Find(h); what != "" {
				fail(t, w, "plaintext %s appears (%s) in a log line of a failed %s: %.160q", what, enc, ev.Kind, h)
			}
		}
		kit.Rec.Label("failed-op-logs-scanned")
		return
	}
	if ev.Err != nil {
		fail(t, w, "%s failed in a fault-free history: %v", ev.Kind, ev.Err)
	}
	m.refKeys()
	calls := w.AEAD.Since(ev.AEADFrom)
	created := w.Secrets.InfosRange(ev.SecretFrom, ev.SecretTo)
	random := map[string]bool{}
	for _, si := range created {
		if si.Origin == "CreateRandom" && si.Size == 32 {
			random[si.Fp] = true
		}
	}
	var opKeys [][]byte
	seenKey := map[string]bool{}
	var drkFp string
	payloadEncs := 0
	for _, c := range calls {
		if !seenKey[c.KeyFp] {
			seenKey[c.KeyFp] = true
			opKeys = append(opKeys, w.AEAD.KeyBytes[c.KeyFp])
		}
		if c.Op != "Encrypt" {
			continue
		}
		if c.Err != "" {
			fail(t, w, "AEAD encryption failed: %s", c.Err)
		}
		// (b) key/nonce uniqueness, 12-byte nonce, 16-byte tag
		if c.OutLen != c.PlainLen+28 || len(c.Nonce) != 24 {
			fail(t, w, "AEAD output of %d bytes for %d bytes of plaintext (expected +16 tag +12 nonce)", c.OutLen, c.PlainLen)
		}
		pk := c.KeyFp + "|" + c.Nonce
		if m.pairs[pk] {
			fail(t, w, "(key, nonce) pair used for two encryptions: key %s nonce %s", c.KeyFp, c.Nonce)
		}
		m.pairs[pk] = true
		if c.KeyLen != 32 {
			fail(t, w, "AEAD encryption under a %d-byte key", c.KeyLen)
		}
		// classify
		switch {
		case ev.Kind == "encrypt" && c.PlainFp == kit.Fp(ev.Rec.Payload) && c.PlainLen == len(ev.Rec.Payload):
			payloadEncs++
			drkFp = c.KeyFp
			if prev, dup := m.payloadKey[c.KeyFp]; dup {
				fail(t, w, "data key %s encrypted the payloads of rec%d and rec%d", c.KeyFp, prev, ev.Rec.ID)
			}
			m.payloadKey[c.KeyFp] = ev.Rec.ID
			if !random[c.KeyFp] {
				fail(t, w, "payload of rec%d encrypted under key %s that the secret factory's CreateRandom did not produce in this call", ev.Rec.ID, c.KeyFp)
			}
			if m.roleIK[c.KeyFp] || m.roleSK[c.KeyFp] {
				fail(t, w, "payload of rec%d encrypted directly under an intermediate or system key", ev.Rec.ID)
			}
			m.drk[c.KeyFp] = true
		case ev.Kind == "encrypt" && drkFp != "" && c.PlainFp == drkFp && c.PlainLen == 32:
			want := m.ikFp[fmt.Sprintf("%s@%d", ev.Rec.IKID, ev.Rec.IKCreated)]
			if want == "" {
				fail(t, w, "rec%d names IK (%s,%d) that is not in the store", ev.Rec.ID, ev.Rec.IKID, ev.Rec.IKCreated)
			}
			if ev.Rec.IKID != w.IKID(ev.Partition) {
				fail(t, w, "rec%d of partition %q names key id %q, expected %q", ev.Rec.ID, ev.Partition, ev.Rec.IKID, w.IKID(ev.Partition))
			}
			if c.KeyFp != want {
				fail(t, w, "data key of rec%d wrapped under key %s, but the IK named in its ParentKeyMeta is %s", ev.Rec.ID, c.KeyFp, want)
			}
			m.perIK[want]++
		case random[c.PlainFp] && c.PlainLen == 32 && m.roleIK[c.PlainFp]:
			// a new IK being wrapped: the key must be the SK its stored row names (refKeys verified the row opens under it)
			if !m.roleSK[c.KeyFp] {
				fail(t, w, "intermediate key %s wrapped under %s which is not a system key", c.PlainFp, c.KeyFp)
			}
		case random[c.PlainFp] && c.PlainLen == 32 && !m.drk[c.PlainFp]:
			// an IK that was generated and wrapped but lost the insert race (discarded): still must be under an SK
			if !m.roleSK[c.KeyFp] {
				fail(t, w, "freshly generated key %s wrapped under %s which is not a system key", c.PlainFp, c.KeyFp)
			}
		default:
			fail(t, w, "unexpected AEAD encryption in %s: plaintext %s (%d bytes) under key %s - not payload-under-DRK, DRK-under-IK or IK-under-SK", ev.Kind, c.PlainFp, c.PlainLen, c.KeyFp)
		}
		if m.roleSK[c.PlainFp] {
			fail(t, w, "a system key was given to the AEAD as plaintext (system keys may only be wrapped by the KMS)")
		}
	}
	if ev.Kind == "encrypt" && payloadEncs != 1 {
		fail(t, w, "encrypt of rec%d performed %d payload encryptions", ev.Rec.ID, payloadEncs)
	}
	// no key plays two roles (checked for the keys this operation touched)
	for fp := range seenKey {
		n := 0
		for _, r := range []bool{m.drk[fp], m.roleIK[fp], m.roleSK[fp]} {
			if r {
				n++
			}
		}
		if n > 1 {
			fail(t, w, "key %s plays two roles (data=%v intermediate=%v system=%v)", fp, m.drk[fp], m.roleIK[fp], m.roleSK[fp])
		}
	}
	// SKs reach the KMS only through EncryptKey: every EncryptKey argument must be a CreateRandom product of this op
	for _, c := range w.Log.Calls[ev.CallFrom:ev.CallTo] {
		if c.Target == "kms" && c.Op == "EncryptKey" && c.OK && !random[c.ID] {
			fail(t, w, "KMS.EncryptKey received bytes %s that are not a key freshly generated in this call", c.ID)
		}
	}
	// (d) leak scan: every plaintext key seen so far in this history and every payload
	// marker vs everything this operation emitted (record, rows written, log lines)
	for _, k := range opKeys {
		m.scan.Add(k, "key "+kit.Fp(k))
	}
	for _, k := range w.KMS.SKBytes {
		m.scan.Add(k, "system key "+kit.Fp(k))
	}
	var hay [][]byte
	if ev.Kind == "encrypt" {
		if len(ev.Rec.Payload) >= 24 {
			m.scan.Add(ev.Rec.Payload[:24], fmt.Sprintf("payload marker of rec%d", ev.Rec.ID))
		}
		hay = append(hay, ev.Rec.JSON, ev.Rec.DRR.Data, ev.Rec.DRR.Key.EncryptedKey)
	}
	if ev.Kind == "decrypt" && ev.Detail == "RECORD-MODIFIED" && ev.ArgAfter != nil && ev.ArgAfter.Key != nil {
		// the data row record the caller passed in is still a data row record afterwards (an untouched one was scanned when it was produced)
		hay = append(hay, ev.ArgAfter.Data, ev.ArgAfter.Key.EncryptedKey)
	}
	for _, c := range w.Log.Calls[ev.CallFrom:ev.CallTo] {
		if c.Target == "store" && c.Op == "Store" && c.OK {
			if r := w.Store.Get(c.ID, c.Created); r != nil {
				hay = append(hay, r.Rec.EncryptedKey, []byte(r.Snapshot))
			}
		}
	}
	hay = append(hay, lines...)
	for _, h := range hay {
		if what, enc := m.scan.Find(h); what != "" {
			fail(t, w, "plaintext %s appears (%s) in output of %s: %.120q", what, enc, ev.Kind, h)
		}
	}
	reqs := w.KMS.Requests
	for _, req := range reqs[m.reqSeen:] {
		for _, k := range opKeys {
			if bytes.Contains(req, k) {
				fail(t, w, "plaintext key %s appears in a KMS request", kit.Fp(k))
			}
		}
	}
	m.reqSeen = len(reqs)
	kit.Rec.LabelN("aead-encryptions-checked", int64(len(calls)))
}

// finalScan: every key ever used and every payload marker against every record and every stored row.
func (m *mon) finalScan() {
	w := m.w
	var hay bytes.Buffer
	for _, r := range w.Recs {
		hay.Write(r.JSON)
		hay.WriteByte('\n')
		hay.Write(r.DRR.Data)
		hay.Write(r.DRR.Key.EncryptedKey)
	}
	for _, r := range w.Store.Rows() {
		hay.Write(r.Rec.EncryptedKey)
		hay.WriteString(r.Snapshot)
	}
	h := hay.Bytes()
	if what, enc := m.scan.Find(h); what != "" {
		fail(m.t, w, "plaintext %s appears (%s) in a returned record or stored row", what, enc)
	}
	kit.Rec.AddExtra("secrets_scanned_for", int64(m.scan.Len()))
}
