package c04

import (
	"testing"
	"time"

	"github.com/godaddy/asherah/go/appencryption"
	"pgregory.net/rapid"
	"verif/kit"
	"verif/world"
)

// TestKnownDecryptRefresh replays the listed open finding
// C04/decrypt-refresh-hides-parent-expiry deterministically (never fails).
func TestKnownDecryptRefresh(t *testing.T) {
	if !kit.KnownOpen("C04", "decrypt-refresh-hides-parent-expiry") {
		t.Skip("not listed as open")
	}
	kit.Scripted(t, func(rt *rapid.T) {
		pol := func(*rapid.T) *appencryption.CryptoPolicy {
			p := appencryption.NewCryptoPolicy()
			p.ExpireKeyAfter, p.RevokeCheckInterval, p.CreateDatePrecision = 10*time.Minute, 10*time.Second, 0
			p.SharedIntermediateKeyCache = true
			return p
		}
		w := world.New(rt, world.Options{MaxProcs: 1, SimpleIDs: true, Partitions: 2, FixedPolicy: pol, SmallPayloads: true})
		defer w.Teardown()
		p := w.Procs[0]
		// the SK is created by a first encrypt on another partition; the IK of partition 1 is created 5 minutes later
		s0 := w.Open(p, w.Parts[0])
		w.Encrypt(s0, []byte("x"), false, true)
		w.Advance(5 * time.Minute)
		s := w.Open(p, w.Parts[1])
		_, rec0 := w.Encrypt(s, []byte("x"), false, true)
		// SK expires at +10m; go to +10m25s: more than one interval after the SK expired, IK still young
		w.Advance(5*time.Minute + 25*time.Second)
		w.Decrypt(s, rec0, false, false)
		ev, rec1 := w.Encrypt(s, []byte("y"), false, false)
		if rec1 == nil {
			rt.Fatalf("encrypt failed: %v", ev.Err)
		}
		f := w.Facts(ev)
		if f.SKExpired && f.T.After(f.SKExpiredAt.Add(10*time.Second)) {
			kit.Rec.Known("decrypt-refresh-hides-parent-expiry", "encrypt; advance past SK expiry + interval; decrypt on the same IK cache; the next encrypt within one interval still uses the IK under the expired SK")
		}
	})
}
