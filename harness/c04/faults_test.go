package c04

import (
	"fmt"
	"strings"
	"testing"
	"time"

	"pgregory.net/rapid"
	"verif/kit"
	"verif/world"
)

// TestExpiryUnderReadFaults: the property is conditional on the metastore accepting
// writes, not on reads or the KMS working. In the states where keys have expired,
// every metastore read and every KMS call of the encrypt is failed in turn (single
// faults and pairs); a record that is returned all the same must still obey the
// expiry clauses.
func TestExpiryUnderReadFaults(t *testing.T) {
	kit.Check(t, 150, 1600, func(t *rapid.T) {
		sc := world.DrawScenario(t, []string{"expired", "expired", "stale", "warm-fresh", "ext-rotated"})
		clone := func(faults ...world.FaultAt) *world.FaultScenario {
			c := *sc
			c.Faults = faults
			return &c
		}
		seq := runExpiry(t, clone())
		for i, c := range seq {
			if c.Target == "store" && c.Op == "Store" {
				continue
			}
			f := world.FaultAt{Target: "ext", Rel: i, Kind: kit.FaultError}
			seq2 := runExpiry(t, clone(f))
			for j := i + 1; j < len(seq2); j++ {
				if seq2[j].Target == "store" && seq2[j].Op == "Store" {
					continue
				}
				runExpiry(t, clone(f, world.FaultAt{Target: "ext", Rel: j, Kind: kit.FaultError}))
			}
		}
	})
}

func runExpiry(t *rapid.T, sc *world.FaultScenario) []kit.Call {
	ev := sc.Exec(t, func(sc *world.FaultScenario) *world.Event {
		e, _ := sc.W.Encrypt(sc.Sess, []byte("x"), false, false)
		return e
	})
	w := sc.W
	defer w.Teardown()
	calls := sc.OpCalls()
	pol := sc.Fixed.Policies[0]
	bad := func(format string, args ...any) {
		msg := fmt.Sprintf(format, args...)
		kit.Rec.Violation(msg)
		t.Fatalf("C04 violated: %s\n  scenario: %s\n  calls: %v\n%s", msg, sc.Describe(), calls, w.Describe())
	}
	now := time.Unix(0, ev.At)
	check := func(e *world.Event, when string) {
		if e.Rec == nil {
			return
		}
		f := w.Facts(e)
		if f.IK == nil || f.SK == nil {
			bad("%s: record names keys that are not in the metastore", when)
		}
		if f.IKExpired {
			bad("%s: record produced at %d names IK created %d, older than ExpireKeyAfter %s", when, now.Unix(), f.IK.Created, pol.ExpireKeyAfter)
		}
		for _, c := range w.Log.Calls[e.CallFrom:e.CallTo] {
			if c.Target == "store" && c.Op == "Store" && c.OK && strings.HasPrefix(c.ID, "_IK_") {
				row := w.Store.Get(c.ID, c.Created)
				sk := w.Store.Get(row.Rec.ParentKeyMeta.ID, row.Rec.ParentKeyMeta.Created)
				if sk == nil || time.Unix(0, e.At).After(time.Unix(sk.Created, 0).Add(pol.ExpireKeyAfter)) {
					bad("%s: IK row (%s,%d) created under an SK that is missing or expired", when, c.ID, c.Created)
				}
			}
		}
	}
	check(ev, fmt.Sprintf("under read faults %v", sc.Faults))
	ev2, _ := w.Encrypt(sc.Sess, []byte("y"), false, false)
	if ev2.Err != nil {
		bad("after the faults stopped the next encrypt fails: %v", ev2.Err)
	}
	check(ev2, "after the faults stopped")
	outcome := "error"
	if ev.Rec != nil {
		outcome = "record"
	}
	kit.Rec.Case(fmt.Sprintf("readfault|%s|%s|%v|%s", sc.State, world.CacheClass(pol), sc.Faults, outcome), sc.AnyFired() && (sc.State == "expired"), nil)
	kit.Rec.Label("readfault:" + sc.State + ":" + outcome)
	return calls
}
