package c04

import (
	"testing"
	"time"

	"github.com/godaddy/asherah/go/appencryption"
	"pgregory.net/rapid"
	"verif/kit"
	"verif/world"
)

// TestRegressSessionLeavesIKOfExpiredSK: the shrunk history of the fixed defect
// "load-merges-newer-key-into-old-entry" for clause (c), as a plain scenario.
func TestRegressSessionLeavesIKOfExpiredSK(t *testing.T) {
	kit.Scripted(t, func(rt *rapid.T) {
		pol := func(*rapid.T) *appencryption.CryptoPolicy {
			p := appencryption.NewCryptoPolicy()
			p.ExpireKeyAfter, p.RevokeCheckInterval, p.CreateDatePrecision = 10*time.Minute, 10*time.Second, 0
			return p
		}
		w := world.New(rt, world.Options{MaxProcs: 1, SimpleIDs: true, Partitions: 2, FixedPolicy: pol, SmallPayloads: true})
		defer w.Teardown()
		p := w.Procs[0]
		s0 := w.Open(p, w.Parts[0])
		w.Encrypt(s0, []byte("x"), false, true) // creates the SK
		w.Advance(5 * time.Minute)
		s := w.Open(p, w.Parts[1])
		w.Encrypt(s, []byte("x"), false, true) // IK of partition 1, five minutes younger than the SK
		w.Advance(5*time.Minute + 25*time.Second)
		ev, rec := w.Encrypt(s, []byte("y"), false, false)
		if rec == nil {
			rt.Fatalf("encrypt failed: %v", ev.Err)
		}
		if f := w.Facts(ev); f.SKExpired {
			kit.Rec.Violation("regression: session keeps using an IK whose SK expired")
			rt.Fatalf("C04 violated: 25 s after the SK expired (interval 10 s) the session still names IK created %d under the expired SK created %d\n%s", f.IK.Created, f.SK.Created, w.Describe())
		}
		kit.Rec.Case("regress-sk-expired", true, nil)
	})
}
