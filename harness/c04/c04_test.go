// Package c04: expired keys are never used to protect new data (inline rotation).
package c04

import (
	"fmt"
	"sort"
	"strings"
	"testing"
	"time"

	"pgregory.net/rapid"
	"verif/backing"
	"verif/kit"
	"verif/world"
)

func TestMain(m *testing.M) {
	// lifetimes are elapsed time: the process runs in a zone whose UTC offset changes every seven hours, so any
	// wall-clock arithmetic on creation stamps is off by an hour across most day-long (and longer) lifetimes
	time.Local = kit.WobblyZone()
	kit.Main(m, "C04", "exploration",
		"rapid state machine over the real SDK with a virtual clock, the process's local time zone changing its UTC offset every seven hours; clock steps concentrated on created+ExpireKeyAfter -/+ 1s of IK and SK and on the revoke-check boundary; long-lived and fresh sessions, every cache layout, 1-2 processes. "+
			"Oracle per successful encrypt at virtual time t: the named IK is in the store and not older than ExpireKeyAfter; every IK row written in the call names an SK that is in the store and unexpired at t; "+
			"an IK whose SK expired at e is not used once t > e + RevokeCheckInterval (immediately without key caching). One evaluation = one history. "+
			"Non-trivial = an encrypt after the clock crossed the expiry of the IK or SK used by an earlier record of the same process and partition; distinct = distinct sets of (crossing kind, held/fresh session, cache class) in a history",
		"virtual clock injected by build overlay; the clock does not move inside a call", "CreateDatePrecision < ExpireKeyAfter (every documented configuration)", "the metastore accepts writes (no faults here; faults are C02)")
}

var weights = map[string]int{"encrypt": 10, "decrypt": 2, "open": 1, "close": 1, "restart": 1, "advance": 8, "revoke": 0, "rotate": 1, "pressure": 1, "oldThenNew": 3, "skExpiresBeforeIK": 2}

func TestWorld(t *testing.T) {
	kit.Steps(kit.Pick(40, 60))
	kit.Check(t, 2500, 96000, func(t *rapid.T) { runHistory(t) })
}

type last struct {
	ikCreated int64
	skCreated int64
	at        int64
	sess      int
}

func runHistory(t *rapid.T) {
	opts := world.Options{MaxProcs: 2, SmallPayloads: true, NoRetainAEAD: true, HomogeneousTime: true}
	defer backing.Use(t, &opts, 25)()
	w := world.New(t, opts)
	defer w.Teardown()
	shapes := map[string]bool{}
	prev := map[string]*last{} // proc/partition -> last record
	w.OnOp = func(ev *world.Event) { monitor(t, w, ev, shapes, prev) }
	acts := w.Actions()
	// a compound history that random interleaving reaches too rarely: a partition's IK is YOUNGER
	// than the system key, the system key expires first, the long-lived session rotates as it
	// must, later decrypts a record of the old IK and encrypts again
	acts["skExpiresBeforeIK"] = func(t *rapid.T) {
		p := w.PickProc("proc")
		pol := p.Policy
		if len(w.Parts) < 2 {
			t.Skip("one partition only")
		}
		a, b := w.Parts[0], w.Parts[1]
		sa, fresh := w.SessionFor(p, a, true)
		w.Encrypt(sa, []byte("brings the SK into existence"), false, fresh)
		sk := w.Store.Latest(w.SKID())
		if sk == nil {
			t.Skip("no system key")
		}
		expiresAt := time.Unix(sk.Created, 0).Add(pol.ExpireKeyAfter)
		left := expiresAt.Sub(time.Unix(0, w.Now()))
		if left > 2*time.Second {
			w.Advance(time.Duration(rapid.Int64Range(int64(time.Second), int64(left-time.Second)).Draw(t, "ikLater")))
		}
		sb, fresh := w.SessionFor(p, b, true)
		_, first := w.Encrypt(sb, []byte("under an IK younger than its SK"), false, fresh)
		if first == nil {
			return
		}
		if left = expiresAt.Sub(time.Unix(0, w.Now())); left > 0 {
			w.Advance(left + time.Second)
		}
		w.Encrypt(sb, []byte("the SK has just expired"), false, false)
		if rapid.Bool().Draw(t, "busySession") && pol.RevokeCheckInterval >= 3*time.Second {
			// a busy session: encrypts spaced closer than the revoke-check interval, well past the bound
			for k := 0; k < 7; k++ {
				w.Advance(pol.RevokeCheckInterval / 3)
				w.Encrypt(sb, []byte("busy"), false, false)
			}
		}
		w.Advance(pol.RevokeCheckInterval + pol.CreateDatePrecision + time.Second)
		w.Encrypt(sb, []byte("one interval later"), false, false)
		w.Decrypt(sb, first, false, false)
		w.Encrypt(sb, []byte("after decrypting a record of the old IK"), false, false)
	}
	t.Repeat(kit.Weighted(acts, weights, nil))
	var ss []string
	for s := range shapes {
		ss = append(ss, s)
	}
	sort.Strings(ss)
	kit.Rec.Case(strings.Join(ss, ";"), len(ss) > 0, func() any {
		var procs []string
		for _, p := range w.Procs {
			procs = append(procs, p.Name+": "+world.PolicyString(p.Policy))
		}
		return map[string]any{"procs": procs, "history": w.History(), "crossings": ss}
	})
}

func fail(t *rapid.T, w *world.World, format string, args ...any) {
	msg := fmt.Sprintf(format, args...)
	kit.Rec.Violation(msg)
	t.Fatalf("C04 violated: %s\n%s", msg, w.Describe())
}

func monitor(t *rapid.T, w *world.World, ev *world.Event, shapes map[string]bool, prev map[string]*last) {
	if ev.Kind == "restart" {
		for k := range prev {
			if strings.HasPrefix(k, ev.Proc.Name+"/") {
				delete(prev, k)
			}
		}
	}
	if ev.Kind != "encrypt" {
		return
	}
	if ev.Err != nil || ev.Rec == nil {
		fail(t, w, "encrypt failed in a fault-free history: %v", ev.Err)
	}
	pol := ev.Proc.Policy
	f := w.Facts(ev)
	now := f.T
	// (d) the key used is in the store, and so is its parent
	if f.IK == nil {
		fail(t, w, "rec%d names IK (%s,%d) which is not in the metastore", ev.Rec.ID, ev.Rec.IKID, ev.Rec.IKCreated)
	}
	if f.SK == nil {
		fail(t, w, "rec%d names IK (%s,%d) whose parent SK is not in the metastore", ev.Rec.ID, ev.Rec.IKID, ev.Rec.IKCreated)
	}
	// (a) never an expired IK
	if f.IKExpired {
		fail(t, w, "rec%d produced at %d names IK created %d: age %s exceeds ExpireKeyAfter %s", ev.Rec.ID, now.Unix(), f.IK.Created, now.Sub(time.Unix(f.IK.Created, 0)), pol.ExpireKeyAfter)
	}
	// (b) no IK is created under an expired SK
	for _, c := range w.Log.Calls[ev.CallFrom:ev.CallTo] {
		if c.Target != "store" || c.Op != "Store" || !c.OK || !strings.HasPrefix(c.ID, "_IK_") {
			continue
		}
		row := w.Store.Get(c.ID, c.Created)
		if row == nil || row.Rec.ParentKeyMeta == nil {
			fail(t, w, "IK row (%s,%d) written without parent meta", c.ID, c.Created)
		}
		sk := w.Store.Get(row.Rec.ParentKeyMeta.ID, row.Rec.ParentKeyMeta.Created)
		if sk == nil {
			fail(t, w, "IK row (%s,%d) written under SK (%s,%d) that is not in the metastore", c.ID, c.Created, row.Rec.ParentKeyMeta.ID, row.Rec.ParentKeyMeta.Created)
		}
		if now.After(time.Unix(sk.Created, 0).Add(pol.ExpireKeyAfter)) {
			fail(t, w, "IK row (%s,%d) created at %d under SK created %d, which is expired (lifetime %s)", c.ID, c.Created, now.Unix(), sk.Created, pol.ExpireKeyAfter)
		}
		kit.Rec.Label("ik-created")
	}
	// (c) an IK whose SK expired stops being used within one revoke-check interval
	if f.SKExpired {
		bound := pol.RevokeCheckInterval
		if !f.KeyCaching {
			bound = 0
		}
		if now.After(f.SKExpiredAt.Add(bound)) && w.LaterStampSince(ev, bound, f.IK.Created, f.SK.Created) {
			if o := w.RefreshedByDecrypt(ev, f.IK.ID, f.IK.Created, now.Add(-pol.RevokeCheckInterval).UnixNano()-1); o != nil && !w.NewerKnownToCache(ev, f.IK.ID, f.IK.Created) && kit.KnownOpen("C04", "decrypt-refresh-hides-parent-expiry") {
				kit.Rec.Known("decrypt-refresh-hides-parent-expiry", "a decrypt that re-reads a stale cached IK renews the cache entry without validating its parent SK, so the next encrypts keep using an IK whose SK has expired")
			} else {
				fail(t, w, "rec%d produced at %d names IK created %d whose SK (created %d) expired at %d, more than the revoke-check interval %s ago", ev.Rec.ID, now.Unix(), f.IK.Created, f.SK.Created, f.SKExpiredAt.Unix(), bound)
			}
		}
		kit.Rec.Label("encrypt-under-expired-sk-within-bound")
	}
	// classification
	key := ev.Proc.Name + "/" + ev.Partition
	if p := prev[key]; p != nil {
		var kinds []string
		was := time.Unix(0, p.at)
		ikExp := time.Unix(p.ikCreated, 0).Add(pol.ExpireKeyAfter)
		skExp := time.Unix(p.skCreated, 0).Add(pol.ExpireKeyAfter)
		if !was.After(ikExp) && now.After(ikExp) {
			kinds = append(kinds, "crossed-ik-expiry")
		}
		if !was.After(skExp) && now.After(skExp) {
			kinds = append(kinds, "crossed-sk-expiry")
		}
		if len(kinds) > 0 {
			held := "fresh"
			if p.sess == ev.Sess.ID {
				held = "held"
			}
			s := strings.Join(kinds, "+") + "|" + held + "|" + world.CacheClass(pol)
			shapes[s] = true
			for _, k := range kinds {
				kit.Rec.Label(k + ":" + held)
			}
		}
	}
	prev[key] = &last{ikCreated: f.IK.Created, skCreated: f.SK.Created, at: ev.At, sess: ev.Sess.ID}
}
