package c19

import (
	"context"
	"net"
	"testing"
	"time"

	pb "github.com/godaddy/asherah/server/go/api"
	"google.golang.org/grpc"
	"google.golang.org/grpc/credentials/insecure"
	"google.golang.org/grpc/test/bufconn"
	"pgregory.net/rapid"
	"verif/kit"
)

// TestRealGRPC drives a sample of sequences through a real gRPC server and client
// over an in-memory connection, to confirm that the in-memory stream is faithful
// (in particular: a nil response is delivered as one empty message).
func TestRealGRPC(t *testing.T) {
	svc := newRealService()
	p := &pool{recs: map[string][]genuine{}}
	if err := seed(svc, p); err != nil {
		t.Fatalf("seed: %v", err)
	}
	lis := bufconn.Listen(1 << 20)
	srv := grpc.NewServer()
	pb.RegisterAppEncryptionServer(srv, svc.app)
	go srv.Serve(lis)
	defer srv.Stop()
	conn, err := grpc.NewClient("passthrough:///bufnet", grpc.WithContextDialer(func(context.Context, string) (net.Conn, error) { return lis.Dial() }),
		grpc.WithTransportCredentials(insecure.NewCredentials()))
	if err != nil {
		t.Fatalf("dial: %v", err)
	}
	defer conn.Close()
	client := pb.NewAppEncryptionClient(conn)
	kit.Check(t, 60, 3200, func(rt *rapid.T) {
		seq := drawSeq(rt, 12)
		salt := rapid.IntRange(0, 1<<20).Draw(rt, "salt")
		cctx, cancel := context.WithTimeout(context.Background(), 30*time.Second)
		defer cancel()
		stream, err := client.Session(cctx)
		if err != nil {
			rt.Fatalf("open stream: %v", err)
		}
		r := &runner{svc: svc, pool: p}
		for i, e := range seq {
			req, payload := r.request(e, salt)
			if err := stream.Send(req); err != nil {
				failSeq(rt, "real gRPC", seq, "send failed: "+err.Error())
			}
			resp, err := stream.Recv()
			if err != nil {
				failSeq(rt, "real gRPC", seq[:i+1], "no response to request: "+err.Error())
			}
			if msg := r.judge(e, resp, payload); msg != "" {
				failSeq(rt, "real gRPC", seq[:i+1], msg)
			}
		}
		if err := stream.CloseSend(); err != nil {
			rt.Fatalf("CloseSend: %v", err)
		}
		if _, err := stream.Recv(); err == nil {
			failSeq(rt, "real gRPC", seq, "an extra response arrived after the client closed the stream")
		} else if err.Error() != "EOF" {
			failSeq(rt, "real gRPC", seq, "the stream ended with an error instead of EOF: "+err.Error())
		}
		kit.Rec.Case("grpc|"+seqString(seq), nontrivial(seq), nil)
	})
}
