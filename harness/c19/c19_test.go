// Package c19: gRPC sidecar - one reply per request, protocol enforced, no request can crash it.
package c19

import (
	"os"

	"bytes"
	"context"
	"fmt"
	flags "github.com/jessevdk/go-flags"
	"io"
	"log"
	"strings"
	"sync"
	"sync/atomic"
	"testing"
	"time"

	"github.com/godaddy/asherah/go/appencryption"
	"github.com/godaddy/asherah/go/appencryption/pkg/crypto/aead"
	"github.com/godaddy/asherah/go/appencryption/pkg/kms"
	"github.com/godaddy/asherah/go/appencryption/pkg/persistence"
	pb "github.com/godaddy/asherah/server/go/api"
	"github.com/godaddy/asherah/server/go/pkg/server"
	"google.golang.org/grpc/metadata"
	"pgregory.net/rapid"
	"verif/kit"
)

func TestMain(m *testing.M) {
	log.SetOutput(io.Discard)
	kit.Main(m, "C19", "exploration",
		"request sequences over {get-session valid (2 partitions), get-session with empty id, encrypt (empty / non-empty data), decrypt genuine (a record produced earlier on this or another stream for the partition), decrypt foreign-partition, decrypt corrupt, decrypt with empty record, empty request (no oneof), end of stream}: "+
			"EXHAUSTIVE up to length 4 (thorough 5) through an in-memory AppEncryption_SessionServer against a sidecar built with the real NewAppEncryption (memory metastore, static KMS), rapid sequences up to length 40 on 1-8 concurrent streams sharing one AppEncryption, 2-16 streams whose get-sessions hit a FRESHLY built NewAppEncryption in parallel (every record they are given must decrypt on a later stream of its partition and on no other), a rapid state machine of streams opened / used / left open / ended among short complete streams of the same and other partitions with the sidecar's session cache off or on with 1-4 slots (a stream that completed get-session keeps round-tripping until the client ends it), 4-16 goroutines each running 5-30 complete streams for partitions the process has never seen, one stream carrying 140-700 operations, pairs of streams whose partition ids differ only in control characters / case / blanks (two partitions: each is refused the other's records), the sidecar's crypto policy built from generated values of the documented ASHERAH_* environment variables (each value lands in its own option), "+
			"a second service built around a harness-owned SessionFactory for the SDK differential (records produced by the stream decrypt through an SDK session and vice versa), a sample through real gRPC over bufconn, and a native fuzz target (thorough). "+
			"Oracle: a three-state protocol model (no session / get-session rejected / session open): exactly one Send per received request, in order; encrypt/decrypt before a successful get-session and a second get-session get error responses; with a session open encrypt returns a record that decrypts to the data, decrypt of a genuine record returns its payload, foreign / corrupt / empty records get error responses; Session returns nil at end of stream without panicking in every state. "+
			"One evaluation = one sequence on one stream. Non-trivial = contains a rejected or repeated get-session or a decrypt of a non-genuine record followed by at least one more event; enumerated sequences are distinct by construction",
		"the reply to an empty request (no oneof) may be anything (real gRPC delivers a typed-nil as an empty message)", "a get-session after a rejected one may be refused or accepted")
}

var ctx = context.Background()

// ---- in-memory stream --------------------------------------------------------------

type memStream struct {
	ctx           context.Context
	reqs          []*pb.SessionRequest
	i             int
	sent          []*pb.SessionResponse
	sentAfterRecv []int // number of Recv calls completed when each Send happened
	mu            sync.Mutex
	// interactive mode: the driver feeds requests one at a time
	feed chan *pb.SessionRequest
	out  chan *pb.SessionResponse
}

func (s *memStream) SetHeader(metadata.MD) error  { return nil }
func (s *memStream) SendHeader(metadata.MD) error { return nil }
func (s *memStream) SetTrailer(metadata.MD)       {}
func (s *memStream) Context() context.Context     { return s.ctx }
func (s *memStream) SendMsg(m interface{}) error  { return s.Send(m.(*pb.SessionResponse)) }
func (s *memStream) RecvMsg(m interface{}) error  { return fmt.Errorf("RecvMsg not supported") }

func (s *memStream) Recv() (*pb.SessionRequest, error) {
	if s.feed != nil {
		r, ok := <-s.feed
		if !ok {
			return nil, io.EOF
		}
		s.mu.Lock()
		s.i++
		s.mu.Unlock()
		return r, nil
	}
	if s.i >= len(s.reqs) {
		return nil, io.EOF
	}
	r := s.reqs[s.i]
	s.i++
	return r, nil
}

func (s *memStream) Send(r *pb.SessionResponse) error {
	s.mu.Lock()
	s.sent = append(s.sent, r)
	s.sentAfterRecv = append(s.sentAfterRecv, s.i)
	s.mu.Unlock()
	if s.out != nil {
		s.out <- r
	}
	return nil
}

// ---- service under test ---------------------------------------------------------------

type service struct {
	app   *server.AppEncryption
	sdk   *appencryption.SessionFactory // nil for the NewAppEncryption flavour
	close func()
}

func newRealService() *service {
	app := server.NewAppEncryption(&server.Options{ServiceName: "svc", ProductID: "prod", Metastore: "memory", KMS: "static",
		ExpireAfter: 24 * time.Hour, CheckInterval: time.Hour})
	return &service{app: app, close: func() {}}
}

func newHarnessService(sessionCache bool) *service {
	k, err := kms.NewStatic("thisIsAStaticMasterKeyForTesting", aead.NewAES256GCM())
	if err != nil {
		panic(err)
	}
	store := persistence.NewMemoryMetastore()
	mk := func() *appencryption.SessionFactory {
		pol := appencryption.NewCryptoPolicy()
		if sessionCache {
			pol.CacheSessions = true
			pol.SessionCacheMaxSize = 2
		}
		return appencryption.NewSessionFactory(&appencryption.Config{Service: "svc", Product: "prod", Policy: pol}, store, k, aead.NewAES256GCM())
	}
	sf := mk()
	sdk := mk()
	return &service{app: server.VerifNewAppEncryption(sf), sdk: sdk, close: func() { sf.Close(); sdk.Close(); k.Close() }}
}

// ---- events ------------------------------------------------------------------------------

type evKind int

const (
	evGSa evKind = iota
	evGSb
	evGSempty
	evEnc
	evEncEmpty
	evDecGenuine
	evDecForeign
	evDecCorrupt
	evDecEmptyRecord
	evDecNilKey
	evEmptyRequest
	numEvents
)

var evNames = []string{"get-session(A)", "get-session(B)", "get-session(\"\")", "encrypt", "encrypt(empty)", "decrypt(genuine)", "decrypt(foreign)", "decrypt(corrupt)", "decrypt(empty-record)", "decrypt(no-key)", "empty-request"}

func seqString(seq []evKind) string {
	var s []string
	for _, e := range seq {
		s = append(s, evNames[e])
	}
	return strings.Join(s, ", ")
}

const partA, partB = "partition-A", "partition-B"

type pool struct {
	mu   sync.Mutex
	recs map[string][]genuine // partition -> records
}

type genuine struct {
	drr     *pb.DataRowRecord
	payload []byte
}

func (p *pool) get(part string, i int) (genuine, bool) {
	p.mu.Lock()
	defer p.mu.Unlock()
	l := p.recs[part]
	if len(l) == 0 {
		return genuine{}, false
	}
	return l[i%len(l)], true
}

func (p *pool) add(part string, g genuine) {
	p.mu.Lock()
	p.recs[part] = append(p.recs[part], g)
	p.mu.Unlock()
}

func cloneDRR(d *pb.DataRowRecord) *pb.DataRowRecord {
	if d == nil {
		return nil
	}
	r := &pb.DataRowRecord{Data: append([]byte(nil), d.Data...)}
	if d.Key != nil {
		r.Key = &pb.EnvelopeKeyRecord{Created: d.Key.Created, Key: append([]byte(nil), d.Key.Key...)}
		if d.Key.ParentKeyMeta != nil {
			r.Key.ParentKeyMeta = &pb.KeyMeta{Created: d.Key.ParentKeyMeta.Created, KeyId: d.Key.ParentKeyMeta.KeyId}
		}
	}
	return r
}

// seed produces genuine records for both partitions through the service itself.
func seed(svc *service, p *pool) error {
	for _, part := range []string{partA, partB} {
		st := &memStream{ctx: ctx, reqs: []*pb.SessionRequest{
			{Request: &pb.SessionRequest_GetSession{GetSession: &pb.GetSession{PartitionId: part}}},
			{Request: &pb.SessionRequest_Encrypt{Encrypt: &pb.Encrypt{Data: []byte("seed-" + part)}}},
			{Request: &pb.SessionRequest_Encrypt{Encrypt: &pb.Encrypt{Data: []byte{}}}},
		}}
		if err := svc.app.Session(st); err != nil {
			return err
		}
		if len(st.sent) != 3 || st.sent[1].GetEncryptResponse() == nil || st.sent[2].GetEncryptResponse() == nil {
			return fmt.Errorf("seeding failed: responses %v", st.sent)
		}
		p.add(part, genuine{st.sent[1].GetEncryptResponse().GetDataRowRecord(), []byte("seed-" + part)})
		p.add(part, genuine{st.sent[2].GetEncryptResponse().GetDataRowRecord(), []byte{}})
	}
	return nil
}

// ---- model -----------------------------------------------------------------------------------

type state int

const (
	stNone state = iota
	stRejected
	stOpen
)

type runner struct {
	svc            *service
	pool           *pool
	state          state
	part           string
	n              int
	pendingPayload []byte
}

// request builds the request for an event; want describes what the model expects.
func (r *runner) request(e evKind, salt int) (*pb.SessionRequest, []byte) {
	other := partB
	if r.part == partB {
		other = partA
	}
	mine := r.part
	if mine == "" {
		mine = partA
	}
	switch e {
	case evGSa:
		return &pb.SessionRequest{Request: &pb.SessionRequest_GetSession{GetSession: &pb.GetSession{PartitionId: partA}}}, nil
	case evGSb:
		return &pb.SessionRequest{Request: &pb.SessionRequest_GetSession{GetSession: &pb.GetSession{PartitionId: partB}}}, nil
	case evGSempty:
		return &pb.SessionRequest{Request: &pb.SessionRequest_GetSession{GetSession: &pb.GetSession{PartitionId: ""}}}, nil
	case evEnc:
		data := []byte(fmt.Sprintf("payload-%d-%d", salt, r.n))
		return &pb.SessionRequest{Request: &pb.SessionRequest_Encrypt{Encrypt: &pb.Encrypt{Data: data}}}, data
	case evEncEmpty:
		return &pb.SessionRequest{Request: &pb.SessionRequest_Encrypt{Encrypt: &pb.Encrypt{}}}, []byte{}
	case evDecGenuine:
		g, _ := r.pool.get(mine, salt+r.n)
		return &pb.SessionRequest{Request: &pb.SessionRequest_Decrypt{Decrypt: &pb.Decrypt{DataRowRecord: cloneDRR(g.drr)}}}, g.payload
	case evDecForeign:
		g, _ := r.pool.get(other, salt+r.n)
		return &pb.SessionRequest{Request: &pb.SessionRequest_Decrypt{Decrypt: &pb.Decrypt{DataRowRecord: cloneDRR(g.drr)}}}, nil
	case evDecCorrupt:
		g, _ := r.pool.get(mine, salt+r.n)
		d := cloneDRR(g.drr)
		switch (salt + r.n) % 3 {
		case 0:
			if len(d.Data) > 0 {
				d.Data[len(d.Data)/2] ^= 0x01
			} else {
				d.Data = []byte{1}
			}
		case 1:
			d.Key.Key[len(d.Key.Key)/2] ^= 0x80
		default:
			d.Key.Key = d.Key.Key[:len(d.Key.Key)-1]
		}
		return &pb.SessionRequest{Request: &pb.SessionRequest_Decrypt{Decrypt: &pb.Decrypt{DataRowRecord: d}}}, nil
	case evDecEmptyRecord:
		return &pb.SessionRequest{Request: &pb.SessionRequest_Decrypt{Decrypt: &pb.Decrypt{}}}, nil
	case evDecNilKey:
		return &pb.SessionRequest{Request: &pb.SessionRequest_Decrypt{Decrypt: &pb.Decrypt{DataRowRecord: &pb.DataRowRecord{Data: []byte("x")}}}}, nil
	default:
		return &pb.SessionRequest{}, nil
	}
}

func isErr(r *pb.SessionResponse) bool { return r != nil && r.GetErrorResponse() != nil }

// judge validates one response against the model and advances it. payload is the
// data sent (encrypt) or expected (decrypt genuine).
func (r *runner) judge(e evKind, resp *pb.SessionResponse, payload []byte) string {
	defer func() { r.n++ }()
	switch e {
	case evEmptyRequest:
		return "" // any single reply is acceptable
	case evGSa, evGSb, evGSempty:
		part := map[evKind]string{evGSa: partA, evGSb: partB, evGSempty: ""}[e]
		switch r.state {
		case stOpen:
			if !isErr(resp) {
				return fmt.Sprintf("a second get-session on an initialised stream was answered with %v instead of an error response", resp)
			}
		case stNone, stRejected:
			if part == "" {
				if !isErr(resp) {
					return fmt.Sprintf("get-session with an empty partition id was answered with %v instead of an error response", resp)
				}
				r.state = stRejected
			} else if isErr(resp) {
				if r.state == stNone {
					return fmt.Sprintf("the first get-session(%q) was refused: %s", part, resp.GetErrorResponse().GetMessage())
				}
				// after a rejected get-session both refusing and accepting are tolerated
			} else {
				if resp == nil || resp.GetEncryptResponse() != nil || resp.GetDecryptResponse() != nil {
					return fmt.Sprintf("get-session answered with an unexpected response %v", resp)
				}
				r.state, r.part = stOpen, part
			}
		}
	case evEnc, evEncEmpty:
		if r.state != stOpen {
			if !isErr(resp) {
				return fmt.Sprintf("encrypt before a successful get-session was answered with %v instead of an error response", resp)
			}
			return ""
		}
		er := resp.GetEncryptResponse()
		if er == nil || er.GetDataRowRecord() == nil {
			return fmt.Sprintf("encrypt on an open session was answered with %v", resp)
		}
		d := er.GetDataRowRecord()
		if d.GetKey() == nil || d.GetKey().GetParentKeyMeta() == nil || len(d.GetKey().GetKey()) == 0 {
			return fmt.Sprintf("encrypt returned an incomplete record %v", d)
		}
		if want := "_IK_" + r.part + "_svc_prod"; d.GetKey().GetParentKeyMeta().GetKeyId() != want {
			return fmt.Sprintf("encrypt returned a record whose parent key id is %q, expected %q", d.GetKey().GetParentKeyMeta().GetKeyId(), want)
		}
		// SDK differential: the record decrypts through an SDK session for the partition
		if r.svc.sdk != nil {
			s, err := r.svc.sdk.GetSession(r.part)
			if err != nil {
				return "harness: " + err.Error()
			}
			out, err := s.Decrypt(ctx, appencryption.DataRowRecord{Data: d.Data, Key: &appencryption.EnvelopeKeyRecord{Created: d.Key.Created, EncryptedKey: d.Key.Key,
				ParentKeyMeta: &appencryption.KeyMeta{ID: d.Key.ParentKeyMeta.KeyId, Created: d.Key.ParentKeyMeta.Created}}})
			s.Close()
			if err != nil {
				return fmt.Sprintf("the record returned by the stream does not decrypt through an SDK session for %q: %v", r.part, err)
			}
			if !bytes.Equal(out, payload) {
				return "the record returned by the stream decrypts through the SDK to other bytes than were sent"
			}
		}
		r.pool.add(r.part, genuine{cloneDRR(d), append([]byte{}, payload...)})
	case evDecGenuine:
		if r.state != stOpen {
			if !isErr(resp) {
				return fmt.Sprintf("decrypt before a successful get-session was answered with %v instead of an error response", resp)
			}
			return ""
		}
		dr := resp.GetDecryptResponse()
		if dr == nil {
			return fmt.Sprintf("decrypt of a genuine record of %q was answered with %v", r.part, resp)
		}
		if !bytes.Equal(dr.GetData(), payload) {
			return fmt.Sprintf("decrypt of a genuine record returned %q, expected %q", dr.GetData(), payload)
		}
	case evDecForeign, evDecCorrupt, evDecEmptyRecord, evDecNilKey:
		if !isErr(resp) {
			return fmt.Sprintf("%s in state %d was answered with %v instead of an error response", evNames[e], r.state, resp)
		}
	}
	return ""
}

// runSequence drives one stream interactively and returns a violation or "".
func runSequence(svc *service, p *pool, seq []evKind, salt int) (viol string) {
	st := &memStream{ctx: ctx, feed: make(chan *pb.SessionRequest), out: make(chan *pb.SessionResponse, 4)}
	done := make(chan string, 1)
	go func() {
		defer func() {
			if x := recover(); x != nil {
				done <- fmt.Sprintf("the stream handler panicked: %v", x)
			}
		}()
		if err := svc.app.Session(st); err != nil {
			done <- fmt.Sprintf("Session returned an error at end of stream: %v", err)
			return
		}
		done <- ""
	}()
	r := &runner{svc: svc, pool: p}
	for i, e := range seq {
		req, payload := r.request(e, salt)
		select {
		case st.feed <- req:
		case msg := <-done:
			return fmt.Sprintf("after %d requests: %s (Session ended before the client closed the stream)", i, msg)
		}
		var resp *pb.SessionResponse
		select {
		case resp = <-st.out:
		case msg := <-done:
			if msg == "" {
				msg = "Session returned without answering"
			}
			return fmt.Sprintf("request #%d %s: %s", i, evNames[e], msg)
		case <-time.After(20 * time.Second):
			return fmt.Sprintf("request #%d %s: no response within 20s", i, evNames[e])
		}
		if msg := r.judge(e, resp, payload); msg != "" {
			close(st.feed)
			<-done
			return fmt.Sprintf("request #%d %s: %s", i, evNames[e], msg)
		}
		select {
		case extra := <-st.out:
			return fmt.Sprintf("request #%d %s received a second response %v", i, evNames[e], extra)
		default:
		}
	}
	close(st.feed)
	select {
	case msg := <-done:
		if msg != "" {
			return "at end of stream: " + msg
		}
	case <-time.After(20 * time.Second):
		return "Session did not return after end of stream"
	}
	if len(st.sent) != len(seq) {
		return fmt.Sprintf("%d responses for %d requests", len(st.sent), len(seq))
	}
	return ""
}

func nontrivial(seq []evKind) bool {
	gs := 0
	for i, e := range seq {
		last := i == len(seq)-1
		switch e {
		case evGSa, evGSb:
			gs++
			if gs > 1 && !last {
				return true
			}
		case evGSempty:
			if !last {
				return true
			}
			gs++
		case evDecForeign, evDecCorrupt, evDecEmptyRecord, evDecNilKey:
			if !last {
				return true
			}
		}
	}
	return false
}

func failSeq(t interface{ Fatalf(string, ...any) }, flavour string, seq []evKind, msg string) {
	if strings.Contains(msg, "no response within") || strings.Contains(msg, "did not return after end of stream") {
		// an unanswered request: every further execution against this service would wait for the watchdog too
		kit.Abort(fmt.Sprintf("C19 violated [%s]: %s\n  request sequence: %s, end-of-stream", flavour, msg, seqString(seq)))
	}
	kit.Rec.Violation(msg)
	t.Fatalf("C19 violated [%s]: %s\n  request sequence: %s, end-of-stream", flavour, msg, seqString(seq))
}

func TestExhaustive(t *testing.T) {
	shard, shards := kit.Shard()
	L := kit.Pick(4, 5)
	for _, flavour := range []string{"NewAppEncryption", "harness-factory", "harness-factory+session-cache"} {
		var svc *service
		switch flavour {
		case "NewAppEncryption":
			svc = newRealService()
		case "harness-factory":
			svc = newHarnessService(false)
		default:
			svc = newHarnessService(true)
		}
		p := &pool{recs: map[string][]genuine{}}
		if err := seed(svc, p); err != nil {
			failSeq(t, flavour, nil, "seeding through the service failed: "+err.Error())
		}
		maxLen := L
		if flavour != "NewAppEncryption" {
			maxLen = L - 1
		}
		var total, nt int64
		seq := make([]evKind, 0, maxLen)
		unit := 0
		var rec func()
		rec = func() {
			// every prefix (including the empty sequence: immediate end of stream)
			unit++
			if unit%shards == shard {
				total++
				if nontrivial(seq) {
					nt++
				}
				if msg := runSequence(svc, p, seq, unit); msg != "" {
					failSeq(t, flavour, seq, msg)
				}
				if total%3001 == 0 {
					kit.Rec.Sample(map[string]any{"flavour": flavour, "sequence": seqString(seq) + ", end-of-stream"})
				}
			}
			if len(seq) == maxLen {
				return
			}
			for e := evKind(0); e < numEvents; e++ {
				seq = append(seq, e)
				rec()
				seq = seq[:len(seq)-1]
			}
		}
		rec()
		kit.Rec.Enumerated(total, nt)
		kit.Rec.LabelN("exhaustive:"+flavour, total)
		svc.close()
	}
	kit.Rec.Extra("exhaustive_max_len", L)
}

func drawSeq(t *rapid.T, maxLen int) []evKind {
	n := rapid.IntRange(0, maxLen).Draw(t, "len")
	seq := make([]evKind, n)
	for i := range seq {
		// bias towards an early successful get-session so the open state is exercised at length
		if i == 0 && rapid.IntRange(0, 9).Draw(t, "startOpen") < 6 {
			seq[i] = evKind(rapid.IntRange(0, 1).Draw(t, "gs"))
			continue
		}
		seq[i] = evKind(rapid.IntRange(0, int(numEvents)-1).Draw(t, "ev"))
	}
	return seq
}

var sharedReal struct {
	once sync.Once
	svc  *service
	pool *pool
	err  error
}

func realShared() (*service, *pool, error) {
	sharedReal.once.Do(func() {
		sharedReal.svc = newRealService()
		sharedReal.pool = &pool{recs: map[string][]genuine{}}
		sharedReal.err = seed(sharedReal.svc, sharedReal.pool)
	})
	return sharedReal.svc, sharedReal.pool, sharedReal.err
}

func propConcurrent(t *rapid.T) {
	svc, p, err := realShared()
	if err != nil {
		t.Fatalf("seed: %v", err)
	}
	streams := rapid.IntRange(1, 8).Draw(t, "streams")
	seqs := make([][]evKind, streams)
	for i := range seqs {
		seqs[i] = drawSeq(t, 40)
	}
	salt := rapid.IntRange(0, 1<<20).Draw(t, "salt")
	res := make([]string, streams)
	var wg sync.WaitGroup
	for i := range seqs {
		wg.Add(1)
		go func(i int) {
			defer wg.Done()
			res[i] = runSequence(svc, p, seqs[i], salt+i*1000)
		}(i)
	}
	wg.Wait()
	nt := false
	var shape []string
	for i, s := range seqs {
		nt = nt || nontrivial(s)
		shape = append(shape, seqString(s))
		if res[i] != "" {
			if strings.Contains(res[i], "no response within") || strings.Contains(res[i], "did not return after end of stream") {
				kit.Abort(fmt.Sprintf("C19 violated [NewAppEncryption, %d concurrent streams]: stream %d: %s\n  request sequence: %s, end-of-stream", streams, i, res[i], seqString(s)))
			}
			kit.Rec.Violation(res[i])
			t.Fatalf("C19 violated [NewAppEncryption, %d concurrent streams]: stream %d: %s\n  request sequence: %s, end-of-stream", streams, i, res[i], seqString(s))
		}
	}
	kit.Rec.Case(strings.Join(shape, " || "), nt, func() any {
		return map[string]any{"streams": streams, "sequences": shape}
	})
}

func TestConcurrentStreams(t *testing.T) {
	kit.Check(t, 800, 32000, propConcurrent)
}

// FuzzStream: bytes -> one request sequence (thorough tier).
func FuzzStream(f *testing.F) {
	f.Add([]byte{0, 3, 5, 7})
	f.Add([]byte{2, 3, 5})
	f.Add([]byte{0, 0, 6, 8, 9, 10})
	f.Fuzz(func(t *testing.T, data []byte) {
		svc, p, err := realShared()
		if err != nil {
			t.Fatalf("seed: %v", err)
		}
		if len(data) > 64 {
			data = data[:64]
		}
		seq := make([]evKind, len(data))
		salt := 0
		for i, b := range data {
			seq[i] = evKind(int(b) % int(numEvents))
			salt = salt*31 + int(b)
		}
		if msg := runSequence(svc, p, seq, salt&0xffff); msg != "" {
			t.Fatalf("C19 violated: %s\n  request sequence: %s, end-of-stream", msg, seqString(seq))
		}
	})
}

// TestFreshServerParallelStart: the very first get-sessions of a freshly built sidecar arrive in
// parallel (the usual situation right after a deployment). Every stream gets a session of ITS
// partition of ONE service: whatever any of them encrypted is decryptable by every later stream
// of that partition, and by no stream of another partition.
func TestFreshServerParallelStart(t *testing.T) {
	kit.Check(t, 150, 6000, func(t *rapid.T) {
		streams := rapid.IntRange(2, 16).Draw(t, "streams")
		parts := make([]string, streams)
		samePart := rapid.Bool().Draw(t, "samePartition")
		for i := range parts {
			parts[i] = partA
			if !samePart && rapid.Bool().Draw(t, "partB") {
				parts[i] = partB
			}
		}
		opts := &server.Options{ServiceName: "svc", ProductID: "prod", Metastore: "memory", KMS: "static", ExpireAfter: 24 * time.Hour, CheckInterval: time.Hour}
		if rapid.Bool().Draw(t, "sessionCache") {
			opts.EnableSessionCaching, opts.SessionCacheMaxSize, opts.SessionCacheDuration = true, 4, time.Hour
		}
		app := server.NewAppEncryption(opts)
		type res struct {
			rec     *pb.DataRowRecord
			payload []byte
			err     string
		}
		out := make([]res, streams)
		start := make(chan struct{})
		var wg sync.WaitGroup
		for i := 0; i < streams; i++ {
			wg.Add(1)
			go func(i int) {
				defer wg.Done()
				payload := []byte(fmt.Sprintf("parallel-start-%d", i))
				st := &memStream{ctx: ctx, reqs: []*pb.SessionRequest{
					{Request: &pb.SessionRequest_GetSession{GetSession: &pb.GetSession{PartitionId: parts[i]}}},
					{Request: &pb.SessionRequest_Encrypt{Encrypt: &pb.Encrypt{Data: payload}}},
				}}
				<-start
				if err := app.Session(st); err != nil {
					out[i].err = "stream ended with " + err.Error()
					return
				}
				if len(st.sent) != 2 || isErr(st.sent[0]) || st.sent[1].GetEncryptResponse() == nil {
					out[i].err = fmt.Sprintf("valid get-session + encrypt answered %v", st.sent)
					return
				}
				out[i] = res{rec: st.sent[1].GetEncryptResponse().GetDataRowRecord(), payload: payload}
			}(i)
		}
		close(start)
		wg.Wait()
		bad := func(format string, args ...any) {
			msg := fmt.Sprintf(format, args...)
			kit.Rec.Violation(msg)
			t.Fatalf("C19 violated [fresh NewAppEncryption, %d streams starting in parallel, partitions %v, session cache %v]: %s", streams, parts, opts.EnableSessionCaching, msg)
		}
		for i, o := range out {
			if o.err != "" {
				bad("stream %d: %s", i, o.err)
			}
		}
		// later streams, one per partition, decrypt everything
		for _, part := range []string{partA, partB} {
			st := &memStream{ctx: ctx, reqs: []*pb.SessionRequest{{Request: &pb.SessionRequest_GetSession{GetSession: &pb.GetSession{PartitionId: part}}}}}
			for _, o := range out {
				st.reqs = append(st.reqs, &pb.SessionRequest{Request: &pb.SessionRequest_Decrypt{Decrypt: &pb.Decrypt{DataRowRecord: cloneDRR(o.rec)}}})
			}
			if err := app.Session(st); err != nil || len(st.sent) != streams+1 {
				bad("later stream for %s: err=%v, %d responses to %d requests", part, err, len(st.sent), streams+1)
			}
			for i, o := range out {
				r := st.sent[i+1]
				if parts[i] == part {
					if d := r.GetDecryptResponse(); d == nil || !bytes.Equal(d.GetData(), o.payload) {
						bad("the record stream %d was given for partition %s cannot be decrypted by a later stream of that partition: %v", i, part, r)
					}
				} else if !isErr(r) {
					bad("a stream of partition %s decrypted a record of partition %s", part, parts[i])
				}
			}
		}
		kit.Rec.Case(fmt.Sprintf("parallel-start|%d|%v|%v", streams, parts, opts.EnableSessionCaching), true, func() any {
			return map[string]any{"fresh_server_parallel_start_streams": streams, "partitions": parts, "session_cache": opts.EnableSessionCaching}
		})
		kit.Rec.Label("fresh-server-parallel-start")
	})
}

// ---- streams that stay open while others come and go ------------------------------------------

// liveStream is one interactive stream against the service.
type liveStream struct {
	st   *memStream
	done chan string
	part string
	recs []genuine
}

func openStream(app *server.AppEncryption, part string) (*liveStream, string) {
	ls := &liveStream{st: &memStream{ctx: ctx, feed: make(chan *pb.SessionRequest), out: make(chan *pb.SessionResponse, 4)}, done: make(chan string, 1), part: part}
	go func() {
		defer func() {
			if x := recover(); x != nil {
				ls.done <- fmt.Sprintf("the stream handler panicked: %v", x)
			}
		}()
		if err := app.Session(ls.st); err != nil {
			ls.done <- "Session returned an error: " + err.Error()
			return
		}
		ls.done <- ""
	}()
	resp, msg := ls.ask(&pb.SessionRequest{Request: &pb.SessionRequest_GetSession{GetSession: &pb.GetSession{PartitionId: part}}})
	if msg != "" {
		return nil, msg
	}
	if isErr(resp) {
		return nil, fmt.Sprintf("a valid get-session for %q was answered with %v", part, resp)
	}
	return ls, ""
}

func (ls *liveStream) ask(req *pb.SessionRequest) (*pb.SessionResponse, string) {
	select {
	case ls.st.feed <- req:
	case msg := <-ls.done:
		return nil, "the stream ended before the client closed it: " + msg
	case <-time.After(20 * time.Second):
		return nil, "no response within 20s (request not even received)"
	}
	select {
	case r := <-ls.st.out:
		return r, ""
	case msg := <-ls.done:
		return nil, "the stream ended without answering: " + msg
	case <-time.After(20 * time.Second):
		return nil, "no response within 20s"
	}
}

// roundTrip encrypts a payload on the stream and decrypts one of the stream's own records.
func (ls *liveStream) roundTrip(tag string) string {
	payload := []byte("payload " + tag)
	resp, msg := ls.ask(&pb.SessionRequest{Request: &pb.SessionRequest_Encrypt{Encrypt: &pb.Encrypt{Data: payload}}})
	if msg != "" {
		return "encrypt: " + msg
	}
	if resp.GetEncryptResponse() == nil {
		return fmt.Sprintf("encrypt on an open stream of %q was answered with %v", ls.part, resp)
	}
	ls.recs = append(ls.recs, genuine{cloneDRR(resp.GetEncryptResponse().GetDataRowRecord()), payload})
	g := ls.recs[len(ls.recs)/2]
	resp, msg = ls.ask(&pb.SessionRequest{Request: &pb.SessionRequest_Decrypt{Decrypt: &pb.Decrypt{DataRowRecord: cloneDRR(g.drr)}}})
	if msg != "" {
		return "decrypt: " + msg
	}
	if d := resp.GetDecryptResponse(); d == nil || !bytes.Equal(d.GetData(), g.payload) {
		return fmt.Sprintf("decrypt of a record this very stream produced for %q was answered with %v", ls.part, resp)
	}
	return ""
}

func (ls *liveStream) end() string {
	close(ls.st.feed)
	select {
	case msg := <-ls.done:
		return msg
	case <-time.After(20 * time.Second):
		return "Session did not return after end of stream"
	}
}

// TestOpenStreamsAmongOthers: streams are opened, used, left open, ended, while other streams of
// the same and of other partitions come and go - with and without the sidecar's session cache
// (small, so that sessions get evicted while streams still use them). A stream that completed
// get-session keeps behaving like an SDK session of its partition until the client ends it.
func TestOpenStreamsAmongOthers(t *testing.T) {
	kit.Steps(30)
	kit.Check(t, 150, 6000, func(t *rapid.T) {
		opts := &server.Options{ServiceName: "svc", ProductID: "prod", Metastore: "memory", KMS: "static", ExpireAfter: 24 * time.Hour, CheckInterval: time.Hour}
		if rapid.IntRange(0, 3).Draw(t, "sessionCache") > 0 {
			opts.EnableSessionCaching, opts.SessionCacheMaxSize, opts.SessionCacheDuration = true, rapid.IntRange(1, 4).Draw(t, "cacheSize"), time.Hour
		}
		app := server.NewAppEncryption(opts)
		nparts := rapid.IntRange(2, 7).Draw(t, "partitions")
		var open []*liveStream
		var trace []string
		n := 0
		bad := func(msg string) {
			full := fmt.Sprintf("C19 violated [NewAppEncryption, session cache %v/%d, streams kept open among others]: %s\n  history: %s", opts.EnableSessionCaching, opts.SessionCacheMaxSize, msg, strings.Join(trace, "; "))
			if strings.Contains(msg, "no response within") || strings.Contains(msg, "did not return") {
				kit.Abort(full)
			}
			kit.Rec.Violation(msg)
			t.Fatalf("%s", full)
		}
		usedAfterOthers := false
		t.Repeat(map[string]func(*rapid.T){
			"open": func(t *rapid.T) {
				if len(open) >= 5 {
					t.Skip("enough open streams")
				}
				part := fmt.Sprintf("partition-%d", rapid.IntRange(0, nparts-1).Draw(t, "part"))
				trace = append(trace, "open "+part)
				ls, msg := openStream(app, part)
				if msg != "" {
					bad(msg)
				}
				open = append(open, ls)
			},
			"use": func(t *rapid.T) {
				if len(open) == 0 {
					t.Skip("no open stream")
				}
				ls := open[rapid.IntRange(0, len(open)-1).Draw(t, "stream")]
				n++
				trace = append(trace, "use "+ls.part)
				if msg := ls.roundTrip(fmt.Sprint(n)); msg != "" {
					bad(fmt.Sprintf("open stream of %q: %s", ls.part, msg))
				}
				if len(trace) > 3 {
					usedAfterOthers = true
				}
			},
			"short": func(t *rapid.T) {
				// a complete stream: get-session, optionally one round trip, end of stream
				part := fmt.Sprintf("partition-%d", rapid.IntRange(0, nparts-1).Draw(t, "part"))
				use := rapid.Bool().Draw(t, "use")
				trace = append(trace, fmt.Sprintf("short %s use=%v", part, use))
				ls, msg := openStream(app, part)
				if msg != "" {
					bad(msg)
				}
				if use {
					n++
					if msg := ls.roundTrip(fmt.Sprint(n)); msg != "" {
						bad(fmt.Sprintf("short stream of %q: %s", part, msg))
					}
				}
				if msg := ls.end(); msg != "" {
					bad(fmt.Sprintf("short stream of %q: %s", part, msg))
				}
			},
			"end": func(t *rapid.T) {
				if len(open) == 0 {
					t.Skip("no open stream")
				}
				i := rapid.IntRange(0, len(open)-1).Draw(t, "stream")
				trace = append(trace, "end "+open[i].part)
				if msg := open[i].end(); msg != "" {
					bad(fmt.Sprintf("stream of %q: %s", open[i].part, msg))
				}
				open = append(open[:i], open[i+1:]...)
			},
		})
		for _, ls := range open {
			n++
			if msg := ls.roundTrip(fmt.Sprint(n)); msg != "" {
				bad(fmt.Sprintf("open stream of %q (final use): %s", ls.part, msg))
			}
			if msg := ls.end(); msg != "" {
				bad(fmt.Sprintf("stream of %q: %s", ls.part, msg))
			}
		}
		kit.Rec.Case("among|"+strings.Join(trace, ";"), usedAfterOthers, func() any {
			return map[string]any{"session_cache": opts.EnableSessionCaching, "session_cache_size": opts.SessionCacheMaxSize, "history": trace}
		})
		kit.Rec.Label("open-streams-among-others")
	})
}

// TestManyStreamsFreshPartitions: many streams at once, each for a partition the process has
// never seen (get-session, encrypt, decrypt of its own record, end of stream): every request is
// answered and the process survives - including whatever per-partition bookkeeping the sidecar
// does on first use.
func TestManyStreamsFreshPartitions(t *testing.T) {
	kit.Check(t, 12, 400, func(t *rapid.T) {
		opts := &server.Options{ServiceName: "svc", ProductID: "prod", Metastore: "memory", KMS: "static", ExpireAfter: 24 * time.Hour, CheckInterval: time.Hour}
		if rapid.Bool().Draw(t, "sessionCache") {
			opts.EnableSessionCaching, opts.SessionCacheMaxSize, opts.SessionCacheDuration = true, 8, time.Hour
		}
		app := server.NewAppEncryption(opts)
		workers := rapid.IntRange(4, 16).Draw(t, "workers")
		perWorker := rapid.IntRange(5, 30).Draw(t, "streamsPerWorker")
		salt := rapid.IntRange(0, 1<<20).Draw(t, "salt")
		var first atomic.Value
		var wg sync.WaitGroup
		start := make(chan struct{})
		for w := 0; w < workers; w++ {
			wg.Add(1)
			go func(w int) {
				defer wg.Done()
				<-start
				for i := 0; i < perWorker && first.Load() == nil; i++ {
					part := fmt.Sprintf("fresh-%d-%d-%d", salt, w, i)
					ls, msg := openStream(app, part)
					if msg == "" {
						msg = ls.roundTrip(part)
					}
					if msg == "" {
						msg = ls.end()
					}
					if msg != "" {
						first.CompareAndSwap(nil, fmt.Sprintf("stream for new partition %q: %s", part, msg))
						return
					}
				}
			}(w)
		}
		close(start)
		wg.Wait()
		if v := first.Load(); v != nil {
			msg := v.(string)
			full := fmt.Sprintf("C19 violated [NewAppEncryption, %d goroutines x %d streams for never-seen partitions, session cache %v]: %s", workers, perWorker, opts.EnableSessionCaching, msg)
			if strings.Contains(msg, "no response within") || strings.Contains(msg, "did not return") {
				kit.Abort(full)
			}
			kit.Rec.Violation(msg)
			t.Fatalf("%s", full)
		}
		kit.Rec.Case(fmt.Sprintf("fresh|%d|%d|%v", workers, perWorker, opts.EnableSessionCaching), true, func() any {
			return map[string]any{"concurrent_goroutines": workers, "streams_each_for_a_new_partition": perWorker, "session_cache": opts.EnableSessionCaching}
		})
		kit.Rec.Label("many-streams-fresh-partitions")
	})
}

// TestSidecarPartitionIDsVerbatim: the partition id of get-session reaches the SDK as the client
// sent it. Two streams whose ids differ only in characters a sanitiser might touch (control
// characters, case, blanks) are two partitions: each round-trips its own records and gets an
// error response for the other's.
func TestSidecarPartitionIDsVerbatim(t *testing.T) {
	kit.Check(t, 120, 4000, func(t *rapid.T) {
		base := rapid.SampledFrom([]string{"acct-1", "Tenant", "x", "a b", "é"}).Draw(t, "base")
		variant := rapid.SampledFrom([]func(string) string{
			func(s string) string { return s + "\n" },
			func(s string) string { return "\t" + s },
			func(s string) string { return s[:1] + "\x1b" + s[1:] },
			func(s string) string { return s + "\r" },
			func(s string) string { return strings.ToUpper(s) + "\x00" },
			func(s string) string { return s + " " },
			func(s string) string { return s + "​" },
		}).Draw(t, "variant")
		p, q := base, variant(base)
		opts := &server.Options{ServiceName: "svc", ProductID: "prod", Metastore: "memory", KMS: "static", ExpireAfter: 24 * time.Hour, CheckInterval: time.Hour}
		if rapid.Bool().Draw(t, "sessionCache") {
			opts.EnableSessionCaching, opts.SessionCacheMaxSize, opts.SessionCacheDuration = true, 4, time.Hour
		}
		app := server.NewAppEncryption(opts)
		bad := func(msg string) {
			kit.Rec.Violation(msg)
			t.Fatalf("C19 violated [NewAppEncryption, partition ids %q and %q, session cache %v]: %s", p, q, opts.EnableSessionCaching, msg)
		}
		sp, msg := openStream(app, p)
		if msg != "" {
			bad(msg)
		}
		if msg := sp.roundTrip("p"); msg != "" {
			bad(msg)
		}
		sq, msg := openStream(app, q)
		if msg != "" {
			bad(msg)
		}
		if msg := sq.roundTrip("q"); msg != "" {
			bad(msg)
		}
		// each asks for the other's record
		for _, x := range []struct {
			who, whose *liveStream
		}{{sq, sp}, {sp, sq}} {
			resp, msg := x.who.ask(&pb.SessionRequest{Request: &pb.SessionRequest_Decrypt{Decrypt: &pb.Decrypt{DataRowRecord: cloneDRR(x.whose.recs[0].drr)}}})
			if msg != "" {
				bad(msg)
			}
			if !isErr(resp) {
				bad(fmt.Sprintf("the stream for partition %q decrypted a record produced for partition %q: %v", x.who.part, x.whose.part, resp))
			}
		}
		if msg := sp.end(); msg != "" {
			bad(msg)
		}
		if msg := sq.end(); msg != "" {
			bad(msg)
		}
		kit.Rec.Case(fmt.Sprintf("ids|%q|%q|%v", p, q, opts.EnableSessionCaching), true, func() any {
			return map[string]any{"partition_ids": []string{p, q}, "session_cache": opts.EnableSessionCaching}
		})
		kit.Rec.Label("sidecar-partition-id-pairs")
	})
}

// TestOptionsFromEnvironment: the sidecar's crypto policy is built from what the operator
// configured. Every option is set through its documented ASHERAH_* environment variable to a
// generated value of its own; parsing as main() does and building the policy must put each value
// where it belongs (and nowhere else).
func TestOptionsFromEnvironment(t *testing.T) {
	kit.Check(t, 60, 1500, func(t *rapid.T) {
		// durations are taken as written: whole units as well as values with a remainder in a smaller unit (90s, 36h0m30s, 1.5s)
		odd := func(label string, unit time.Duration) time.Duration {
			d := time.Duration(rapid.IntRange(1, 5000).Draw(t, label)) * unit
			switch rapid.IntRange(0, 3).Draw(t, label+"Remainder") {
			case 1:
				d += time.Duration(rapid.IntRange(1, 59).Draw(t, label+"Seconds")) * time.Second
			case 2:
				d += time.Duration(rapid.IntRange(1, 999).Draw(t, label+"Millis")) * time.Millisecond
			}
			return d
		}
		expire := odd("expireMinutes", time.Minute)
		check := odd("checkSeconds", time.Second)
		sessDur := odd("sessionHours", time.Hour)
		sessMax := rapid.IntRange(1, 100000).Draw(t, "sessionCacheMax")
		env := map[string]string{
			"ASHERAH_SERVICE_NAME": "svc-" + fmt.Sprint(sessMax), "ASHERAH_PRODUCT_NAME": "prod-" + fmt.Sprint(sessMax),
			"ASHERAH_EXPIRE_AFTER": expire.String(), "ASHERAH_CHECK_INTERVAL": check.String(),
			"ASHERAH_METASTORE_MODE": "memory", "ASHERAH_KMS_MODE": "static",
			"ASHERAH_SESSION_CACHE_MAX_SIZE": fmt.Sprint(sessMax), "ASHERAH_SESSION_CACHE_DURATION": sessDur.String(),
			"ASHERAH_ENABLE_SESSION_CACHING": "true",
		}
		for k, v := range env {
			os.Setenv(k, v)
		}
		defer func() {
			for k := range env {
				os.Unsetenv(k)
			}
		}()
		opts := new(server.Options)
		if _, err := flags.NewParser(opts, flags.IgnoreUnknown).ParseArgs(nil); err != nil {
			t.Fatalf("harness: parsing options from the environment failed: %v", err)
		}
		pol := server.NewCryptoPolicy(opts)
		bad := func(format string, args ...any) {
			msg := fmt.Sprintf(format, args...)
			kit.Rec.Violation(msg)
			t.Fatalf("C19 violated [sidecar options from ASHERAH_* variables %v]: %s", env, msg)
		}
		if opts.ServiceName != env["ASHERAH_SERVICE_NAME"] || opts.ProductID != env["ASHERAH_PRODUCT_NAME"] {
			bad("service / product = %q / %q", opts.ServiceName, opts.ProductID)
		}
		if pol.ExpireKeyAfter != expire {
			bad("the crypto policy's key lifetime is %s, ASHERAH_EXPIRE_AFTER says %s", pol.ExpireKeyAfter, expire)
		}
		if pol.RevokeCheckInterval != check {
			bad("the crypto policy's revoke-check interval is %s, ASHERAH_CHECK_INTERVAL says %s", pol.RevokeCheckInterval, check)
		}
		if !pol.CacheSessions || pol.SessionCacheMaxSize != sessMax || pol.SessionCacheDuration != sessDur {
			bad("session cache settings are on=%v max=%d duration=%s, configured on=true max=%d duration=%s", pol.CacheSessions, pol.SessionCacheMaxSize, pol.SessionCacheDuration, sessMax, sessDur)
		}
		kit.Rec.Case(fmt.Sprintf("env|%s|%s|%s|%d", expire, check, sessDur, sessMax), true, func() any {
			return map[string]any{"environment": env}
		})
		kit.Rec.Label("options-from-environment")
	})
}

// TestLongLivedStream: one stream used for hundreds of operations (a connection-pooling client):
// every request is answered, every record still round-trips.
func TestLongLivedStream(t *testing.T) {
	kit.Check(t, 6, 200, func(t *rapid.T) {
		opts := &server.Options{ServiceName: "svc", ProductID: "prod", Metastore: "memory", KMS: "static", ExpireAfter: 24 * time.Hour, CheckInterval: time.Hour}
		if rapid.Bool().Draw(t, "sessionCache") {
			opts.EnableSessionCaching, opts.SessionCacheMaxSize, opts.SessionCacheDuration = true, 4, time.Hour
		}
		app := server.NewAppEncryption(opts)
		n := rapid.IntRange(140, 700).Draw(t, "operations")
		ls, msg := openStream(app, "long-lived")
		bad := func(msg string) {
			full := fmt.Sprintf("C19 violated [NewAppEncryption, one stream, %d operations]: %s", n, msg)
			if strings.Contains(msg, "no response within") || strings.Contains(msg, "did not return") {
				kit.Abort(full)
			}
			kit.Rec.Violation(msg)
			t.Fatalf("%s", full)
		}
		if msg != "" {
			bad(msg)
		}
		for i := 0; i < n/2; i++ {
			if msg := ls.roundTrip(fmt.Sprint(i)); msg != "" {
				bad(fmt.Sprintf("operation pair %d: %s", i, msg))
			}
		}
		if msg := ls.end(); msg != "" {
			bad(msg)
		}
		kit.Rec.Case(fmt.Sprintf("long|%d|%v", n, opts.EnableSessionCaching), true, func() any {
			return map[string]any{"operations_on_one_stream": n, "session_cache": opts.EnableSessionCaching}
		})
		kit.Rec.Label("long-lived-stream")
	})
}
