package c19

import (
	"context"
	"errors"
	"fmt"
	"strings"
	"sync/atomic"
	"testing"

	"github.com/godaddy/asherah/go/appencryption"
	"github.com/godaddy/asherah/go/appencryption/pkg/crypto/aead"
	"github.com/godaddy/asherah/go/appencryption/pkg/kms"
	"github.com/godaddy/asherah/go/appencryption/pkg/persistence"
	pb "github.com/godaddy/asherah/server/go/api"
	"github.com/godaddy/asherah/server/go/pkg/server"
	"pgregory.net/rapid"
	"verif/kit"
)

// downMetastore fails every call while down is set (a database that is briefly unreachable).
type downMetastore struct {
	appencryption.Metastore
	down atomic.Bool
}

var errDown = errors.New("injected: metastore unreachable")

func (m *downMetastore) Load(ctx context.Context, id string, created int64) (*appencryption.EnvelopeKeyRecord, error) {
	if m.down.Load() {
		return nil, errDown
	}
	return m.Metastore.Load(ctx, id, created)
}

func (m *downMetastore) LoadLatest(ctx context.Context, id string) (*appencryption.EnvelopeKeyRecord, error) {
	if m.down.Load() {
		return nil, errDown
	}
	return m.Metastore.LoadLatest(ctx, id)
}

func (m *downMetastore) Store(ctx context.Context, id string, created int64, ekr *appencryption.EnvelopeKeyRecord) (bool, error) {
	if m.down.Load() {
		return false, errDown
	}
	return m.Metastore.Store(ctx, id, created, ekr)
}

// TestStreamSurvivesFailedOperations: "after a successful get-session, encrypt and decrypt behave exactly like the
// SDK for that partition" - an SDK session whose operation failed because the metastore was briefly unreachable
// is as usable afterwards as before. On one stream, operations run while the metastore is down (each answered by
// exactly one response, an error unless the keys were cached) and while it is up (each must round-trip), in a
// drawn order; a second get-session is still refused afterwards.
func TestStreamSurvivesFailedOperations(t *testing.T) {
	kit.Check(t, 40, 1500, func(t *rapid.T) {
		k, err := kms.NewStatic("thisIsAStaticMasterKeyForTesting", aead.NewAES256GCM())
		if err != nil {
			t.Fatalf("kms: %v", err)
		}
		defer k.Close()
		ms := &downMetastore{Metastore: persistence.NewMemoryMetastore()}
		pol := appencryption.NewCryptoPolicy()
		caching := rapid.Bool().Draw(t, "keyCaching")
		if !caching {
			pol.CacheIntermediateKeys, pol.CacheSystemKeys = false, false
		}
		if rapid.Bool().Draw(t, "sessionCache") {
			pol.CacheSessions, pol.SessionCacheMaxSize = true, 2
		}
		sf := appencryption.NewSessionFactory(&appencryption.Config{Service: "svc", Product: "prod", Policy: pol}, ms, k, aead.NewAES256GCM())
		defer sf.Close()
		app := server.VerifNewAppEncryption(sf)
		var trace []string
		bad := func(msg string) {
			full := fmt.Sprintf("C19 violated [one stream, metastore down for some operations, key caching %v]: %s\n  operations: %s", caching, msg, strings.Join(trace, "; "))
			if strings.Contains(msg, "no response within") || strings.Contains(msg, "did not return") {
				kit.Abort(full)
			}
			kit.Rec.Violation(msg)
			t.Fatalf("%s", full)
		}
		ls, msg := openStream(app, "faulty-db")
		if msg != "" {
			bad(msg)
		}
		failed := 0
		n := rapid.IntRange(3, 12).Draw(t, "operations")
		for i := 0; i < n; i++ {
			if rapid.IntRange(0, 2).Draw(t, "down") == 0 {
				ms.down.Store(true)
				var req *pb.SessionRequest
				if len(ls.recs) > 0 && rapid.Bool().Draw(t, "decrypt") {
					trace = append(trace, "decrypt[db down]")
					req = &pb.SessionRequest{Request: &pb.SessionRequest_Decrypt{Decrypt: &pb.Decrypt{DataRowRecord: cloneDRR(ls.recs[0].drr)}}}
				} else {
					trace = append(trace, "encrypt[db down]")
					req = &pb.SessionRequest{Request: &pb.SessionRequest_Encrypt{Encrypt: &pb.Encrypt{Data: []byte("while down")}}}
				}
				resp, msg := ls.ask(req)
				ms.down.Store(false)
				if msg != "" {
					bad("with the metastore down: " + msg)
				}
				if resp.GetErrorResponse() != nil {
					failed++
				} else if !caching {
					bad(fmt.Sprintf("without key caching an operation cannot succeed while the metastore is down, yet it was answered with %v", resp))
				}
				continue
			}
			trace = append(trace, "encrypt+decrypt")
			if msg := ls.roundTrip(fmt.Sprint(i)); msg != "" {
				bad(fmt.Sprintf("metastore up again (after %d failed operations on this stream): %s", failed, msg))
			}
		}
		resp, msg := ls.ask(&pb.SessionRequest{Request: &pb.SessionRequest_GetSession{GetSession: &pb.GetSession{PartitionId: "faulty-db"}}})
		if msg != "" {
			bad("second get-session: " + msg)
		}
		if resp.GetErrorResponse() == nil {
			bad(fmt.Sprintf("a second get-session (after %d failed operations) was answered with %v", failed, resp))
		}
		if msg := ls.end(); msg != "" {
			bad(msg)
		}
		kit.Rec.Case("down|"+strings.Join(trace, ";")+fmt.Sprint(caching), failed > 0, func() any {
			return map[string]any{"operations": trace, "key_caching": caching, "error_responses_while_down": failed}
		})
		kit.Rec.Label("stream-with-failed-operations")
	})
}
