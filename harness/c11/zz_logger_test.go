package c11

import (
	"bytes"
	"encoding/base64"
	"encoding/hex"
	"fmt"
	"sync"
	"testing"
	"time"

	"github.com/godaddy/asherah/go/securememory"
	smlog "github.com/godaddy/asherah/go/securememory/log"
	"verif/kit"
)

type lineLogger struct {
	mu    sync.Mutex
	lines []string
}

func (l *lineLogger) Debugf(format string, v ...interface{}) {
	s := fmt.Sprintf(format, v...)
	l.mu.Lock()
	l.lines = append(l.lines, s)
	l.mu.Unlock()
}

func (l *lineLogger) snapshot() []string {
	l.mu.Lock()
	defer l.mu.Unlock()
	return append([]string(nil), l.lines...)
}

//go:noinline
func dropUnclosed(f securememory.SecretFactory, n int, content []byte) error {
	for i := 0; i < n; i++ {
		if _, err := f.New(append([]byte(nil), content...)); err != nil {
			return err
		}
	}
	return nil
}

// TestDroppedSecretsWithDebugLogger (runs last: the logger stays installed): secrets that are dropped without
// Close while a debug logger is installed - some created before it was installed, some after. Whatever the
// library's clean-up of unreachable secrets does and logs, it must not fault on the idle (inaccessible) pages
// and no log line may contain the secret's content (raw, hex, base64, or as a decimal byte list).
func TestDroppedSecretsWithDebugLogger(t *testing.T) {
	logger := &lineLogger{}
	var total int64
	for _, impl := range []string{"protectedmemory", "memguard"} {
		f := newFactory(impl)
		content := fill(32, 0x71)
		base := securememory.InUseCounter.Count()
		if err := dropUnclosed(f, 48, content); err != nil {
			t.Fatalf("New: %v", err)
		}
		smlog.SetLogger(logger)
		if err := dropUnclosed(f, 48, content); err != nil {
			t.Fatalf("New: %v", err)
		}
		start := time.Now()
		for time.Since(start) < 2*time.Second && securememory.InUseCounter.Count() > base {
			churn()
			if time.Since(start) > 400*time.Millisecond && securememory.InUseCounter.Count() == base+96 {
				break // this implementation does not clean up unreachable secrets
			}
		}
		time.Sleep(20 * time.Millisecond) // finalizer goroutines still formatting their lines
		finalized := 96 - int(securememory.InUseCounter.Count()-base)
		lines := logger.snapshot()
		dec := fmt.Sprint(content)
		pats := map[string][]byte{"raw": content, "hex": []byte(hex.EncodeToString(content)), "base64": []byte(base64.StdEncoding.EncodeToString(content)), "decimal list": []byte(dec[1 : len(dec)-1])}
		for _, ln := range lines {
			for how, p := range pats {
				if bytes.Contains([]byte(ln), p) {
					msg := fmt.Sprintf("%s: a debug log line written while an unreachable secret was cleaned up contains the secret's content (%s): %.120q", impl, how, ln)
					kit.Rec.Violation(msg)
					t.Fatalf("C11 violated: %s", msg)
				}
			}
		}
		total++
		kit.Rec.Case("dropped-with-logger|"+impl, finalized > 0, func() any {
			return map[string]any{"implementation": impl, "secrets_dropped_unclosed": 96, "cleaned_up_by_the_library_within_2s": finalized, "debug_lines": len(lines)}
		})
		kit.Rec.LabelN("dropped-unclosed-secrets-finalized:"+impl, int64(finalized))
	}
}
