package c11

import (
	"bytes"
	"fmt"
	"sync"
	"testing"
	"time"
	"unsafe"

	"pgregory.net/rapid"
	"verif/kit"
)

// TestHeldOpenUnderManyReaders: one reader stays inside its callback while 4-16 goroutines enter and leave the
// same secret thousands of times at full speed (no pauses: the contention is on the reader bookkeeping itself).
// After every burst the held reader - still inside its callback - must find its page read-only, locked and
// holding the original bytes; once it has left the page must be inaccessible again, and Close must return
// and release the page.
func TestHeldOpenUnderManyReaders(t *testing.T) {
	kit.Check(t, 16, 400, func(t *rapid.T) {
		impl := rapid.SampledFrom([]string{"memguard", "protectedmemory"}).Draw(t, "impl")
		size := rapid.SampledFrom([]int{32, 32, 1, pageSize + 1}).Draw(t, "size")
		workers := rapid.IntRange(4, 16).Draw(t, "goroutines")
		per := rapid.IntRange(500, 3000).Draw(t, "entriesPerBurst")
		bursts := rapid.IntRange(2, 6).Draw(t, "bursts")
		desc := fmt.Sprintf("%s size=%d: one reader held inside, %d bursts of %d goroutines x %d WithBytes", impl, size, bursts, workers, per)
		f := newFactory(impl)
		want := fill(size, 0x5a)
		s, err := f.New(append([]byte(nil), want...))
		if err != nil {
			t.Fatalf("New: %v", err)
		}
		viol := make(chan string, 1)
		go func() {
			var addr uintptr
			bad := ""
			err := s.WithBytes(func(b []byte) error {
				addr = uintptr(unsafe.Pointer(&b[0]))
				for burst := 0; burst < bursts && bad == ""; burst++ {
					var wg sync.WaitGroup
					var emu sync.Mutex
					for w := 0; w < workers; w++ {
						wg.Add(1)
						go func() {
							defer wg.Done()
							for i := 0; i < per; i++ {
								// the callback does not touch the bytes: a wrongly protected page must not kill the run
								if e := s.WithBytes(func([]byte) error { return nil }); e != nil {
									emu.Lock()
									bad = fmt.Sprintf("WithBytes failed on an open secret: %v", e)
									emu.Unlock()
									return
								}
							}
						}()
					}
					wg.Wait()
					if bad != "" {
						break
					}
					if msg := checkInside(b, 1); msg != "" {
						bad = fmt.Sprintf("after burst %d of short readers: %s", burst+1, msg)
						break
					}
					if !bytes.Equal(b, want) {
						bad = fmt.Sprintf("after burst %d the held reader sees other bytes than the original secret", burst+1)
					}
				}
				return nil
			})
			if bad == "" && err != nil {
				bad = fmt.Sprintf("the held reader's WithBytes returned %v", err)
			}
			if bad == "" {
				if msg := checkIdle(addr, "after the last reader left"); msg != "" {
					bad = msg
				}
			}
			if bad == "" {
				if e := s.Close(); e != nil {
					bad = fmt.Sprintf("Close returned %v", e)
				} else if msg := checkClosed(addr); msg != "" {
					bad = msg
				}
			}
			viol <- bad
		}()
		select {
		case bad := <-viol:
			if bad != "" {
				kit.Rec.Violation(bad)
				t.Fatalf("C11 violated: %s\n  case: %s", bad, desc)
			}
		case <-time.After(30 * time.Second):
			kit.Abort("C11 violated: readers / Close did not finish within 30s (the reader bookkeeping is off: Close waits for a reader that is not there)\n  case: " + desc)
		}
		kit.Rec.Case("many|"+desc, true, func() any {
			return map[string]any{"case": desc}
		})
		kit.Rec.Label("many-readers:" + impl)
	})
}
