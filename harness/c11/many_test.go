package c11

import (
	"bytes"
	"fmt"
	"strings"
	"sync"
	"testing"
	"time"
	"unsafe"

	"pgregory.net/rapid"
	"verif/kit"
)

// TestHeldOpenUnderManyReaders: one reader stays inside its callback while 4-16 goroutines enter and leave the
// same secret thousands of times at full speed (no pauses: the contention is on the reader bookkeeping itself).
// After every burst the held reader - still inside its callback - must find its page read-only, locked and
// holding the original bytes; once it has left the page must be inaccessible again, and Close must return
// and release the page.
func TestHeldOpenUnderManyReaders(t *testing.T) {
	kit.Check(t, 16, 400, func(t *rapid.T) {
		impl := rapid.SampledFrom([]string{"memguard", "protectedmemory"}).Draw(t, "impl")
		size := rapid.SampledFrom([]int{32, 32, 1, pageSize + 1}).Draw(t, "size")
		workers := rapid.IntRange(4, 16).Draw(t, "goroutines")
		per := rapid.IntRange(500, 3000).Draw(t, "entriesPerBurst")
		bursts := rapid.IntRange(2, 6).Draw(t, "bursts")
		desc := fmt.Sprintf("%s size=%d: one reader held inside, %d bursts of %d goroutines x %d WithBytes", impl, size, bursts, workers, per)
		f := newFactory(impl)
		want := fill(size, 0x5a)
		s, err := f.New(append([]byte(nil), want...))
		if err != nil {
			t.Fatalf("New: %v", err)
		}
		viol := make(chan string, 1)
		go func() {
			var addr uintptr
			bad := ""
			err := s.WithBytes(func(b []byte) error {
				addr = uintptr(unsafe.Pointer(&b[0]))
				for burst := 0; burst < bursts && bad == ""; burst++ {
					var wg sync.WaitGroup
					var emu sync.Mutex
					for w := 0; w < workers; w++ {
						wg.Add(1)
						go func() {
							defer wg.Done()
							for i := 0; i < per; i++ {
								// the callback does not touch the bytes: a wrongly protected page must not kill the run
								if e := s.WithBytes(func([]byte) error { return nil }); e != nil {
									emu.Lock()
									bad = fmt.Sprintf("WithBytes failed on an open secret: %v", e)
									emu.Unlock()
									return
								}
							}
						}()
					}
					wg.Wait()
					if bad != "" {
						break
					}
					if msg := checkInside(b, 1); msg != "" {
						bad = fmt.Sprintf("after burst %d of short readers: %s", burst+1, msg)
						break
					}
					if !bytes.Equal(b, want) {
						bad = fmt.Sprintf("after burst %d the held reader sees other bytes than the original secret", burst+1)
					}
				}
				return nil
			})
			if bad == "" && err != nil {
				bad = fmt.Sprintf("the held reader's WithBytes returned %v", err)
			}
			if bad == "" {
				if msg := checkIdle(addr, "after the last reader left"); msg != "" {
					bad = msg
				}
			}
			if bad == "" {
				if e := s.Close(); e != nil {
					bad = fmt.Sprintf("Close returned %v", e)
				} else if msg := checkClosed(addr); msg != "" {
					bad = msg
				}
			}
			viol <- bad
		}()
		select {
		case bad := <-viol:
			if bad != "" {
				kit.Rec.Violation(bad)
				t.Fatalf("C11 violated: %s\n  case: %s", bad, desc)
			}
		case <-time.After(30 * time.Second):
			kit.Abort("C11 violated: readers / Close did not finish within 30s (the reader bookkeeping is off: Close waits for a reader that is not there)\n  case: " + desc)
		}
		kit.Rec.Case("many|"+desc, true, func() any {
			return map[string]any{"case": desc}
		})
		kit.Rec.Label("many-readers:" + impl)
	})
}

// TestEverySitePreemptedOnce: systematically, every yield site the concurrent workload reaches in the two
// secret.go files is taken as the single preemption point (k-th visit for k = 0..3, pause 1 ms) of a run with
// three readers (which touch every byte before and after a short sleep) and one closer.
func TestEverySitePreemptedOnce(t *testing.T) {
	var total, nontrivial int64
	for _, impl := range []string{"memguard", "protectedmemory"} {
		_, sites, _ := runConcurrent(impl, 64, 3, 6, 1, []time.Duration{300 * time.Microsecond}, nil)
		if len(sites) == 0 {
			t.Fatalf("no yield sites reached in %s: is the overlay active?", impl)
		}
		for _, site := range sites {
			for k := 0; k < 4; k++ {
				for _, closeDelay := range []time.Duration{400 * time.Microsecond, 5 * time.Millisecond} {
					plan := []kit.PlanEntry{{Site: site, Hit: k, Pause: time.Millisecond}}
					res, _, _ := runConcurrent(impl, 32, 3, 6, 1, []time.Duration{closeDelay}, plan)
					total++
					desc := fmt.Sprintf("%s: 3 readers x 6, close after %s, single pause of 1ms at visit %d of %s", impl, closeDelay, k, site)
					if res.viol != "" {
						if strings.Contains(res.viol, "did not finish within") {
							kit.Abort("C11 violated: " + res.viol + "\n  case: " + desc)
						}
						kit.Rec.Violation(res.viol)
						t.Fatalf("C11 violated: %s\n  case: %s", res.viol, desc)
					}
					if res.fired > 0 {
						nontrivial++
					}
				}
			}
		}
	}
	kit.Rec.Enumerated(total, nontrivial)
	kit.Rec.LabelN("single-preemption-runs", total)
}
