package c11

import (
	"bytes"
	"fmt"
	"runtime"
	"runtime/debug"
	"strings"
	"sync"
	"sync/atomic"
	"testing"
	"time"
	"unsafe"

	"github.com/godaddy/asherah/go/securememory"
	"github.com/godaddy/asherah/go/securememory/memguard"
	"github.com/godaddy/asherah/go/securememory/protectedmemory"
	"pgregory.net/rapid"
	"verif/kit"
)

func TestMain(m *testing.M) {
	kit.Main(m, "C11", "exploration",
		"both secure-memory implementations with the REAL memory primitives; the kernel's view of the pages is read from /proc/self/smaps (permissions, VmFlags lo = mlocked, dd = excluded from core dumps) for the address seen inside the callback. "+
			"(1) rapid sequential programs: sizes 1 byte .. 3 pages +/- 1, New / CreateRandom, WithBytes, WithBytesFunc nested to depth 3, Reader.Read with odd buffer sizes, a Reader partly consumed before Close and read again after it, a read on the last reference to an unclosed secret with garbage collections forced during the callback, a callback that panics and is recovered by the caller, IsClosed, Close, use after Close; page state sampled inside every callback, between callbacks, after Close, and - at the address the previous secret of that size had - before a new secret's first access. "+
			"(2) rapid concurrent cases: 2-4 readers and 1-2 closers on one secret with a delay plan (1-3 pauses of 0.2-3 ms) over the statement-level yield points the overlay inserts into the two secret.go files; reader goroutines run with SetPanicOnFault so a touch of a PROT_NONE / unmapped page is a recorded violation. "+
			"(3) one reader held inside its callback while 4-16 goroutines enter and leave the same secret 500-3000 times each at full speed, in 2-6 bursts: after every burst the held reader's page is still r--p + locked with the original bytes, idle and Close behave as above afterwards. "+
			"(4) ENUMERATED: every yield site the concurrent workload reaches taken as the single preemption point (visits 0-3, pause 1 ms, two close delays) of a 3-reader / 1-closer run. "+
			"(5) secrets dropped without Close with a debug logger installed (before / after their creation): the library's clean-up of unreachable secrets does not fault on the idle pages and logs no secret content. "+
			"Oracle: r--p + locked + dontdump while at least one reader is inside (never writable), ---p + locked + dontdump when idle, unmapped (or at least no longer locked) after Close; readers see exactly the original bytes; the source slice of New is zero afterwards; Close returns only when no callback is running; "+
			"an access after Close returned gives an error and does not run the callback; IsClosed agrees with the model; no fault, no hang. One evaluation = one program. "+
			"Non-trivial = >= 2 overlapping (nested or concurrent) readers, or a Close issued while a reader is inside (every run of (3)); distinct = (implementation, size class, operation sequence / plan sites)",
		"Linux only (/proc/self/smaps)", "schedules are sampled (preemption-bounded delay plans), not enumerated")
}

const pageSize = 4096

var sizes = []int{1, 2, 31, 32, 33, pageSize - 1, pageSize, pageSize + 1, 2*pageSize - 1, 2 * pageSize, 2*pageSize + 1, 3*pageSize - 1, 3 * pageSize, 3*pageSize + 1}

func newFactory(impl string) securememory.SecretFactory {
	if impl == "memguard" {
		return new(memguard.SecretFactory)
	}
	return new(protectedmemory.SecretFactory)
}

func fill(n int, seed byte) []byte {
	b := make([]byte, n)
	for i := range b {
		b[i] = seed + byte(i*7) | 1
	}
	return b
}

func checkInside(b []byte, nested int) string {
	if len(b) == 0 {
		return "callback received an empty slice"
	}
	for _, a := range []uintptr{uintptr(unsafe.Pointer(&b[0])), uintptr(unsafe.Pointer(&b[len(b)-1]))} {
		st := pageState(a)
		if !st.Mapped || st.Perms != "r--p" {
			return fmt.Sprintf("inside a reader callback (nesting %d) the secret's page is %s, expected read-only r--p", nested, st)
		}
		if !st.Locked {
			return fmt.Sprintf("inside a reader callback the secret's page is not mlocked: %s", st)
		}
		if !st.DontDump {
			return fmt.Sprintf("inside a reader callback the secret's page is not excluded from core dumps: %s", st)
		}
	}
	return ""
}

func checkIdle(addr uintptr, what string) string {
	st := pageState(addr)
	if !st.Mapped {
		return fmt.Sprintf("%s the secret's page is unmapped although the secret is open", what)
	}
	if st.Perms != "---p" {
		return fmt.Sprintf("%s the secret's page is %s, expected inaccessible ---p", what, st)
	}
	if !st.Locked || !st.DontDump {
		return fmt.Sprintf("%s the secret's page lost its mlock / dontdump flags: %s", what, st)
	}
	return ""
}

func checkClosed(addr uintptr) string {
	st := pageState(addr)
	if st.Mapped && st.Locked {
		return fmt.Sprintf("after Close the secret's page is still mapped and locked: %s", st)
	}
	return ""
}

var tinySink *bool

var lastClosedAddr = map[string]uintptr{}

// churn flushes the allocator's tiny-object block and runs collections so that pending
// finalizers become runnable.
func churn() {
	for i := 0; i < 64; i++ {
		tinySink = new(bool)
	}
	tinySink = nil
	runtime.GC()
	runtime.GC()
	time.Sleep(2 * time.Millisecond)
}

//go:noinline
func lastReferenceRead(f securememory.SecretFactory, content []byte) (msg string) {
	defer debug.SetPanicOnFault(debug.SetPanicOnFault(true))
	defer func() {
		if p := recover(); p != nil {
			msg = fmt.Sprintf("a reader callback running on the last reference to a secret faulted (the pages were released under it): %v", p)
		}
	}()
	s, err := f.New(append([]byte(nil), content...))
	if err != nil {
		return "New failed: " + err.Error()
	}
	err = s.WithBytes(func(b []byte) error {
		for i := 0; i < 3; i++ {
			churn()
			if m := checkInside(b, 1); m != "" {
				return fmt.Errorf("after garbage collections during the callback: %s", m)
			}
			if !bytes.Equal(b, content) {
				return fmt.Errorf("after garbage collections during the callback the reader sees other bytes than the secret's content")
			}
		}
		return nil
	})
	if err != nil {
		return "read on the last reference to an unclosed secret: " + err.Error()
	}
	return ""
}

func TestSequential(t *testing.T) {
	kit.Check(t, 1200, 48000, func(t *rapid.T) {
		impl := rapid.SampledFrom([]string{"memguard", "protectedmemory"}).Draw(t, "impl")
		size := rapid.SampledFrom(sizes).Draw(t, "size")
		create := rapid.SampledFrom([]string{"New", "CreateRandom"}).Draw(t, "create")
		f := newFactory(impl)
		var want []byte
		var s securememory.Secret
		var err error
		var trace []string
		bad := func(format string, args ...any) {
			msg := fmt.Sprintf(format, args...)
			kit.Rec.Violation(msg)
			t.Fatalf("C11 violated [%s, %d bytes]: %s\n  program: %s", impl, size, msg, strings.Join(trace, "; "))
		}
		trace = append(trace, fmt.Sprintf("%s(%d)", create, size))
		if create == "New" {
			want = fill(size, byte(rapid.IntRange(0, 255).Draw(t, "seed")))
			src := append([]byte(nil), want...)
			s, err = f.New(src)
			if err == nil && !kit.AllZero(src) {
				bad("the source slice passed to New still holds the secret after New returned")
			}
		} else {
			s, err = f.CreateRandom(size)
		}
		if err != nil {
			bad("%s failed: %v", create, err)
		}
		var addr uintptr
		closed := false
		// the address of the last closed secret of this implementation and size: the kernel usually hands it to the
		// next one. Its state is sampled BEFORE the new secret's first access (there is no other way to look at a
		// secret that has never been read) and judged once the first access has shown that it is indeed the same address.
		reuseKey := fmt.Sprintf("%s|%d", impl, size)
		prevAddr := lastClosedAddr[reuseKey]
		var preFirstUse pageInfo
		if prevAddr != 0 {
			preFirstUse = pageState(prevAddr)
		}
		overlapped, closeInside := false, false
		panicked := false
		// closeGuarded: a Close that never returns (a reader count that can no longer reach zero) is a violation, not a slow test
		closeGuarded := func() error {
			done := make(chan error, 1)
			go func() { done <- s.Close() }()
			select {
			case e := <-done:
				return e
			case <-time.After(20 * time.Second):
				kit.Abort(fmt.Sprintf("C11 violated [%s, %d bytes]: Close did not return within 20s although no reader callback is running (callback panicked earlier: %v)\n  program: %s", impl, size, panicked, strings.Join(trace, "; ")))
				return nil
			}
		}
		// first access fixes the address and (for CreateRandom) the expected content
		if e := s.WithBytes(func(b []byte) error {
			addr = uintptr(unsafe.Pointer(&b[0]))
			if want == nil {
				want = append([]byte(nil), b...)
			}
			if len(b) != size {
				return fmt.Errorf("callback got %d bytes, expected %d", len(b), size)
			}
			if msg := checkInside(b, 1); msg != "" {
				return fmt.Errorf("%s", msg)
			}
			return nil
		}); e != nil {
			bad("%v", e)
		}
		if msg := checkIdle(addr, "after the first read"); msg != "" {
			bad("%s", msg)
		}
		if prevAddr != 0 && addr == prevAddr && preFirstUse.Mapped && preFirstUse.Locked && preFirstUse.Perms != "---p" {
			bad("before its first access the new secret's page (at the address a closed secret had before) was %s, expected inaccessible ---p", preFirstUse)
		}
		defer func() { lastClosedAddr[reuseKey] = addr }()
		n := rapid.IntRange(1, 8).Draw(t, "ops")
		for i := 0; i < n; i++ {
			op := rapid.SampledFrom([]string{"WithBytes", "WithBytesFunc", "Nested2", "Nested3", "Reader", "IsClosed", "Close", "Close", "ReadAfter", "ReaderAcrossClose", "LastReferenceRead", "PanicInCallback"}).Draw(t, "op")
			trace = append(trace, op)
			ran := 0
			var cbErr string
			inner := func(b []byte, depth int) {
				ran++
				if !bytes.Equal(b, want) {
					cbErr = "the callback saw other bytes than the secret's content"
				}
				if msg := checkInside(b, depth); msg != "" && cbErr == "" {
					cbErr = msg
				}
			}
			var opErr error
			switch op {
			case "WithBytes":
				opErr = s.WithBytes(func(b []byte) error { inner(b, 1); return nil })
			case "WithBytesFunc":
				var out []byte
				out, opErr = s.WithBytesFunc(func(b []byte) ([]byte, error) { inner(b, 1); return []byte{42}, nil })
				if opErr == nil && (len(out) != 1 || out[0] != 42) {
					bad("WithBytesFunc did not return the callback's result")
				}
			case "Nested2", "Nested3":
				depth := 2
				if op == "Nested3" {
					depth = 3
				}
				var nest func(d int) error
				nest = func(d int) error {
					return s.WithBytes(func(b []byte) error {
						inner(b, d)
						if d < depth {
							if e := nest(d + 1); e != nil {
								return e
							}
							// after the inner reader left, this one is still inside: pages must stay readable
							if msg := checkInside(b, d); msg != "" && cbErr == "" {
								cbErr = "after a nested reader returned: " + msg
							}
						}
						return nil
					})
				}
				opErr = nest(1)
				if !closed {
					overlapped = true
				}
			case "Reader":
				buf := make([]byte, rapid.SampledFrom([]int{1, 3, size, size + 5}).Draw(t, "buf"))
				r := s.NewReader()
				var got []byte
				for {
					k, e := r.Read(buf)
					got = append(got, buf[:k]...)
					if e != nil {
						if e.Error() != "EOF" {
							opErr = e
						}
						break
					}
					if k == 0 {
						break
					}
				}
				if opErr == nil {
					ran++
					if !bytes.Equal(got, want) {
						bad("Reader returned other bytes than the secret's content")
					}
				}
			case "PanicInCallback":
				// the callback panics and the application recovers: the secret is back to idle (no reader
				// is counted, pages inaccessible) and stays usable
				if closed {
					continue
				}
				viaFunc := rapid.Bool().Draw(t, "viaFunc")
				func() {
					defer func() { _ = recover() }()
					if viaFunc {
						_, _ = s.WithBytesFunc(func(b []byte) ([]byte, error) { panic("application panic inside the callback") })
					} else {
						_ = s.WithBytes(func(b []byte) error { panic("application panic inside the callback") })
					}
				}()
				if msg := checkIdle(addr, "after a callback panicked and the caller recovered"); msg != "" {
					bad("%s", msg)
				}
				panicked = true
				continue
			case "ReaderAcrossClose":
				// a Reader obtained (and partly consumed) before Close hands out nothing afterwards
				if closed {
					continue
				}
				r := s.NewReader()
				first := make([]byte, rapid.SampledFrom([]int{1, 3}).Draw(t, "firstRead"))
				k, e := r.Read(first)
				if e != nil && e.Error() != "EOF" {
					bad("Reader.Read on an open secret failed: %v", e)
				}
				if !bytes.Equal(first[:k], want[:k]) {
					bad("Reader returned other bytes than the secret's content")
				}
				if e := closeGuarded(); e != nil {
					bad("Close returned %v", e)
				}
				closed = true
				if msg := checkClosed(addr); msg != "" {
					bad("%s", msg)
				}
				rest := make([]byte, size+4)
				if k2, e2 := r.Read(rest); k2 > 0 {
					bad("a Reader created before Close handed out %d more byte(s) of the secret after Close had returned (err=%v): a copy of the secret outlives Close", k2, e2)
				}
				continue
			case "LastReferenceRead":
				// a secret used once and dropped without Close: the read callback runs while nothing else
				// refers to the secret; garbage collections (and finalizers) during the callback must not
				// pull the pages away from under the reader
				if impl != "protectedmemory" {
					continue // memguard secrets have no finalizer; an unclosed one would stay locked for good
				}
				if msg := lastReferenceRead(f, want); msg != "" {
					bad("%s", msg)
				}
				continue
			case "IsClosed":
				if s.IsClosed() != closed {
					bad("IsClosed() = %v, expected %v", s.IsClosed(), closed)
				}
				continue
			case "Close":
				if e := closeGuarded(); e != nil {
					bad("Close returned %v", e)
				}
				// the address is only known to be this secret's right after the Close that released it
				// (a later allocation may be given the same pages)
				if !closed {
					if msg := checkClosed(addr); msg != "" {
						bad("%s", msg)
					}
				}
				closed = true
				continue
			case "ReadAfter":
				if !closed {
					continue
				}
				opErr = s.WithBytes(func(b []byte) error { ran++; return nil })
			}
			if closed {
				if opErr == nil || ran > 0 {
					bad("%s after Close ran the callback or returned no error (err=%v)", op, opErr)
				}
				continue
			}
			if opErr != nil {
				bad("%s failed on an open secret: %v", op, opErr)
			}
			if cbErr != "" {
				bad("%s: %s", op, cbErr)
			}
			if msg := checkIdle(addr, "between accesses (after "+op+")"); msg != "" {
				bad("%s", msg)
			}
		}
		if !closed {
			if e := closeGuarded(); e != nil {
				bad("Close returned %v", e)
			}
			if msg := checkClosed(addr); msg != "" {
				bad("%s", msg)
			}
		}
		if !s.IsClosed() {
			bad("IsClosed() is false after Close")
		}
		kit.Rec.Case(impl+"|"+strings.Join(trace, ";"), overlapped || closeInside, func() any {
			return map[string]any{"implementation": impl, "program": trace}
		})
		kit.Rec.Label("seq:" + impl)
	})
}

// ---- concurrent readers and closers under delay plans -----------------------------------

type concResult struct {
	viol        string
	overlap     bool
	closeInside bool
	fired       int
}

func runConcurrent(impl string, size, readers, reads, closers int, closeDelays []time.Duration, plan []kit.PlanEntry) (res concResult, sites []string, hits map[string]int) {
	f := newFactory(impl)
	want := fill(size, 0x33)
	s, err := f.New(append([]byte(nil), want...))
	if err != nil {
		return concResult{viol: "New failed: " + err.Error()}, nil, nil
	}
	sc := kit.NewSched(plan, kit.SiteFilter("securememory/"+impl+"/"))
	sc.Install()
	defer sc.Remove()
	var active, maxActive atomic.Int64
	var closeReturned atomic.Bool
	var mu sync.Mutex
	var viols []string
	note := func(format string, args ...any) {
		mu.Lock()
		viols = append(viols, fmt.Sprintf(format, args...))
		mu.Unlock()
	}
	var sawCloseInside atomic.Bool
	var closing atomic.Bool
	var wg sync.WaitGroup
	for r := 0; r < readers; r++ {
		wg.Add(1)
		go func(r int) {
			defer wg.Done()
			defer debug.SetPanicOnFault(debug.SetPanicOnFault(true))
			defer func() {
				if p := recover(); p != nil {
					note("reader %d faulted while reading the secret inside its callback (pages were made inaccessible or unmapped under a running reader): %v", r, p)
					active.Add(-1)
				}
			}()
			for i := 0; i < reads; i++ {
				err := s.WithBytes(func(b []byte) error {
					n := active.Add(1)
					for {
						m := maxActive.Load()
						if n <= m || maxActive.CompareAndSwap(m, n) {
							break
						}
					}
					if closeReturned.Load() {
						note("reader %d: a callback started after Close had returned", r)
					}
					if closing.Load() {
						sawCloseInside.Store(true)
					}
					// touch every byte: faults if the page is PROT_NONE or gone
					if !bytes.Equal(b, want) {
						note("reader %d saw other bytes than the original secret", r)
					}
					if i%3 == 0 {
						if msg := checkInside(b, int(n)); msg != "" {
							note("reader %d: %s", r, msg)
						}
					}
					time.Sleep(time.Duration(50+37*((r+i)%5)) * time.Microsecond)
					if !bytes.Equal(b, want) {
						note("reader %d: the secret changed or vanished while the callback was running", r)
					}
					active.Add(-1)
					return nil
				})
				if err != nil {
					if !closing.Load() {
						note("reader %d: WithBytes failed before any Close was issued: %v", r, err)
					}
					return // closed: further reads only return errors
				}
			}
		}(r)
	}
	for c := 0; c < closers; c++ {
		wg.Add(1)
		go func(c int) {
			defer wg.Done()
			time.Sleep(closeDelays[c])
			closing.Store(true)
			if err := s.Close(); err != nil {
				note("Close returned %v", err)
			}
			if n := active.Load(); n != 0 {
				note("Close returned while %d reader callback(s) were still running", n)
			}
			closeReturned.Store(true)
		}(c)
	}
	done := make(chan struct{})
	go func() { wg.Wait(); close(done) }()
	select {
	case <-done:
	case <-time.After(30 * time.Second):
		return concResult{viol: "readers / closers did not finish within 30s (deadlock between readers and Close)"}, nil, nil
	}
	if !s.IsClosed() {
		note("IsClosed() is false after Close returned")
	}
	if e := s.WithBytes(func([]byte) error { note("a callback ran after Close"); return nil }); e == nil {
		note("WithBytes after Close returned no error")
	}
	res = concResult{overlap: maxActive.Load() >= 2, closeInside: sawCloseInside.Load(), fired: sc.Fired()}
	if len(viols) > 0 {
		res.viol = viols[0]
	}
	sites, hits = sc.Sites()
	return res, sites, hits
}

var profiled = map[string][]string{}
var profiledHits = map[string]map[string]int{}

func TestConcurrent(t *testing.T) {
	// profile run: which yield sites does this workload reach?
	for _, impl := range []string{"memguard", "protectedmemory"} {
		_, sites, hits := runConcurrent(impl, 64, 3, 6, 1, []time.Duration{300 * time.Microsecond}, nil)
		if len(sites) == 0 {
			t.Fatalf("no yield sites reached in %s: is the overlay active?", impl)
		}
		profiled[impl], profiledHits[impl] = sites, hits
	}
	kit.Rec.Extra("yield_sites_profiled", len(profiled["memguard"])+len(profiled["protectedmemory"]))
	kit.Check(t, 500, 32000, func(t *rapid.T) {
		impl := rapid.SampledFrom([]string{"memguard", "protectedmemory"}).Draw(t, "impl")
		size := rapid.SampledFrom([]int{1, 32, pageSize + 1}).Draw(t, "size")
		readers := rapid.IntRange(2, 4).Draw(t, "readers")
		reads := rapid.IntRange(2, 8).Draw(t, "reads")
		closers := rapid.IntRange(1, 2).Draw(t, "closers")
		delays := make([]time.Duration, closers)
		for i := range delays {
			delays[i] = time.Duration(rapid.IntRange(0, 1500).Draw(t, "closeDelay")) * time.Microsecond
		}
		plan := kit.DrawPlan(t, profiled[impl], profiledHits[impl], 3, []time.Duration{200 * time.Microsecond, time.Millisecond, 3 * time.Millisecond})
		res, _, _ := runConcurrent(impl, size, readers, reads, closers, delays, plan)
		var ps []string
		for _, p := range plan {
			ps = append(ps, fmt.Sprintf("%s#%d+%s", p.Site[strings.LastIndex(p.Site, "/")+1:], p.Hit, p.Pause))
		}
		desc := fmt.Sprintf("%s size=%d readers=%d x %d closers=%d closeDelays=%v plan=%v", impl, size, readers, reads, closers, delays, ps)
		if res.viol != "" {
			if strings.Contains(res.viol, "did not finish within") {
				kit.Abort("C11 violated: " + res.viol + "\n  case: " + desc)
			}
			kit.Rec.Violation(res.viol)
			t.Fatalf("C11 violated: %s\n  case: %s", res.viol, desc)
		}
		kit.Rec.Case(desc, res.overlap || res.closeInside, func() any {
			return map[string]any{"case": desc, "overlapping_readers": res.overlap, "close_while_reader_inside": res.closeInside, "pauses_fired": res.fired}
		})
		if res.overlap {
			kit.Rec.Label("conc:overlap")
		}
		if res.closeInside {
			kit.Rec.Label("conc:close-while-inside")
		}
		if res.fired > 0 {
			kit.Rec.Label("conc:pause-fired")
		}
	})
}
