// Package c11: secure memory - locked, no-access when idle, readable only in use, gone on Close.
package c11

import (
	"bufio"
	"bytes"
	"os"
	"strconv"
	"strings"
)

// pageInfo is what the kernel reports for the mapping that covers an address.
type pageInfo struct {
	Mapped   bool
	Perms    string // e.g. "r--p", "---p", "rw-p"
	Locked   bool   // VmFlags contains "lo"
	DontDump bool   // VmFlags contains "dd"
	Range    string
}

func (p pageInfo) String() string {
	if !p.Mapped {
		return "unmapped"
	}
	s := p.Perms
	if p.Locked {
		s += " locked"
	}
	if p.DontDump {
		s += " dontdump"
	}
	return s + " [" + p.Range + "]"
}

// pageState looks up addr in /proc/self/smaps.
func pageState(addr uintptr) pageInfo {
	data, err := os.ReadFile("/proc/self/smaps")
	if err != nil {
		panic(err)
	}
	var cur pageInfo
	in := false
	sc := bufio.NewScanner(bytes.NewReader(data))
	sc.Buffer(make([]byte, 1<<16), 1<<20)
	for sc.Scan() {
		line := sc.Text()
		if len(line) > 0 && (line[0] >= '0' && line[0] <= '9' || line[0] >= 'a' && line[0] <= 'f') && strings.Contains(line, "-") && !strings.Contains(line[:min(len(line), 20)], ":") {
			// header: "7f...-7f... perms offset dev inode path"
			if in {
				return cur
			}
			f := strings.Fields(line)
			if len(f) < 2 {
				continue
			}
			r := strings.SplitN(f[0], "-", 2)
			lo, e1 := strconv.ParseUint(r[0], 16, 64)
			hi, e2 := strconv.ParseUint(r[1], 16, 64)
			if e1 != nil || e2 != nil {
				continue
			}
			if uint64(addr) >= lo && uint64(addr) < hi {
				in = true
				cur = pageInfo{Mapped: true, Perms: f[1], Range: f[0]}
			}
			continue
		}
		if in && strings.HasPrefix(line, "VmFlags:") {
			for _, fl := range strings.Fields(line[len("VmFlags:"):]) {
				switch fl {
				case "lo":
					cur.Locked = true
				case "dd":
					cur.DontDump = true
				}
			}
			return cur
		}
	}
	if in {
		return cur
	}
	return pageInfo{}
}
