// Package c20: key caching avoids external calls, and only for one revoke-check interval.
package c20

import (
	"fmt"
	"sort"
	"strings"
	"testing"
	"time"

	"github.com/godaddy/asherah/go/appencryption"
	"pgregory.net/rapid"
	"verif/kit"
	"verif/world"
)

func TestMain(m *testing.M) {
	kit.Main(m, "C20", "exploration",
		"rapid state machine over the real SDK with a virtual clock and spy store/KMS: caching on (per-session, shared IK, session cache; every eviction policy; capacities that hold the working set) or off; "+
			"many repeated encrypts/decrypts on held and fresh sessions over 2-3 partitions, clock steps placed just inside / at / just past the revoke-check interval, occasional rotation and revocation. "+
			"Oracle on the call log: (a) a repeat of a succeeded encrypt (same cache, partition) or decrypt (same cache, record) while now <= lastLoad(key)+interval and the key is valid issues zero store/KMS calls; "+
			"(b) per factory and SK row successive KMS.DecryptKey calls are more than one interval apart; (c) the first use after the interval reads the IK row exactly once, the SK row and KMS at most once, writes nothing; "+
			"(d) with caching disabled every call reads the store and leaves no live secret behind. One evaluation = one history. "+
			"Plus a concurrent part: 2-8 sessions over 1-6 partitions of one factory start at the same instant (clock frozen) on a cold factory or right after the interval elapsed, under a drawn delay plan over the yield points of key_cache.go / envelope.go: every operation succeeds, the KMS unwraps the system key at most once, its record is read at most once, nothing is written. "+
			"Non-trivial = a history with >= 3 asserted free repeats inside one interval and >= 1 asserted post-interval re-read; distinct = distinct (cache class, #free repeats bucket, #rereads bucket, rotated?)",
		"virtual clock injected by build overlay", "working set fits the caches (asserted only then)", "call counts during rotation / revocation handling are not asserted")
}

var weights = map[string]int{"encrypt": 9, "decrypt": 8, "open": 1, "close": 1, "restart": 1, "advance": 5, "revoke": 1, "rotate": 1, "pressure": 0}

func drawPolicy(t *rapid.T) *appencryption.CryptoPolicy {
	p := appencryption.NewCryptoPolicy()
	p.ExpireKeyAfter = rapid.SampledFrom([]time.Duration{2 * time.Minute, time.Hour, 90 * 24 * time.Hour}).Draw(t, "expire")
	p.RevokeCheckInterval = rapid.SampledFrom([]time.Duration{time.Second, 10 * time.Second, time.Minute, time.Hour}).Draw(t, "interval")
	p.CreateDatePrecision = rapid.SampledFrom([]time.Duration{0, time.Second, time.Minute}).Draw(t, "precision")
	if rapid.IntRange(0, 99).Draw(t, "nocache") < 12 {
		p.CacheSystemKeys, p.CacheIntermediateKeys = false, false
	}
	pols := []string{"", "simple", "lru", "lfu", "slru", "tinylfu"}
	caps := []int{10, 99, 100, 101, 1000}
	p.SystemKeyCacheEvictionPolicy = rapid.SampledFrom(pols).Draw(t, "skPolicy")
	p.SystemKeyCacheMaxSize = rapid.SampledFrom(caps).Draw(t, "skCap")
	p.IntermediateKeyCacheEvictionPolicy = rapid.SampledFrom(pols).Draw(t, "ikPolicy")
	p.IntermediateKeyCacheMaxSize = rapid.SampledFrom(caps).Draw(t, "ikCap")
	if rapid.IntRange(0, 99).Draw(t, "shared") < 35 {
		p.SharedIntermediateKeyCache = true
	}
	if rapid.IntRange(0, 99).Draw(t, "sessCache") < 30 {
		p.CacheSessions = true
		p.SessionCacheMaxSize = rapid.IntRange(1, 4).Draw(t, "sessCap")
		p.SessionCacheDuration = rapid.SampledFrom([]time.Duration{0, time.Minute, 2 * time.Hour}).Draw(t, "sessDur")
		p.SessionCacheEvictionPolicy = rapid.SampledFrom([]string{"", "lru", "lfu", "slru", "tinylfu"}).Draw(t, "sessPolicy")
	}
	return p
}

func TestWorld(t *testing.T) {
	kit.Steps(kit.Pick(50, 70))
	kit.Check(t, 2500, 96000, func(t *rapid.T) { runHistory(t) })
}

type rowKey struct {
	id      string
	created int64
}

type monitorState struct {
	w        *world.World
	lastLoad map[string]int64 // cacheID|id|created -> time of last load on that cache
	keysIn   map[string]map[rowKey]bool
	skLoad   map[string]int64 // proc|gen|created -> last SK load
	prevEnc  map[string]*world.Event
	prevDec  map[string]*world.Event
	free     int
	reread   int
	rotated  bool
	kmsSeen  map[string]int64 // proc|gen|ctfp -> time of last DecryptKey
}

func cacheID(ev *world.Event) string {
	pol := ev.Proc.Policy
	if pol.SharedIntermediateKeyCache && pol.CacheIntermediateKeys {
		return fmt.Sprintf("%s.%d/shared", ev.Proc.Name, ev.Proc.Gen)
	}
	return fmt.Sprintf("%s.%d/%p", ev.Proc.Name, ev.Proc.Gen, ev.Sess.S)
}

func runHistory(t *rapid.T) {
	w := world.New(t, world.Options{MaxProcs: 2, SmallPayloads: true, NoRetainAEAD: true, HomogeneousTime: true, FixedPolicy: drawPolicy, SimpleIDs: true, Partitions: rapid.IntRange(2, 3).Draw(t, "np")})
	defer w.Teardown()
	ms := &monitorState{w: w, lastLoad: map[string]int64{}, keysIn: map[string]map[rowKey]bool{}, skLoad: map[string]int64{}, prevEnc: map[string]*world.Event{}, prevDec: map[string]*world.Event{}, kmsSeen: map[string]int64{}}
	w.OnOp = func(ev *world.Event) { ms.monitor(t, ev) }
	t.Repeat(kit.Weighted(w.Actions(), weights, nil))
	bucket := func(n int) string {
		switch {
		case n == 0:
			return "0"
		case n < 3:
			return "1-2"
		case n < 10:
			return "3-9"
		default:
			return "10+"
		}
	}
	classes := map[string]bool{}
	for _, p := range w.Procs {
		classes[world.CacheClass(p.Policy)] = true
	}
	var cs []string
	for c := range classes {
		cs = append(cs, c)
	}
	sort.Strings(cs)
	shape := fmt.Sprintf("%s|free=%s|reread=%s|rot=%v", strings.Join(cs, "+"), bucket(ms.free), bucket(ms.reread), ms.rotated)
	kit.Rec.Case(shape, ms.free >= 3 && ms.reread >= 1, func() any {
		var procs []string
		for _, p := range w.Procs {
			procs = append(procs, p.Name+": "+world.PolicyString(p.Policy))
		}
		return map[string]any{"procs": procs, "history": w.History(), "asserted_free_repeats": ms.free, "asserted_rereads": ms.reread}
	})
	kit.Rec.LabelN("asserted-free-repeat", int64(ms.free))
	kit.Rec.LabelN("asserted-reread", int64(ms.reread))
}

func fail(t *rapid.T, w *world.World, format string, args ...any) {
	msg := fmt.Sprintf(format, args...)
	kit.Rec.Violation(msg)
	t.Fatalf("C20 violated: %s\n%s", msg, w.Describe())
}

func callsString(cs []kit.Call) string {
	var s []string
	for _, c := range cs {
		s = append(s, c.String())
	}
	return "[" + strings.Join(s, " ") + "]"
}

func (ms *monitorState) monitor(t *rapid.T, ev *world.Event) {
	w := ms.w
	switch ev.Kind {
	case "revoke", "rotate":
		ms.rotated = true
		return
	case "encrypt", "decrypt":
	default:
		return
	}
	if ev.Err != nil {
		fail(t, w, "%s failed in a fault-free history: %v", ev.Kind, ev.Err)
	}
	pol := ev.Proc.Policy
	calls := w.Log.Calls[ev.CallFrom:ev.CallTo]
	now := time.Unix(0, ev.At)
	iv := pol.RevokeCheckInterval
	procKey := fmt.Sprintf("%s.%d", ev.Proc.Name, ev.Proc.Gen)

	// (d) caching disabled: nothing is retained, every call reads
	if !pol.CacheSystemKeys && !pol.CacheIntermediateKeys {
		reads := 0
		for _, c := range calls {
			if c.Target == "store" && (c.Op == "Load" || c.Op == "LoadLatest") {
				reads++
			}
		}
		if reads == 0 {
			fail(t, w, "%s with key caching disabled issued no metastore read (something was retained): %s", ev.Kind, callsString(calls))
		}
		for _, si := range w.Secrets.InfosRange(ev.SecretFrom, ev.SecretTo) {
			if si.Closed == 0 {
				if w.IsParentMismatchSKLeak(ev, si) && kit.KnownOpen("C20", "sk-ref-leak-on-parent-mismatch") {
					kit.Rec.Known("sk-ref-leak-on-parent-mismatch", "duplicate-IK fallback onto an IK wrapped by another SK: the SK looked up to unwrap it is never released, so it is retained even with key caching disabled")
					continue
				}
				fail(t, w, "%s with key caching disabled retained %s after the call returned", ev.Kind, si)
			}
		}
		kit.Rec.Label("nocache-op")
		return
	}
	if !(pol.CacheSystemKeys && pol.CacheIntermediateKeys) {
		return
	}

	// (b) the KMS unwraps an SK row at most once per factory per interval. Operations
	// that create keys (a Store, or LoadLatest on the SK id, which only the IK
	// creation path issues) are rotation handling: their call counts are not asserted.
	creating := false
	for _, c := range calls {
		if c.Target == "store" && (c.Op == "Store" || (c.Op == "LoadLatest" && c.ID == w.SKID())) {
			creating = true
		}
		if c.Target == "store" && c.Op == "Store" && c.OK && c.ID == w.SKID() {
			if ms.keysIn["sk:"+procKey] == nil {
				ms.keysIn["sk:"+procKey] = map[rowKey]bool{}
			}
			if r := w.Store.Get(c.ID, c.Created); r != nil {
				ms.keysIn["sk:"+procKey][rowKey{kit.Fp(r.Rec.EncryptedKey), 0}] = true
			}
		}
	}
	for _, c := range calls {
		if c.Target != "kms" || c.Op != "DecryptKey" || !c.OK {
			continue
		}
		k := procKey + "|" + c.ID
		if ms.keysIn["sk:"+procKey] == nil {
			ms.keysIn["sk:"+procKey] = map[rowKey]bool{}
		}
		ms.keysIn["sk:"+procKey][rowKey{c.ID, 0}] = true
		skFits := pol.SystemKeyCacheEvictionPolicy == "" || pol.SystemKeyCacheEvictionPolicy == "simple" || len(ms.keysIn["sk:"+procKey]) <= pol.SystemKeyCacheMaxSize
		if last, ok := ms.kmsSeen[k]; ok && skFits && !creating {
			gap := time.Duration(ev.At - last)
			if gap <= iv {
				// which SK row is it? only assert when that row is valid (revocation handling is not asserted)
				valid := true
				for _, r := range w.Store.RowsFor(w.SKID()) {
					if kit.Fp(r.Rec.EncryptedKey) == c.ID && (r.Rec.Revoked || now.After(time.Unix(r.Created, 0).Add(pol.ExpireKeyAfter))) {
						valid = false
					}
				}
				if valid {
					fail(t, w, "factory %s asked the KMS to unwrap the same system key twice within %s (revoke-check interval %s)", procKey, gap, iv)
				}
			}
		}
		ms.kmsSeen[k] = ev.At
		kit.Rec.Label("kms-decrypt")
	}

	cid := cacheID(ev)
	// which IK is "involved"?
	var x rowKey
	var prev *world.Event
	var prevKey string
	if ev.Kind == "encrypt" {
		prevKey = cid + "|" + ev.Partition
		prev = ms.prevEnc[prevKey]
		if prev != nil && prev.Rec != nil {
			// the key involved in a repeated encrypt is the newest key of the partition this cache
			// knows (a decrypt of a record under a newer key makes that key the cache's latest)
			x = rowKey{prev.Rec.IKID, prev.Rec.IKCreated}
			for k := range ms.keysIn[cid] {
				if k.id == x.id && k.created > x.created {
					x = k
				}
			}
		}
	} else {
		prevKey = fmt.Sprintf("%s|rec%d", cid, ev.Rec.ID)
		prev = ms.prevDec[prevKey]
		x = rowKey{ev.Rec.IKID, ev.Rec.IKCreated}
	}
	fits := len(ms.keysIn[cid]) <= capOf(pol)
	if prev != nil && fits {
		xr := w.Store.Get(x.id, x.created)
		llKey := cid + "|" + x.id + "|" + fmt.Sprint(x.created)
		last, loaded := ms.lastLoad[llKey]
		valid := xr != nil && !xr.Rec.Revoked && !now.After(time.Unix(x.created, 0).Add(pol.ExpireKeyAfter))
		if ev.Kind == "decrypt" {
			valid = xr != nil // decrypt never re-validates expiry; a key flagged revoked is not re-read either
		}
		if loaded && valid {
			if !now.After(time.Unix(0, last).Add(iv)) {
				// (a) inside the interval: free
				if len(calls) != 0 {
					fail(t, w, "repeated %s on a warm cache %s after its IK row was last read (IK %s@%d, revoke-check interval %s) issued external calls %s",
						ev.Kind, time.Duration(ev.At-last), x.id, x.created, iv, callsString(calls))
				}
				ms.free++
			} else if (ev.Kind == "decrypt" && !xr.Rec.Revoked) || isLatestValid(w, pol, xr, now) {
				// (a decrypt re-reads the record's own key whether or not a newer generation exists)
				// (c) first use after the interval: one read of the IK row, SK row and KMS at most once, no writes
				ikReads, skReads, kms, writes := 0, 0, 0, 0
				for _, c := range calls {
					switch {
					case c.Target == "store" && c.Op == "Store", c.Target == "kms" && c.Op == "EncryptKey":
						writes++
					case c.Target == "store" && c.ID == x.id:
						ikReads++
					case c.Target == "store" && c.ID == w.SKID():
						skReads++
					case c.Target == "kms":
						kms++
					}
				}
				if ikReads != 1 || skReads > 1 || kms > 1 || writes != 0 || len(calls) != ikReads+skReads+kms {
					fail(t, w, "first %s %s after the IK row was last read (interval %s) should re-read it exactly once (SK row and KMS at most once, no writes) but issued %s",
						ev.Kind, time.Duration(ev.At-last), iv, callsString(calls))
				}
				ms.reread++
			}
		}
	} else if !fits {
		kit.Rec.Label("working-set-exceeds-capacity")
	}

	// bookkeeping: which cache entry did this operation (re)load? For an encrypt it is
	// the key it ended up using, if the operation touched that key id in the store at
	// all; for a decrypt it is the record's key if its row was read.
	touch := func(rk rowKey) {
		ms.lastLoad[cid+"|"+rk.id+"|"+fmt.Sprint(rk.created)] = ev.At
		if ms.keysIn[cid] == nil {
			ms.keysIn[cid] = map[rowKey]bool{}
		}
		ms.keysIn[cid][rk] = true
	}
	for _, c := range calls {
		if c.Target != "store" {
			continue
		}
		if ev.Kind == "encrypt" && c.ID == ev.Rec.IKID {
			touch(rowKey{ev.Rec.IKID, ev.Rec.IKCreated})
		}
		if ev.Kind == "decrypt" && c.Op == "Load" && c.OK && c.ID == ev.Rec.IKID && c.Created == ev.Rec.IKCreated {
			touch(rowKey{c.ID, c.Created})
		}
	}
	if ev.Kind == "encrypt" {
		ms.prevEnc[prevKey] = ev
		// a record produced here can be decrypted for free on this cache
		ms.prevDec[fmt.Sprintf("%s|rec%d", cid, ev.Rec.ID)] = ev
		if ms.keysIn[cid] == nil {
			ms.keysIn[cid] = map[rowKey]bool{}
		}
		ms.keysIn[cid][rowKey{ev.Rec.IKID, ev.Rec.IKCreated}] = true
		if _, ok := ms.lastLoad[cid+"|"+ev.Rec.IKID+"|"+fmt.Sprint(ev.Rec.IKCreated)]; !ok {
			// key obtained without a visible load (e.g. session cache hit on a shared session): unknown freshness
			kit.Rec.Label("ik-without-visible-load")
		}
	} else {
		ms.prevDec[prevKey] = ev
	}
}

func capOf(pol *appencryption.CryptoPolicy) int {
	if pol.IntermediateKeyCacheEvictionPolicy == "" || pol.IntermediateKeyCacheEvictionPolicy == "simple" {
		return 1 << 30
	}
	return pol.IntermediateKeyCacheMaxSize
}

// isLatestValid: the IK is the latest row of its id, valid, and its SK is valid:
// a re-read then needs no rotation.
func isLatestValid(w *world.World, pol *appencryption.CryptoPolicy, xr *kit.Row, now time.Time) bool {
	if xr == nil || xr.Rec.Revoked || now.After(time.Unix(xr.Created, 0).Add(pol.ExpireKeyAfter)) {
		return false
	}
	if l := w.Store.Latest(xr.ID); l == nil || l.Created != xr.Created {
		return false
	}
	pm := xr.Rec.ParentKeyMeta
	if pm == nil {
		return false
	}
	sk := w.Store.Get(pm.ID, pm.Created)
	if sk == nil || sk.Rec.Revoked || now.After(time.Unix(sk.Created, 0).Add(pol.ExpireKeyAfter)) {
		return false
	}
	return true
}
