package c20

import (
	"bytes"
	"context"
	"fmt"
	"strings"
	"sync"
	"testing"
	"time"

	"github.com/godaddy/asherah/go/appencryption"
	"github.com/godaddy/asherah/go/appencryption/pkg/crypto/aead"
	"pgregory.net/rapid"
	"verif/kit"
	"verifhook"
)

// "... a system key is unwrapped by the KMS at most once per factory per interval however many
// sessions and partitions use it, and after the interval the next use re-reads the key's record once."
//
// Several sessions of ONE factory use their partitions at the same instant (virtual clock frozen),
// either on a cold factory or right after the revoke-check interval elapsed, under a drawn delay
// plan over the statement-level yield points of key_cache.go / envelope.go.

var bg = context.Background()

type concCfg struct {
	pol     *appencryption.CryptoPolicy
	parts   int
	workers int
	phase   string   // "cold" or "stale"
	ops     [][]bool // per worker: true = encrypt, false = decrypt
}

func (c concCfg) String() string {
	p := c.pol
	var ops []string
	for _, w := range c.ops {
		s := ""
		for _, e := range w {
			if e {
				s += "E"
			} else {
				s += "D"
			}
		}
		ops = append(ops, s)
	}
	return fmt.Sprintf("phase=%s partitions=%d workers=%d ops=%s ik=%s/%d sk=%s/%d shared=%v sessions=%v interval=%s", c.phase, c.parts, c.workers, strings.Join(ops, ","),
		p.IntermediateKeyCacheEvictionPolicy, p.IntermediateKeyCacheMaxSize, p.SystemKeyCacheEvictionPolicy, p.SystemKeyCacheMaxSize, p.SharedIntermediateKeyCache, p.CacheSessions, p.RevokeCheckInterval)
}

func drawConc(t *rapid.T) concCfg {
	p := appencryption.NewCryptoPolicy()
	p.ExpireKeyAfter = time.Hour
	p.RevokeCheckInterval = rapid.SampledFrom([]time.Duration{time.Second, 10 * time.Second, time.Minute}).Draw(t, "interval")
	p.CreateDatePrecision = time.Minute
	pols := []string{"", "simple", "lru", "lfu", "slru", "tinylfu"}
	p.SystemKeyCacheEvictionPolicy = rapid.SampledFrom(pols).Draw(t, "skPolicy")
	p.IntermediateKeyCacheEvictionPolicy = rapid.SampledFrom(pols).Draw(t, "ikPolicy")
	p.SystemKeyCacheMaxSize = rapid.SampledFrom([]int{100, 1000}).Draw(t, "skCap")
	p.IntermediateKeyCacheMaxSize = rapid.SampledFrom([]int{100, 1000}).Draw(t, "ikCap")
	p.SharedIntermediateKeyCache = rapid.Bool().Draw(t, "shared")
	if rapid.IntRange(0, 3).Draw(t, "sessCache") == 0 {
		p.CacheSessions = true
		p.SessionCacheMaxSize = 100
		p.SessionCacheDuration = 2 * time.Hour
	}
	c := concCfg{pol: p, parts: rapid.IntRange(1, 6).Draw(t, "partitions"), workers: rapid.IntRange(2, 8).Draw(t, "workers"), phase: rapid.SampledFrom([]string{"cold", "stale", "stale"}).Draw(t, "phase")}
	for i := 0; i < c.workers; i++ {
		c.ops = append(c.ops, rapid.SliceOfN(rapid.Bool(), 1, 3).Draw(t, "ops"))
	}
	return c
}

type concOut struct {
	viol  string
	sites []string
	hits  map[string]int
	fired int
	kms   int
	skLd  int
}

func runConc(c concCfg, plan []kit.PlanEntry) (o concOut) {
	verifhook.InstallClock(time.Unix(1_700_000_030, 0))
	defer verifhook.RemoveClock()
	log := &kit.CallLog{}
	store := kit.NewStore(log)
	kmsSpy := kit.NewSpyKMS(log)
	secrets := kit.NewTracker()
	mk := func() *appencryption.SessionFactory {
		return appencryption.NewSessionFactory(&appencryption.Config{Service: "svc", Product: "prod", Policy: c.pol}, store, kmsSpy, aead.NewAES256GCM(), appencryption.WithSecretFactory(secrets))
	}
	f := mk()
	defer func() { f.Close() }()
	type rec struct {
		payload []byte
		drr     appencryption.DataRowRecord
	}
	recs := make([]rec, c.parts)
	for i := range recs {
		s, err := f.GetSession(fmt.Sprintf("p%d", i))
		if err != nil {
			return concOut{viol: "harness: " + err.Error()}
		}
		pay := []byte(fmt.Sprintf("seed-%d", i))
		r, err := s.Encrypt(bg, pay)
		s.Close()
		if err != nil {
			return concOut{viol: "harness: seeding encrypt failed: " + err.Error()}
		}
		k := *r.Key
		pm := *r.Key.ParentKeyMeta
		k.ParentKeyMeta = &pm
		recs[i] = rec{pay, appencryption.DataRowRecord{Key: &k, Data: r.Data}}
	}
	if c.phase == "cold" {
		f.Close()
		f = mk()
	} else {
		verifhook.Advance(c.pol.RevokeCheckInterval + time.Second)
	}
	// sessions are opened before the race so that the race is about the key caches
	sess := make([]*appencryption.Session, c.workers)
	for w := range sess {
		s, err := f.GetSession(fmt.Sprintf("p%d", w%c.parts))
		if err != nil {
			return concOut{viol: "harness: " + err.Error()}
		}
		sess[w] = s
	}
	before := log.Len()
	sc := kit.NewSched(plan, kit.SiteFilter("key_cache.go", "envelope.go"))
	sc.Install()
	start := make(chan struct{})
	errs := make([]string, c.workers)
	var wg sync.WaitGroup
	for w := 0; w < c.workers; w++ {
		wg.Add(1)
		go func(w int) {
			defer wg.Done()
			defer func() {
				if p := recover(); p != nil {
					errs[w] = fmt.Sprintf("worker %d panicked: %v", w, p)
				}
			}()
			<-start
			r := recs[w%c.parts]
			for i, enc := range c.ops[w] {
				if enc {
					if _, err := sess[w].Encrypt(bg, []byte("x")); err != nil {
						errs[w] = fmt.Sprintf("worker %d op %d: encrypt failed: %v", w, i, err)
						return
					}
					continue
				}
				k := *r.drr.Key
				out, err := sess[w].Decrypt(bg, appencryption.DataRowRecord{Key: &k, Data: r.drr.Data})
				if err != nil || !bytes.Equal(out, r.payload) {
					errs[w] = fmt.Sprintf("worker %d op %d: decrypt failed: %v", w, i, err)
					return
				}
			}
		}(w)
	}
	close(start)
	done := make(chan struct{})
	go func() { wg.Wait(); close(done) }()
	select {
	case <-done:
	case <-time.After(30 * time.Second):
		sc.Remove()
		return concOut{viol: "hang: concurrent sessions did not finish within 30s"}
	}
	sc.Remove()
	o.fired = sc.Fired()
	o.sites, o.hits = sc.Sites()
	for _, s := range sess {
		s.Close()
	}
	for _, e := range errs {
		if e != "" {
			o.viol = e
			return
		}
	}
	var calls []string
	for _, cl := range log.Since(before) {
		calls = append(calls, cl.String())
		switch {
		case cl.Target == "kms" && cl.Op == "DecryptKey":
			o.kms++
		case cl.Target == "store" && cl.Op == "Load" && strings.HasPrefix(cl.ID, "_SK_"):
			o.skLd++
		case cl.Target == "store" && cl.Op == "Store", cl.Target == "kms" && cl.Op == "EncryptKey":
			o.viol = fmt.Sprintf("a key was created although every key is valid: %s", cl)
			return
		}
	}
	what := "on a cold factory"
	if c.phase == "stale" {
		what = "right after the revoke-check interval elapsed"
	}
	if o.kms > 1 {
		o.viol = fmt.Sprintf("%d sessions using one factory at the same instant %s had the system key unwrapped by the KMS %d times (at most once per factory per interval); external calls: %s", c.workers, what, o.kms, strings.Join(calls, " "))
	} else if o.skLd > 1 {
		o.viol = fmt.Sprintf("%d sessions using one factory at the same instant %s read the system key record %d times (once); external calls: %s", c.workers, what, o.skLd, strings.Join(calls, " "))
	}
	return
}

func TestConcurrentSessionsOneUnwrap(t *testing.T) {
	kit.Check(t, 250, 8000, func(t *rapid.T) {
		c := drawConc(t)
		prof := runConc(c, nil)
		fail := func(o concOut, plan []kit.PlanEntry) {
			if strings.HasPrefix(o.viol, "hang:") {
				kit.Abort(fmt.Sprintf("C20 violated: %s\n  %s\n  delay plan %v", o.viol, c, plan))
			}
			kit.Rec.Violation(o.viol)
			t.Fatalf("C20 violated: %s\n  %s\n  delay plan %v", o.viol, c, plan)
		}
		if prof.viol != "" {
			fail(prof, nil)
		}
		plan := kit.DrawPlan(t, prof.sites, prof.hits, 3, []time.Duration{200 * time.Microsecond, time.Millisecond, 3 * time.Millisecond})
		o := runConc(c, plan)
		if o.viol != "" {
			fail(o, plan)
		}
		kit.Rec.Case("conc|"+c.String()+fmt.Sprint(plan), o.fired > 0 && c.workers > c.parts, func() any {
			return map[string]any{"concurrent": c.String(), "delay_plan": fmt.Sprint(plan), "kms_unwraps": o.kms, "sk_record_reads": o.skLd}
		})
		kit.Rec.Label("concurrent:" + c.phase)
	})
}
