package c20

import (
	"testing"
	"time"

	"github.com/godaddy/asherah/go/appencryption"
	"pgregory.net/rapid"
	"verif/kit"
	"verif/world"
)

// ParentMismatchScenario drives the history of the listed finding
// sk-ref-leak-on-parent-mismatch and returns the leaking encrypt event.
func parentMismatchScenario(rt *rapid.T, cache bool) (*world.World, *world.Event) {
	pol := func(*rapid.T) *appencryption.CryptoPolicy {
		p := appencryption.NewCryptoPolicy()
		p.ExpireKeyAfter, p.RevokeCheckInterval, p.CreateDatePrecision = time.Hour, 10*time.Second, time.Minute
		p.CacheSystemKeys, p.CacheIntermediateKeys = cache, cache
		return p
	}
	w := world.New(rt, world.Options{MaxProcs: 1, SimpleIDs: true, Partitions: 1, FixedPolicy: pol, SmallPayloads: true, HomogeneousTime: true})
	part := w.Parts[0]
	w.ExternalRotate(part, true) // SK@t0, IK@t0 written by another process
	w.Advance(time.Minute)
	w.ExternalRotate(part, false) // IK@t1 under SK@t0
	w.RevokeRow(w.SKID(), w.Store.Latest(w.SKID()).Created, true)
	s := w.Open(w.Procs[0], part)
	ev, _ := w.Encrypt(s, []byte("x"), false, true)
	return w, ev
}

// TestKnownParentMismatchLeak replays the listed open finding deterministically (never fails).
func TestKnownParentMismatchLeak(t *testing.T) {
	if !kit.KnownOpen("C20", "sk-ref-leak-on-parent-mismatch") {
		t.Skip("not listed as open")
	}
	kit.Scripted(t, func(rt *rapid.T) {
		w, ev := parentMismatchScenario(rt, false)
		defer w.Teardown()
		if ev.Err != nil {
			rt.Fatalf("encrypt failed: %v", ev.Err)
		}
		for _, si := range w.Secrets.InfosRange(ev.SecretFrom, ev.SecretTo) {
			if si.Closed == 0 && w.IsParentMismatchSKLeak(ev, si) {
				kit.Rec.Known("sk-ref-leak-on-parent-mismatch", "with key caching disabled: another process wrote the IK for the current stamp under SK1, SK1 is revoked, this process creates SK2, collides on the IK stamp and falls back to the stored IK; the SK1 secret it loads to unwrap it stays live after Encrypt returns")
			}
		}
	})
}
