package c20

import (
	"testing"

	"github.com/godaddy/asherah/go/appencryption"
	"pgregory.net/rapid"
	"verif/kit"
	"verif/world"
)

// TestRegressNoCacheIgnoresSharedFlag: the fixed defect "shared-ik-cache-with-caching-disabled".
func TestRegressNoCacheIgnoresSharedFlag(t *testing.T) {
	kit.Scripted(t, func(rt *rapid.T) {
		pol := func(*rapid.T) *appencryption.CryptoPolicy {
			return appencryption.NewCryptoPolicy(appencryption.WithSharedIntermediateKeyCache(10), appencryption.WithNoCache())
		}
		w := world.New(rt, world.Options{MaxProcs: 1, SimpleIDs: true, Partitions: 1, FixedPolicy: pol, SmallPayloads: true})
		defer w.Teardown()
		s := w.Open(w.Procs[0], w.Parts[0])
		for i := 0; i < 2; i++ {
			ev, rec := w.Encrypt(s, []byte("x"), false, i == 0)
			if rec == nil {
				rt.Fatalf("encrypt failed: %v", ev.Err)
			}
			for _, si := range w.Secrets.InfosRange(ev.SecretFrom, ev.SecretTo) {
				if si.Closed == 0 {
					kit.Rec.Violation("regression: WithNoCache + WithSharedIntermediateKeyCache retains keys")
					rt.Fatalf("C20 violated: with WithNoCache() and WithSharedIntermediateKeyCache(10) the encrypt retained %s", si)
				}
			}
		}
		kit.Rec.Case("regress-nocache-shared", true, nil)
	})
}
