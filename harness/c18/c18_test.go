// Package c18: stored and wire formats follow the documented, cross-language layout.
package c18

import (
	"bytes"
	"context"
	"encoding/base64"
	"encoding/json"
	"fmt"
	"io"
	"log"
	"strconv"
	"strings"
	"testing"
	"time"

	"github.com/aws/aws-sdk-go/aws"
	"github.com/aws/aws-sdk-go/aws/session"
	"github.com/godaddy/asherah/go/appencryption"
	"github.com/godaddy/asherah/go/appencryption/pkg/crypto/aead"
	"github.com/godaddy/asherah/go/appencryption/pkg/kms"
	"github.com/godaddy/asherah/go/appencryption/pkg/persistence"
	v1persistence "github.com/godaddy/asherah/go/appencryption/plugins/aws-v1/persistence"
	v2metastore "github.com/godaddy/asherah/go/appencryption/plugins/aws-v2/dynamodb/metastore"
	pb "github.com/godaddy/asherah/server/go/api"
	"github.com/godaddy/asherah/server/go/pkg/server"
	"google.golang.org/grpc/metadata"
	"pgregory.net/rapid"
	"verif/fakes"
	"verif/kit"
	"verifhook"
)

func TestMain(m *testing.M) {
	log.SetOutput(io.Discard)
	kit.Main(m, "C18", "exploration",
		"two-way differential against a reference implementation written from docs/DesignAndArchitecture.md, docs/Metastore.md, docs/KeyManagementService.md and the cross-language features (own JSON codec with exact field names, AES-256-GCM laid out as ciphertext || 16-byte tag || 12-byte nonce straight from crypto/cipher, own key-id formatting; shares no code with the SDK). "+
			"rapid draws payloads (incl. empty), partition / service / product ids, timestamps, revoked and rotated hierarchies and a carrier in {memory, SQL key_record text (mysql, postgres), DynamoDB item of SDK v1, DynamoDB item of SDK v2, each with region suffix on/off} plus the sidecar's protobuf mapping. "+
			"SDK writes -> reference reads: the strict reference parsers (exact field names Key / Data / Created / ParentKeyMeta{KeyId,Created}, Revoked only when true, standard base64, no unknown fields; per-carrier row shapes) accept every record and key row the SDK emits, key ids equal _SK_service_product / _IK_partition_service_product[_region], and the reference decrypts to the payload from the raw rows alone. "+
			"Reference writes -> SDK reads: the SDK decrypts records the reference built over rows the reference wrote in each carrier's documented shape, and adopts the reference-written key for its next encrypt; a reference writer that stores the same keys between the SDK's look-up and its insert (the SDK continues under the stored ones); a session held across the key lifetime writes again (the record must name the keys it then uses); with a region-suffixing metastore the reference writer may sit in another region or predate the suffix (ids with another / no region component in the same table). "+
			"Names contain % and other format-hostile characters; the master-key service takes 0-61 s of virtual time to wrap a system key (clock at sub-second offsets) and returns 60, 61, 62 or 100 bytes. "+
			"One evaluation = one case (both directions on one carrier). Every case is non-trivial; distinct = (carrier, ids, payload length, hierarchy shape)",
		"trusted base: my reading of the documentation embodied in the reference implementation; static KMS = AES-256-GCM under the static key with the same layout")
}

var ctx = context.Background()

const staticKey = "thisIsAStaticMasterKeyForTesting"

// ---- carriers ----------------------------------------------------------------------

type carrier struct {
	name   string
	ms     appencryption.Metastore
	region string // suffix ("" when off)
	// rows parses the carrier's raw content with the strict reference parser
	rows func() (kit.RefSnapshot, error)
	// put writes a key row the way an independent implementation would
	put  func(id string, created int64, e kit.RefEKR) error
	done func()
}

func parseDynamoKeyRecord(m map[string]fakes.AV) (*kit.RefEKR, error) {
	res := &kit.RefEKR{}
	for k := range m {
		switch k {
		case "Created", "Key", "ParentKeyMeta", "Revoked":
		default:
			return nil, fmt.Errorf("unknown KeyRecord attribute %q", k)
		}
	}
	c, ok := m["Created"]
	if !ok || c.N == nil {
		return nil, fmt.Errorf("KeyRecord.Created missing or not N")
	}
	n, err := strconv.ParseInt(*c.N, 10, 64)
	if err != nil {
		return nil, err
	}
	res.Created = n
	k, ok := m["Key"]
	if !ok || k.S == nil {
		return nil, fmt.Errorf("KeyRecord.Key missing or not S")
	}
	if res.Key, err = base64.StdEncoding.Strict().DecodeString(*k.S); err != nil {
		return nil, fmt.Errorf("KeyRecord.Key is not standard base64: %v", err)
	}
	if r, ok := m["Revoked"]; ok {
		if r.BOOL == nil || !*r.BOOL {
			return nil, fmt.Errorf("KeyRecord.Revoked present but not BOOL true")
		}
		res.Revoked = true
	}
	if p, ok := m["ParentKeyMeta"]; ok {
		if p.M == nil {
			return nil, fmt.Errorf("KeyRecord.ParentKeyMeta is not M")
		}
		for k := range p.M {
			if k != "KeyId" && k != "Created" {
				return nil, fmt.Errorf("unknown ParentKeyMeta attribute %q", k)
			}
		}
		id, pc := p.M["KeyId"], p.M["Created"]
		if id.S == nil || pc.N == nil {
			return nil, fmt.Errorf("ParentKeyMeta must be {KeyId:S, Created:N}")
		}
		pn, err := strconv.ParseInt(*pc.N, 10, 64)
		if err != nil {
			return nil, err
		}
		res.Parent = &kit.RefKeyMeta{KeyID: *id.S, Created: pn}
	}
	return res, nil
}

func dynamoKeyRecord(e kit.RefEKR) map[string]fakes.AV {
	m := map[string]fakes.AV{"Created": fakes.Num(e.Created), "Key": fakes.Str(base64.StdEncoding.EncodeToString(e.Key))}
	if e.Revoked {
		m["Revoked"] = fakes.Bool(true)
	}
	if e.Parent != nil {
		m["ParentKeyMeta"] = fakes.AV{M: map[string]fakes.AV{"KeyId": fakes.Str(e.Parent.KeyID), "Created": fakes.Num(e.Parent.Created)}}
	}
	return m
}

func newCarrier(t *rapid.T) *carrier {
	name := rapid.SampledFrom([]string{"memory", "sql-mysql", "sql-postgres", "dynamodb-v1", "dynamodb-v2"}).Draw(t, "carrier")
	switch {
	case name == "memory":
		ms := persistence.NewMemoryMetastore()
		return &carrier{name: name, ms: ms, done: func() {},
			rows: func() (kit.RefSnapshot, error) {
				snap := kit.RefSnapshot{}
				for id, m := range ms.Envelopes {
					for c, e := range m {
						r := kit.RefEKR{Created: e.Created, Key: e.EncryptedKey, Revoked: e.Revoked}
						if e.ParentKeyMeta != nil {
							r.Parent = &kit.RefKeyMeta{KeyID: e.ParentKeyMeta.ID, Created: e.ParentKeyMeta.Created}
						}
						snap[kit.RefRowKey{ID: id, Created: c}] = r
					}
				}
				return snap, nil
			},
			put: func(id string, created int64, e kit.RefEKR) error {
				rec := &appencryption.EnvelopeKeyRecord{ID: id, Created: e.Created, EncryptedKey: e.Key, Revoked: e.Revoked}
				if e.Parent != nil {
					rec.ParentKeyMeta = &appencryption.KeyMeta{ID: e.Parent.KeyID, Created: e.Parent.Created}
				}
				ok, err := ms.Store(ctx, id, created, rec)
				if !ok {
					return fmt.Errorf("duplicate: %v", err)
				}
				return nil
			}}
	case strings.HasPrefix(name, "sql-"):
		flavor := strings.TrimPrefix(name, "sql-")
		db, fake := fakes.OpenSQL(flavor)
		var opts []persistence.SQLMetastoreOption
		if flavor == "postgres" {
			opts = append(opts, persistence.WithSQLMetastoreDBType(persistence.Postgres))
		}
		return &carrier{name: name, ms: persistence.NewSQLMetastore(db, opts...), done: func() { db.Close(); fake.Forget() },
			rows: func() (kit.RefSnapshot, error) {
				snap := kit.RefSnapshot{}
				for _, r := range fake.Rows() {
					e, err := kit.ParseEKRStrict([]byte(r.KeyRecord))
					if err != nil {
						return nil, fmt.Errorf("key_record of (%s,%d) is not the documented JSON: %v: %s", r.ID, r.Created, err, r.KeyRecord)
					}
					snap[kit.RefRowKey{ID: r.ID, Created: r.Created}] = *e
				}
				return snap, nil
			},
			put: func(id string, created int64, e kit.RefEKR) error {
				if !fake.Put(id, created, string(kit.MarshalEKR(&e))) {
					return fmt.Errorf("duplicate")
				}
				return nil
			}}
	default:
		region := rapid.SampledFrom([]string{"us-west-2", "eu-central-1"}).Draw(t, "region")
		suffixOn := rapid.Bool().Draw(t, "suffix")
		d := fakes.NewDynamo("EncryptionKey", region)
		c := &carrier{name: name, done: func() {}}
		if suffixOn {
			c.region = region
			c.name += "+suffix"
		}
		if name == "dynamodb-v1" {
			sess := session.Must(session.NewSession(&aws.Config{Region: aws.String(region)}))
			c.ms = v1persistence.NewDynamoDBMetastore(sess, v1persistence.WithClient(fakes.DynamoV1{D: d}), v1persistence.WithDynamoDBRegionSuffix(suffixOn))
		} else {
			ms, err := v2metastore.NewDynamoDB(v2metastore.WithDynamoDBClient(fakes.DynamoV2{D: d}), v2metastore.WithRegionSuffix(suffixOn))
			if err != nil {
				t.Fatalf("NewDynamoDB: %v", err)
			}
			c.ms = ms
		}
		c.rows = func() (kit.RefSnapshot, error) {
			snap := kit.RefSnapshot{}
			for _, it := range d.Items() {
				for k := range it {
					if k != "Id" && k != "Created" && k != "KeyRecord" {
						return nil, fmt.Errorf("unknown item attribute %q", k)
					}
				}
				if it["Id"].S == nil || it["Created"].N == nil || it["KeyRecord"].M == nil {
					return nil, fmt.Errorf("item is not {Id:S, Created:N, KeyRecord:M}")
				}
				cr, _ := strconv.ParseInt(*it["Created"].N, 10, 64)
				e, err := parseDynamoKeyRecord(it["KeyRecord"].M)
				if err != nil {
					return nil, fmt.Errorf("item (%s,%d): %v", *it["Id"].S, cr, err)
				}
				snap[kit.RefRowKey{ID: *it["Id"].S, Created: cr}] = *e
			}
			return snap, nil
		}
		c.put = func(id string, created int64, e kit.RefEKR) error {
			cond := "attribute_not_exists(Id)"
			return d.PutItem("EncryptionKey", map[string]fakes.AV{"Id": fakes.Str(id), "Created": fakes.Num(created), "KeyRecord": {M: dynamoKeyRecord(e)}}, &cond, nil)
		}
		return c
	}
}

// ---- in-memory stream for the sidecar mapping -------------------------------------------

type memStream struct {
	reqs []*pb.SessionRequest
	i    int
	sent []*pb.SessionResponse
}

func (s *memStream) SetHeader(metadata.MD) error  { return nil }
func (s *memStream) SendHeader(metadata.MD) error { return nil }
func (s *memStream) SetTrailer(metadata.MD)       {}
func (s *memStream) Context() context.Context     { return ctx }
func (s *memStream) SendMsg(interface{}) error    { return nil }
func (s *memStream) RecvMsg(interface{}) error    { return nil }
func (s *memStream) Recv() (*pb.SessionRequest, error) {
	if s.i >= len(s.reqs) {
		return nil, io.EOF
	}
	s.i++
	return s.reqs[s.i-1], nil
}
func (s *memStream) Send(r *pb.SessionResponse) error { s.sent = append(s.sent, r); return nil }

var words = []string{"a", " a", "a ", "svc", "prod", "tenant", "é世", "A-1", "x y", "_", "IK", "0", "user@example.com", "p.q", "100%", "%s", "%d%", "t\x01", "\x7f", "q\"\\", "\v\a"}

func drawName(t *rapid.T, label string) string {
	n := rapid.IntRange(1, 2).Draw(t, label+"N")
	var sb strings.Builder
	for i := 0; i < n; i++ {
		sb.WriteString(rapid.SampledFrom(words).Draw(t, label))
	}
	return sb.String()
}

// slowKMS advances the virtual clock while a system key is being wrapped.
// Its output is opaque to the SDK and need not be 60 bytes (the AWS KMS plugins return a JSON
// envelope): pad extra bytes are appended to the static KMS's output and stripped again.
type slowKMS struct {
	appencryption.KeyManagementService
	delay time.Duration
	pad   int
}

func (s slowKMS) EncryptKey(c context.Context, b []byte) ([]byte, error) {
	verifhook.Advance(s.delay)
	out, err := s.KeyManagementService.EncryptKey(c, b)
	if err != nil {
		return nil, err
	}
	return append(out, bytes.Repeat([]byte{0x5a}, s.pad)...), nil
}

func (s slowKMS) DecryptKey(c context.Context, b []byte) ([]byte, error) {
	if len(b) < s.pad {
		return nil, fmt.Errorf("short master-key ciphertext")
	}
	return s.KeyManagementService.DecryptKey(c, b[:len(b)-s.pad])
}

var refPad int // extra bytes of the master-key service's output in the current case

// racingMS lets another writer act between the SDK's first look-up of an intermediate key (which
// finds nothing) and whatever the SDK does next.
type racingMS struct {
	appencryption.Metastore
	hook  func(id string)
	fired bool
}

func (r *racingMS) LoadLatest(c context.Context, id string) (*appencryption.EnvelopeKeyRecord, error) {
	rec, err := r.Metastore.LoadLatest(c, id)
	if rec == nil && err == nil && !r.fired && strings.HasPrefix(id, "_IK_") {
		r.fired = true
		r.hook(id)
	}
	return rec, err
}

func (r *racingMS) GetRegionSuffix() string {
	if sp, ok := r.Metastore.(interface{ GetRegionSuffix() string }); ok {
		return sp.GetRegionSuffix()
	}
	return ""
}

func refKMSWrap(sk []byte) []byte {
	ct, err := kit.GCMSeal([]byte(staticKey), sk)
	if err != nil {
		panic(err)
	}
	return append(ct, bytes.Repeat([]byte{0x5a}, refPad)...)
}

func refKMSUnwrap(ct []byte) ([]byte, error) {
	if len(ct) < refPad {
		return nil, fmt.Errorf("short master-key ciphertext")
	}
	return kit.GCMOpen([]byte(staticKey), ct[:len(ct)-refPad])
}

func TestTwoWayDifferential(t *testing.T) {
	kit.Check(t, 2000, 64000, func(t *rapid.T) {
		c := newCarrier(t)
		defer c.done()
		service, product, part := drawName(t, "service"), drawName(t, "product"), drawName(t, "partition")
		payload := rapid.SliceOfN(rapid.Byte(), 0, 300).Draw(t, "payload")
		if rapid.IntRange(0, 9).Draw(t, "emptyPayload") == 0 {
			payload = []byte{}
		}
		desc := fmt.Sprintf("carrier=%s region-suffix=%q service=%q product=%q partition=%q payload=%dB", c.name, c.region, service, product, part, len(payload))
		bad := func(format string, args ...any) {
			msg := fmt.Sprintf(format, args...)
			kit.Rec.Violation(msg)
			t.Fatalf("C18 violated: %s\n  %s", msg, desc)
		}
		k, err := kms.NewStatic(staticKey, aead.NewAES256GCM())
		if err != nil {
			t.Fatalf("kms: %v", err)
		}
		defer k.Close()
		// the master-key service is a network call: time passes while it wraps a new system key
		kmsDelay := rapid.SampledFrom([]time.Duration{0, 0, 0, 400 * time.Millisecond, time.Second, 61 * time.Second}).Draw(t, "kmsEncryptTakes")
		refPad = rapid.SampledFrom([]int{0, 0, 1, 2, 40}).Draw(t, "kmsOutputExtraBytes")
		var sdkMS appencryption.Metastore = c.ms
		newFactory := func() *appencryption.SessionFactory {
			pol := appencryption.NewCryptoPolicy()
			pol.CreateDatePrecision = time.Second
			return appencryption.NewSessionFactory(&appencryption.Config{Service: service, Product: product, Policy: pol}, sdkMS, slowKMS{k, kmsDelay, refPad}, aead.NewAES256GCM(), appencryption.WithSecretFactory(kit.NewTracker()))
		}
		skID, ikID := kit.RefSKID(service, product, c.region), kit.RefIKID(part, service, product, c.region)
		// with a region-suffixing metastore (global table) the rows and records of writers in ANOTHER region,
		// or from before suffixes were switched on, are in the same table: ids "_IK_partition_service_product[_region]"
		refRegion := c.region
		if c.region != "" {
			refRegion = rapid.SampledFrom([]string{c.region, c.region, "eu-west-1", ""}).Draw(t, "referenceWriterRegion")
		}
		refSkID, refIkID := kit.RefSKID(service, product, refRegion), kit.RefIKID(part, service, product, refRegion)
		refFirst := rapid.Bool().Draw(t, "referenceWritesFirst")
		verifhook.InstallClock(time.Unix(1_700_000_000+int64(rapid.IntRange(0, 1_000_000).Draw(t, "clock")), int64(rapid.SampledFrom([]int{0, 0, 300_000_000, 700_000_000, 999_999_000}).Draw(t, "clockNanos"))))
		defer verifhook.RemoveClock()
		now := verifhook.Now().Unix()
		refBase := now // the reference's rows are stamped relative to the start, before anything the SDK creates later

		// ---- reference writes -> SDK reads ------------------------------------------
		refWrite := func() {
			// an older, revoked generation and a current one
			skOld, skOldRow := kit.RefNewSK(refKMSWrap, refBase-7200)
			skOldRow.Revoked = true
			ikOld, ikOldRow, _ := kit.RefNewIK(skOld, refSkID, refBase-7200, refBase-7100)
			ikOldRow.Revoked = rapid.Bool().Draw(t, "oldIKRevoked")
			sk, skRow := kit.RefNewSK(refKMSWrap, refBase-600)
			ik, ikRow, _ := kit.RefNewIK(sk, refSkID, refBase-600, refBase-500)
			for _, w := range []struct {
				id      string
				created int64
				row     kit.RefEKR
			}{{refSkID, refBase - 7200, skOldRow}, {refIkID, refBase - 7100, ikOldRow}, {refSkID, refBase - 600, skRow}, {refIkID, refBase - 500, ikRow}} {
				if err := c.put(w.id, w.created, w.row); err != nil {
					t.Fatalf("harness: reference write to %s failed: %v", c.name, err)
				}
			}
			f := newFactory()
			defer f.Close()
			s, err := f.GetSession(part)
			if err != nil {
				t.Fatalf("GetSession: %v", err)
			}
			defer s.Close()
			for _, g := range []struct {
				name    string
				ik      []byte
				created int64
			}{{"current generation", ik, refBase - 500}, {"old (revoked) generation", ikOld, refBase - 7100}} {
				d, err := kit.RefEncrypt(g.ik, refIkID, g.created, refBase-10, payload)
				if err != nil {
					t.Fatalf("harness: %v", err)
				}
				var drr appencryption.DataRowRecord
				if err := json.Unmarshal(kit.MarshalDRR(d), &drr); err != nil {
					bad("the SDK cannot parse a record in the documented JSON shape: %v: %s", err, kit.MarshalDRR(d))
				}
				out, err := s.Decrypt(ctx, drr)
				if err != nil {
					bad("the SDK cannot decrypt a record written by the reference implementation (%s) over reference-written key rows: %v", g.name, err)
				}
				if !bytes.Equal(out, payload) {
					bad("the SDK decrypts a reference-written record (%s) to other bytes", g.name)
				}
				// through the sidecar's protobuf mapping
				app := server.VerifNewAppEncryption(f)
				st := &memStream{reqs: []*pb.SessionRequest{
					{Request: &pb.SessionRequest_GetSession{GetSession: &pb.GetSession{PartitionId: part}}},
					{Request: &pb.SessionRequest_Decrypt{Decrypt: &pb.Decrypt{DataRowRecord: &pb.DataRowRecord{Data: d.Data,
						Key: &pb.EnvelopeKeyRecord{Created: d.Key.Created, Key: d.Key.Key, ParentKeyMeta: &pb.KeyMeta{KeyId: d.Key.Parent.KeyID, Created: d.Key.Parent.Created}}}}}},
				}}
				if err := app.Session(st); err != nil || len(st.sent) != 2 {
					bad("sidecar stream failed: %v", err)
				}
				if dr := st.sent[1].GetDecryptResponse(); dr == nil || !bytes.Equal(dr.GetData(), payload) {
					bad("the sidecar does not decrypt a reference-written record (%s) sent through the protobuf mapping: %v", g.name, st.sent[1])
				}
			}
			if !refFirst || refRegion != c.region {
				return
			}
			// the SDK adopts the reference-written current IK for its next write
			r, err := s.Encrypt(ctx, payload)
			if err != nil {
				bad("encrypt over reference-written rows failed: %v", err)
			}
			if r.Key.ParentKeyMeta.ID != refIkID || r.Key.ParentKeyMeta.Created != refBase-500 {
				bad("the SDK did not adopt the valid reference-written IK (%s,%d) but used (%s,%d)", refIkID, refBase-500, r.Key.ParentKeyMeta.ID, r.Key.ParentKeyMeta.Created)
			}
		}

		// ---- SDK writes -> reference reads ------------------------------------------
		sdkWrite := func() {
			// a writer built from the documentation may create the same keys at the same moment: it stores its
			// system key and intermediate key between the SDK's look-up and the SDK's own insert (which is then
			// refused: the SDK continues under the stored keys)
			if !refFirst && rapid.Bool().Draw(t, "referenceWriterRaces") {
				olderParent := rapid.Bool().Draw(t, "racerStillUsesOlderSK")
				sdkMS = &racingMS{Metastore: c.ms, hook: func(id string) {
					at := verifhook.Now().Unix()
					sk, skRow := kit.RefNewSK(refKMSWrap, at)
					_, ikRow, _ := kit.RefNewIK(sk, skID, at, at)
					if olderParent {
						// the racing writer still works under the previous system key: its intermediate key names
						// that one as parent, while a newer system key is already in the table
						skOld, skOldRow := kit.RefNewSK(refKMSWrap, at-100)
						if err := c.put(skID, at-100, skOldRow); err != nil {
							t.Fatalf("harness: racing reference write failed: %v", err)
						}
						_, ikRow, _ = kit.RefNewIK(skOld, skID, at-100, at)
					}
					if err := c.put(skID, at, skRow); err != nil {
						t.Fatalf("harness: racing reference write failed: %v", err)
					}
					if err := c.put(id, at, ikRow); err != nil {
						t.Fatalf("harness: racing reference write failed: %v", err)
					}
				}}
				defer func() { sdkMS = c.ms }()
			}
			f := newFactory()
			defer f.Close()
			s, err := f.GetSession(part)
			if err != nil {
				t.Fatalf("GetSession: %v", err)
			}
			defer s.Close()
			// make the IK younger than its SK: the SK is created by a first write on another
			// partition, the IK of this partition a few seconds later
			if o, err := f.GetSession(part + "-other"); err == nil {
				od, err := o.Encrypt(ctx, []byte("other partition's payload"))
				if err != nil {
					bad("encrypt failed: %v", err)
				}
				o.Close()
				ojs, _ := json.Marshal(od)
				oref, err := kit.ParseDRRStrict(ojs)
				if err != nil {
					bad("the record JSON is not the documented shape: %v: %s", err, ojs)
				}
				osnap, err := c.rows()
				if err != nil {
					bad("a key row written by the SDK is not in the documented shape for %s: %v", c.name, err)
				}
				if out, err := kit.RefDecrypt(osnap, refKMSUnwrap, oref); err != nil || string(out) != "other partition's payload" {
					bad("the reference implementation cannot decrypt the SDK's first record of partition %q from the raw %s rows: %v", part+"-other", c.name, err)
				}
			}
			verifhook.Advance(time.Duration(rapid.IntRange(1, 5000).Draw(t, "gap")) * time.Second)
			now = verifhook.Now().Unix()
			drr, err := s.Encrypt(ctx, payload)
			if err != nil {
				bad("encrypt failed: %v", err)
			}
			js, err := json.Marshal(drr)
			if err != nil {
				bad("json.Marshal of the record failed: %v", err)
			}
			ref, err := kit.ParseDRRStrict(js)
			if err != nil {
				bad("the record JSON is not the documented shape: %v: %s", err, js)
			}
			if ref.Key.Parent == nil || ref.Key.Parent.KeyID != ikID {
				bad("record names key id %q, documented format gives %q", ref.Key.Parent.KeyID, ikID)
			}
			if len(ref.Data) != len(payload)+28 || len(ref.Key.Key) != 32+28 {
				bad("ciphertext lengths %d / %d, expected plaintext+28 = %d / %d", len(ref.Data), len(ref.Key.Key), len(payload)+28, 60)
			}
			snap, err := c.rows()
			if err != nil {
				bad("a key row written by the SDK is not in the documented shape for %s: %v", c.name, err)
			}
			sawSK := false
			for rk, e := range snap {
				if rk.ID == skID {
					sawSK = true
					if e.Parent != nil {
						bad("system key row carries parent meta")
					}
				} else if rk.ID != ikID && rk.ID != kit.RefIKID(part+"-other", service, product, c.region) && rk.ID != refSkID && rk.ID != refIkID {
					bad("unexpected key id %q in the store (expected %q or %q)", rk.ID, skID, ikID)
				}
				if e.Created != rk.Created {
					bad("row (%s,%d) carries Created %d", rk.ID, rk.Created, e.Created)
				}
			}
			if !sawSK {
				bad("no row with the documented system key id %q", skID)
			}
			out, err := kit.RefDecrypt(snap, refKMSUnwrap, ref)
			if err != nil {
				bad("the reference implementation cannot decrypt an SDK record from the raw %s rows: %v", c.name, err)
			}
			if !bytes.Equal(out, payload) {
				bad("the reference implementation decrypts an SDK record to other bytes")
			}
			// the sidecar's protobuf mapping
			app := server.VerifNewAppEncryption(f)
			st := &memStream{reqs: []*pb.SessionRequest{
				{Request: &pb.SessionRequest_GetSession{GetSession: &pb.GetSession{PartitionId: part}}},
				{Request: &pb.SessionRequest_Encrypt{Encrypt: &pb.Encrypt{Data: payload}}},
			}}
			if err := app.Session(st); err != nil || len(st.sent) != 2 || st.sent[1].GetEncryptResponse() == nil {
				bad("sidecar encrypt failed: %v %v", err, st.sent)
			}
			p := st.sent[1].GetEncryptResponse().GetDataRowRecord()
			if p.GetKey() == nil || p.GetKey().GetParentKeyMeta() == nil {
				bad("sidecar returned an incomplete record")
			}
			pref := &kit.RefDRR{Data: p.GetData(), Key: &kit.RefEKR{Created: p.GetKey().GetCreated(), Key: p.GetKey().GetKey(),
				Parent: &kit.RefKeyMeta{KeyID: p.GetKey().GetParentKeyMeta().GetKeyId(), Created: p.GetKey().GetParentKeyMeta().GetCreated()}}}
			snap, _ = c.rows()
			out, err = kit.RefDecrypt(snap, refKMSUnwrap, pref)
			if err != nil || !bytes.Equal(out, payload) {
				bad("the reference implementation cannot decrypt the record returned through the sidecar's protobuf mapping: %v", err)
			}
			if pref.Key.Created == 0 || pref.Key.Created < now-5 || pref.Key.Created > now+5 {
				bad("sidecar mapping: DRK created %d is not the current time (fields swapped?)", pref.Key.Created)
			}
			// the same session is still open when its keys expire: what it writes then names the keys it then uses
			if rapid.Bool().Draw(t, "writeAgainAfterRotation") {
				verifhook.Advance(90*24*time.Hour + time.Hour)
				drr2, err := s.Encrypt(ctx, payload)
				if err != nil {
					bad("encrypt on a held session after the key lifetime failed: %v", err)
				}
				js2, _ := json.Marshal(drr2)
				ref2, err := kit.ParseDRRStrict(js2)
				if err != nil {
					bad("the record JSON is not the documented shape: %v: %s", err, js2)
				}
				if ref2.Key.Parent == nil || ref2.Key.Parent.KeyID != ikID {
					bad("record names key id %q, documented format gives %q", ref2.Key.Parent.KeyID, ikID)
				}
				snap, err = c.rows()
				if err != nil {
					bad("a key row written by the SDK is not in the documented shape for %s: %v", c.name, err)
				}
				out, err = kit.RefDecrypt(snap, refKMSUnwrap, ref2)
				if err != nil || !bytes.Equal(out, payload) {
					bad("the reference implementation cannot decrypt a record the SDK wrote on a session held across a key rotation (record names IK created %d): %v", ref2.Key.Parent.Created, err)
				}
			}
		}
		if refFirst {
			refWrite()
			sdkWrite()
		} else {
			sdkWrite()
			refWrite()
		}
		kit.Rec.Case(desc+fmt.Sprintf("|refFirst=%v", refFirst), true, func() any {
			return map[string]any{"carrier": c.name, "service": service, "product": product, "partition": part, "payload_bytes": len(payload), "reference_writes_first": refFirst, "sk_id": skID, "ik_id": ikID}
		})
		kit.Rec.Label("carrier:" + c.name)
	})
}
