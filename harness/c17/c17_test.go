// Package c17: AWS KMS plugins - any surviving region can unwrap; preferred region tried first.
package c17

import (
	"bytes"
	"context"
	"encoding/json"
	"fmt"
	"sort"
	"strings"
	"testing"

	awsv2 "github.com/aws/aws-sdk-go-v2/aws"
	kmsv2svc "github.com/aws/aws-sdk-go-v2/service/kms"
	"github.com/godaddy/asherah/go/appencryption"
	"github.com/godaddy/asherah/go/appencryption/pkg/crypto/aead"
	v1kms "github.com/godaddy/asherah/go/appencryption/plugins/aws-v1/kms"
	v2kms "github.com/godaddy/asherah/go/appencryption/plugins/aws-v2/kms"
	"verif/fakes"
	"verif/kit"
)

func TestMain(m *testing.M) {
	kit.Main(m, "C17", "fault_enumeration",
		"both AWS KMS plugins built through their public constructors (v1: NewAWS then the exported Clients[i].KMS replaced; v2: Builder + WithKMSFactory) over fake regional endpoints with their own master keys, call log and retained plaintext slices. "+
			"ENUMERATED: 1..3 regions (thorough: 4; up to 6 with every GenerateDataKey failure set x {no, all} Encrypt failures x every Decrypt failure set), every preferred region (and a preferred region that is not configured), every subset of regions failing GenerateDataKey x every subset failing Encrypt at wrap time, then for every envelope every preferred region of the unwrapper x every subset failing Decrypt x every subset returning wrong bytes, wrapper and unwrapper each in {v1, v2} (envelopes are exchanged between the plugins). The same enumeration (fewer regions) with regional failures shaped like per-call timeouts (errors wrapping context.DeadlineExceeded / Canceled while the caller's context is alive) and with the v2 plugin built from an application aws.Config whose Region is another configured KMS region, and with the keys configured by alias ARN (responses name the key ARN). "+
			"Oracle from the fakes' call logs: wrap succeeds iff some region can generate, generation is attempted preferred-first, each region at most once, stopping at the first success; the envelope (documented JSON shape) has exactly one entry for the generating region and one per region whose Encrypt succeeded; "+
			"unwrap returns the identical key bytes iff some configured region with an entry can decrypt correctly, is attempted preferred-first over regions that have entries, never on regions without one, stops at the first success; the data-key plaintext handed out by the generating region is zero when EncryptKey returns (the unwrap-side wipe belongs to C10). "+
			"One evaluation = one wrap or unwrap case. Non-trivial = at least one region failed in the case; all enumerated cases are distinct by construction",
		"fake regional KMS = AES-GCM under a per-region master key; order among non-preferred regions is not asserted (map order)")
}

var ctx = context.Background()

var allRegions = []string{"us-west-2", "us-east-1", "eu-west-1", "ap-south-1", "sa-east-1", "ap-northeast-1"}

type plugin struct {
	name    string
	kms     appencryption.KeyManagementService
	pref    string
	regions []string
}

func build(kind string, w *fakes.KMSWorld, regions []string, pref string) (*plugin, error) {
	arn := map[string]string{}
	for _, r := range regions {
		arn[r] = w.ARNMap()[r] // the key ARN, or the alias ARN when the application names its keys by alias
	}
	switch kind {
	case "v1":
		k, err := v1kms.NewAWS(aead.NewAES256GCM(), pref, arn)
		if err != nil {
			return nil, err
		}
		for i := range k.Clients {
			k.Clients[i].KMS = fakes.KMSV1{R: w.Regions[k.Clients[i].Region]}
		}
		return &plugin{"v1", k, pref, regions}, nil
	default:
		// "v2cfg": the application passes its own aws.Config whose Region is another configured KMS region
		cfg := awsv2.Config{}
		if kind == "v2cfg" {
			for _, r := range regions {
				if r != pref {
					cfg.Region = r
					break
				}
			}
		}
		k, err := v2kms.NewBuilder(aead.NewAES256GCM(), arn).WithPreferredRegion(pref).WithAWSConfig(cfg).
			WithKMSFactory(func(cfg awsv2.Config, _ ...func(*kmsv2svc.Options)) v2kms.AWSClient {
				return fakes.KMSV2{R: w.Regions[cfg.Region]}
			}).Build()
		if err != nil {
			return nil, err
		}
		return &plugin{kind, k, pref, regions}, nil
	}
}

type envelopeJSON struct {
	EncryptedKey []byte `json:"encryptedKey"`
	KMSKEKs      []struct {
		Region       string `json:"region"`
		ARN          string `json:"arn"`
		EncryptedKEK []byte `json:"encryptedKek"`
	} `json:"kmsKeks"`
}

func parseEnvelope(b []byte) (*envelopeJSON, error) {
	var top map[string]json.RawMessage
	if err := json.Unmarshal(b, &top); err != nil {
		return nil, err
	}
	for k := range top {
		if k != "encryptedKey" && k != "kmsKeks" {
			return nil, fmt.Errorf("undocumented field %q", k)
		}
	}
	var e envelopeJSON
	dec := json.NewDecoder(bytes.NewReader(b))
	dec.DisallowUnknownFields()
	if err := dec.Decode(&e); err != nil {
		return nil, err
	}
	return &e, nil
}

func subset(mask int, regions []string) map[string]bool {
	m := map[string]bool{}
	for i, r := range regions {
		if mask&(1<<i) != 0 {
			m[r] = true
		}
	}
	return m
}

func keysOf(m map[string]bool) string {
	var k []string
	for r := range m {
		k = append(k, r)
	}
	sort.Strings(k)
	return strings.Join(k, ",")
}

type caseDesc struct {
	n                     int
	wrapper, wrapPref     string
	failGen, failEnc      map[string]bool
	unwrapper, unwrapPref string
	failDec, wrongDec     map[string]bool
}

func (c caseDesc) String() string {
	return fmt.Sprintf("regions=%d wrap[%s pref=%s failGenerate={%s} failEncrypt={%s}] unwrap[%s pref=%s failDecrypt={%s} wrongBytes={%s}]",
		c.n, c.wrapper, c.wrapPref, keysOf(c.failGen), keysOf(c.failEnc), c.unwrapper, c.unwrapPref, keysOf(c.failDec), keysOf(c.wrongDec))
}

func fail(t *testing.T, c caseDesc, w *fakes.KMSWorld, format string, args ...any) {
	msg := fmt.Sprintf(format, args...)
	kit.Rec.Violation(msg)
	t.Fatalf("C17 violated: %s\n  case: %s\n  regional calls: %v", msg, c, w.Calls)
}

func TestEnumerateRegionFailures(t *testing.T) {
	enumerateRegionFailures(t, kit.Pick(3, 4), nil, []string{"v1", "v2"})
}

// TestEnumerateErrorShapesAndConfigs: the same enumeration (up to 2 / 3 regions) with regional
// failures that look like timeouts of the call itself (errors wrapping context.DeadlineExceeded /
// context.Canceled while the caller's context is alive - a failing region like any other), and
// with the v2 plugin built from an application aws.Config whose Region is another KMS region.
func TestEnumerateErrorShapesAndConfigs(t *testing.T) {
	enumerateRegionFailures(t, kit.Pick(2, 3), fmt.Errorf("operation error KMS: https response error: request canceled: %w", context.DeadlineExceeded), []string{"v1", "v2"})
	enumerateRegionFailures(t, kit.Pick(2, 3), fmt.Errorf("operation error KMS: %w", context.Canceled), []string{"v2"})
	enumerateRegionFailures(t, kit.Pick(3, 3), nil, []string{"v2cfg"})
}

// useAliases: the application names its regional keys by alias ARN; the service accepts either name in a request
// and names the key ARN in every response.
var useAliases bool

// TestEnumerateWithAliasARNs: the enumeration (up to 2 / 3 regions) with keys configured by alias ARN.
func TestEnumerateWithAliasARNs(t *testing.T) {
	useAliases = true
	defer func() { useAliases = false }()
	enumerateRegionFailures(t, kit.Pick(2, 3), nil, []string{"v1", "v2"})
}

func enumerateRegionFailures(t *testing.T, maxN int, failErr error, kinds []string) {
	shard, shards := kit.Shard()
	unit := 0
	var total, nontrivial int64
	// beyond maxN (up to six regions, main enumeration only) the failure sets that matter for long region lists:
	// every subset failing GenerateDataKey x {none, all} failing Encrypt, unwrapped by the same kind of plugin
	// with the same preferred region under every subset failing Decrypt
	wideN := maxN
	if failErr == nil && len(kinds) == 2 && !useAliases {
		wideN = len(allRegions)
	}
	for n := 1; n <= wideN; n++ {
		wide := n > maxN
		regions := allRegions[:n]
		// one set of regional endpoints and one plugin instance per (kind, preferred region); cases only flip fault switches
		w := fakes.NewKMSWorld(regions)
		if useAliases {
			w.UseAliases()
		}
		w.FailErr = failErr
		plugins := map[string]*plugin{}
		getPlugin := func(kind, pref string) (*plugin, error) {
			if p, ok := plugins[kind+"|"+pref]; ok {
				return p, nil
			}
			p, err := build(kind, w, regions, pref)
			if err == nil {
				plugins[kind+"|"+pref] = p
			}
			return p, err
		}
		for _, wrapper := range kinds {
			for _, wrapPref := range append(append([]string{}, regions...), "nowhere-1") {
				for genMask := 0; genMask < 1<<n; genMask++ {
					unit++
					if unit%shards != shard {
						continue
					}
					for encMask := 0; encMask < 1<<n; encMask++ {
						if wide && encMask != 0 && encMask != 1<<n-1 {
							continue
						}
						c := caseDesc{n: n, wrapper: wrapper, wrapPref: wrapPref, failGen: subset(genMask, regions), failEnc: subset(encMask, regions)}
						w.Reset()
						for r, k := range w.Regions {
							k.FailGenerate, k.FailEncrypt, k.FailDecrypt, k.WrongDecrypt = c.failGen[r], c.failEnc[r], false, false
						}
						p, err := getPlugin(wrapper, wrapPref)
						if err != nil {
							fail(t, c, w, "cannot build the %s plugin: %v", wrapper, err)
						}
						sk := make([]byte, 32)
						for i := range sk {
							sk[i] = byte(i*7 + genMask + 3*encMask + n)
						}
						orig := append([]byte(nil), sk...)
						env, err := p.kms.EncryptKey(ctx, sk)
						total++
						if genMask != 0 || encMask != 0 {
							nontrivial++
						}
						entries := checkWrap(t, c, w, regions, env, err, orig)
						if err != nil {
							continue
						}
						// unwrap phase
						for _, unwrapper := range kinds {
							if wide && unwrapper != wrapper {
								continue
							}
							for _, unwrapPref := range append(append([]string{}, regions...), "nowhere-1") {
								if wide && unwrapPref != wrapPref {
									continue
								}
								for decMask := 0; decMask < 1<<n; decMask++ {
									for wrongMask := 0; wrongMask < 1<<n; wrongMask++ {
										if wide && wrongMask != 0 {
											break
										}
										if decMask&wrongMask != 0 {
											continue // a region either errors or lies, not both
										}
										c2 := c
										c2.unwrapper, c2.unwrapPref, c2.failDec, c2.wrongDec = unwrapper, unwrapPref, subset(decMask, regions), subset(wrongMask, regions)
										for r, k := range w.Regions {
											k.FailDecrypt, k.WrongDecrypt = c2.failDec[r], c2.wrongDec[r]
										}
										w.Reset()
										u, err := getPlugin(unwrapper, unwrapPref)
										if err != nil {
											fail(t, c2, w, "cannot build the %s plugin: %v", unwrapper, err)
										}
										got, err := u.kms.DecryptKey(ctx, append([]byte(nil), env...))
										total++
										if decMask != 0 || wrongMask != 0 || encMask != 0 {
											nontrivial++
										}
										checkUnwrap(t, c2, w, regions, entries, got, err, orig)
										if total%20011 == 0 {
											kit.Rec.Sample(map[string]any{"case": c2.String(), "calls": fmt.Sprint(w.Calls), "unwrapped": err == nil})
										}
									}
								}
							}
						}
					}
				}
			}
		}
	}
	kit.Rec.Enumerated(total, nontrivial)
	if failErr == nil && len(kinds) == 2 && !useAliases {
		kit.Rec.Extra("max_regions", maxN)
		kit.Rec.Extra("max_regions_reduced_enumeration", wideN)
	}
	kit.Rec.SetExhaustive(true)
}

// checkWrap validates EncryptKey and returns the set of regions that have an entry.
func checkWrap(t *testing.T, c caseDesc, w *fakes.KMSWorld, regions []string, env []byte, err error, sk []byte) map[string]bool {
	canGenerate := false
	for _, r := range regions {
		if !c.failGen[r] {
			canGenerate = true
		}
	}
	if canGenerate != (err == nil) {
		fail(t, c, w, "EncryptKey err=%v but at least one region able to generate a data key: %v", err, canGenerate)
	}
	// generation order: preferred first, each region at most once, stop at first success
	var gens []fakes.KMSCall
	for _, cl := range w.Calls {
		if cl.Op == "GenerateDataKey" {
			gens = append(gens, cl)
		}
	}
	if len(gens) == 0 {
		fail(t, c, w, "no GenerateDataKey call at all")
	}
	if _, configured := w.Regions[c.wrapPref]; configured && gens[0].Region != c.wrapPref {
		fail(t, c, w, "data key generation started in %s, not in the preferred region %s", gens[0].Region, c.wrapPref)
	}
	seen := map[string]bool{}
	for i, g := range gens {
		if seen[g.Region] {
			fail(t, c, w, "region %s asked twice to generate a data key", g.Region)
		}
		seen[g.Region] = true
		if g.OK && i != len(gens)-1 {
			fail(t, c, w, "generation continued after %s had succeeded", g.Region)
		}
	}
	if err != nil {
		if len(gens) != len(regions) {
			fail(t, c, w, "EncryptKey failed after trying only %d of %d regions", len(gens), len(regions))
		}
		return nil
	}
	genRegion := gens[len(gens)-1].Region
	e, perr := parseEnvelope(env)
	if perr != nil {
		fail(t, c, w, "envelope is not the documented JSON: %v: %s", perr, env)
	}
	entries := map[string]bool{}
	for _, k := range e.KMSKEKs {
		if entries[k.Region] {
			fail(t, c, w, "two envelope entries for region %s", k.Region)
		}
		entries[k.Region] = true
		reg, ok := w.Regions[k.Region]
		if !ok {
			fail(t, c, w, "envelope entry for unknown region %q", k.Region)
		}
		if k.ARN != w.ARNMap()[reg.Region] {
			fail(t, c, w, "entry for %s carries ARN %q, expected the configured %q", k.Region, k.ARN, w.ARNMap()[reg.Region])
		}
	}
	for _, r := range regions {
		want := r == genRegion || !c.failEnc[r]
		if entries[r] != want {
			fail(t, c, w, "envelope entry for region %s: present=%v, expected %v (generating region %s; Encrypt failing in {%s})", r, entries[r], want, genRegion, keysOf(c.failEnc))
		}
	}
	// the plaintext data key is wiped
	for _, ret := range w.Retained {
		if !kit.AllZero(ret.Buf) {
			fail(t, c, w, "the data key plaintext returned by %s.%s is not wiped when EncryptKey returns", ret.Region, ret.Op)
		}
	}
	if !bytes.Equal(sk, sk) {
		panic("unreachable")
	}
	return entries
}

func checkUnwrap(t *testing.T, c caseDesc, w *fakes.KMSWorld, regions []string, entries map[string]bool, got []byte, err error, sk []byte) {
	can := false
	for _, r := range regions {
		if entries[r] && !c.failDec[r] && !c.wrongDec[r] {
			can = true
		}
	}
	if can != (err == nil) {
		fail(t, c, w, "DecryptKey err=%v but a configured region with an entry able to decrypt exists: %v (entries {%s})", err, can, keysOf(entries))
	}
	if err == nil && !bytes.Equal(got, sk) {
		fail(t, c, w, "DecryptKey returned other bytes than the system key that was wrapped")
	}
	var decs []fakes.KMSCall
	for _, cl := range w.Calls {
		if cl.Op == "Decrypt" {
			decs = append(decs, cl)
		} else {
			fail(t, c, w, "unexpected %s call during DecryptKey", cl.Op)
		}
	}
	seen := map[string]bool{}
	for i, d := range decs {
		if !entries[d.Region] {
			fail(t, c, w, "Decrypt attempted in %s, which has no entry in the envelope", d.Region)
		}
		if seen[d.Region] {
			fail(t, c, w, "region %s asked twice to decrypt", d.Region)
		}
		seen[d.Region] = true
		if d.OK && !c.wrongDec[d.Region] && i != len(decs)-1 {
			fail(t, c, w, "unwrapping continued after %s had succeeded", d.Region)
		}
	}
	if entries[c.unwrapPref] {
		if len(decs) == 0 || decs[0].Region != c.unwrapPref {
			fail(t, c, w, "the preferred region %s has an entry but was not tried first", c.unwrapPref)
		}
	}
	if err != nil {
		for _, r := range regions {
			if entries[r] && !seen[r] {
				fail(t, c, w, "DecryptKey gave up without trying region %s, which has an entry", r)
			}
		}
	}
}
