// Package c02: a record is handed out only once its whole key chain is durably in the metastore.
package c02

import (
	"bytes"
	"context"
	"fmt"
	"testing"

	"github.com/godaddy/asherah/go/appencryption"
	"github.com/godaddy/asherah/go/securememory"
	"pgregory.net/rapid"
	"verif/backing"
	"verif/kit"
	"verif/world"
)

func TestMain(m *testing.M) {
	kit.Main(m, "C02", "fault_enumeration",
		"scenario = (key state in {cold, sk-only, warm-held, warm-fresh, stale, expired, ik-revoked, sk-revoked, rotated by another process (IK / SK+IK), region-suffixed process over a metastore holding the partition's un-suffixed keys}) x (drawn cache configuration, precision, expiry, interval); "+
			"the metastore/KMS call sequence of the operation is recorded fault-free, then EVERY call index gets every applicable fault (store read error; store write error, false duplicate, false+error, error-after-write; KMS encrypt/decrypt error), "+
			"and every pair of faults (second index enumerated against the sequence as it is after the first fault; sampled in the quick tier). Scenarios are rapid-drawn; positions are enumerated. "+
			"Oracle at the instant Encrypt returns: a returned record's IK row and the SK row it names are in the store snapshot, and the reference decryptor given only the snapshot + KMS, and a fresh SDK factory, decrypt it to the payload; a failure returns an error and no record; "+
			"after the faults stop the next encrypt and the decrypts succeed with the same guarantees, and the record objects the caller still holds from earlier encrypts are unchanged; a decrypt under faults returns the payload or an error. One evaluation = one execution. "+
			"Non-trivial = the planned fault fired and the operation issued a further call or returned a record; distinct = distinct (state, cache class, fault positions+kinds, outcome)",
		"faults are injected at the Metastore/KMS interface of a harness-owned insert-only store", "the reference decryptor written from the docs is correct")
}

var ctx = context.Background()

func fail(t *rapid.T, sc *world.FaultScenario, format string, args ...any) {
	msg := fmt.Sprintf(format, args...)
	kit.Rec.Violation(msg)
	t.Fatalf("C02 violated: %s\n  scenario: %s\n  calls of the operation: %v\n%s", msg, sc.Describe(), sc.OpCalls(), sc.W.Describe())
}

// durable checks the guarantee for a record at the instant it was returned.
func durable(t *rapid.T, sc *world.FaultScenario, rec *world.Rec, when string) {
	w := sc.W
	snap := w.Snapshot()
	ik, ok := snap[kit.RefRowKey{ID: rec.IKID, Created: rec.IKCreated}]
	if !ok {
		fail(t, sc, "%s: encrypt returned rec%d naming IK (%s,%d) which is not in the metastore", when, rec.ID, rec.IKID, rec.IKCreated)
	}
	if ik.Parent == nil {
		fail(t, sc, "%s: IK row of rec%d has no parent meta", when, rec.ID)
	}
	if _, ok := snap[kit.RefRowKey{ID: ik.Parent.KeyID, Created: ik.Parent.Created}]; !ok {
		fail(t, sc, "%s: rec%d's IK names SK (%s,%d) which is not in the metastore", when, rec.ID, ik.Parent.KeyID, ik.Parent.Created)
	}
	out, err := w.RefDecryptRec(rec, snap)
	if err != nil {
		fail(t, sc, "%s: a fresh process holding only the metastore contents and the KMS cannot decrypt rec%d: %v", when, rec.ID, err)
	}
	if !bytes.Equal(out, rec.Payload) {
		fail(t, sc, "%s: reference decryptor returns other bytes for rec%d", when, rec.ID)
	}
	// and a fresh SDK factory (no faults are active any more when this runs)
	f := appencryption.NewSessionFactory(&appencryption.Config{Service: w.Service, Product: w.Product, Policy: appencryption.NewCryptoPolicy()},
		w.Store.For("fresh"), w.KMS.For("fresh"), w.AEAD, appencryption.WithSecretFactory(securememory.SecretFactory(w.Secrets)))
	defer f.Close()
	s, err := f.GetSession(rec.Partition)
	if err != nil {
		fail(t, sc, "fresh factory GetSession: %v", err)
	}
	defer s.Close()
	out, err = s.Decrypt(ctx, world.CloneDRR(rec.DRR))
	if err != nil {
		fail(t, sc, "%s: a fresh SDK factory cannot decrypt rec%d: %v", when, rec.ID, err)
	}
	if !bytes.Equal(out, rec.Payload) {
		fail(t, sc, "%s: a fresh SDK factory decrypts rec%d to other bytes", when, rec.ID)
	}
}

// runEncrypt executes the scenario with its fault plan around one encrypt and
// returns the calls the operation issued (for enumerating the next fault).
func runEncrypt(t *rapid.T, sc *world.FaultScenario) []kit.Call {
	var rec1 *world.Rec
	ev := sc.Exec(t, func(sc *world.FaultScenario) *world.Event {
		e, r := sc.W.Encrypt(sc.Sess, []byte("payload-under-faults"), false, false)
		rec1 = r
		return e
	})
	defer sc.W.Teardown()
	w := sc.W
	calls := sc.OpCalls()
	outcome := "error"
	if ev.Err == nil && rec1 == nil {
		fail(t, sc, "encrypt returned neither a record nor an error")
	}
	if rec1 != nil {
		outcome = "record"
		durable(t, sc, rec1, "under faults "+fmt.Sprint(sc.Faults))
	}
	// the faults have stopped: the next operation succeeds
	ev2, rec2 := w.Encrypt(sc.Sess, []byte("payload-after-faults"), false, false)
	if ev2.Err != nil || rec2 == nil {
		fail(t, sc, "after the faults stopped the next encrypt still fails: %v", ev2.Err)
	}
	durable(t, sc, rec2, "after the faults stopped")
	for _, r := range []*world.Rec{sc.Rec0, rec1, rec2} {
		if r == nil {
			continue
		}
		e, out := w.Decrypt(sc.Sess, r, false, false)
		if e.Err != nil {
			fail(t, sc, "after the faults stopped, decrypt of rec%d on the same session fails: %v", r.ID, e.Err)
		}
		if !bytes.Equal(out, r.Payload) {
			fail(t, sc, "decrypt of rec%d returns other bytes", r.ID)
		}
	}
	if msg := w.Store.CheckImmutable(); msg != "" {
		fail(t, sc, "store rows changed: %s", msg)
	}
	// the record objects as the caller holds them (not a copy taken on return) still name the keys they were written under
	if msg := w.ChangedRecord(); msg != "" {
		fail(t, sc, "a returned record no longer names the keys it was encrypted under - nobody can decrypt what the caller holds: %s", msg)
	}
	record(sc, "encrypt", outcome, calls)
	return calls
}

func runDecrypt(t *rapid.T, sc *world.FaultScenario) []kit.Call {
	var out []byte
	ev := sc.Exec(t, func(sc *world.FaultScenario) *world.Event {
		e, o := sc.W.Decrypt(sc.Sess, sc.Rec0, false, false)
		out = o
		return e
	})
	defer sc.W.Teardown()
	calls := sc.OpCalls()
	outcome := "error"
	if ev.Err == nil {
		outcome = "payload"
		if !bytes.Equal(out, sc.Rec0.Payload) {
			fail(t, sc, "decrypt under faults returned other bytes than the payload")
		}
	}
	e, o := sc.W.Decrypt(sc.Sess, sc.Rec0, false, false)
	if e.Err != nil {
		fail(t, sc, "after the faults stopped decrypt still fails: %v", e.Err)
	}
	if !bytes.Equal(o, sc.Rec0.Payload) {
		fail(t, sc, "decrypt after faults returns other bytes")
	}
	record(sc, "decrypt", outcome, calls)
	return calls
}

func record(sc *world.FaultScenario, op, outcome string, calls []kit.Call) {
	nontrivial := false
	if len(sc.Faults) > 0 && sc.AnyFired() {
		last := sc.Faults[0].Rel
		for i, f := range sc.Faults {
			if sc.Fired[i] && f.Rel > last {
				last = f.Rel
			}
		}
		nontrivial = len(calls) > last+1 || outcome != "error"
	}
	shape := fmt.Sprintf("%s|%s|%s|%v|%s", op, sc.State, world.CacheClass(sc.Fixed.Policies[0]), sc.Faults, outcome)
	kit.Rec.Case(shape, nontrivial, func() any {
		var cs []string
		for _, c := range calls {
			cs = append(cs, c.String())
		}
		return map[string]any{"operation": op, "state": sc.State, "policy": world.PolicyString(sc.Fixed.Policies[0]), "faults": fmt.Sprint(sc.Faults), "fired": sc.Fired, "outcome": outcome, "calls": cs}
	})
	kit.Rec.Label(op + ":" + outcome)
	if len(sc.Faults) > 0 && !sc.AnyFired() {
		kit.Rec.Label("fault-not-reached")
	}
}

// enumerate runs the fault-free operation, then every single fault, then pairs.
func enumerate(t *rapid.T, base *world.FaultScenario, run func(*rapid.T, *world.FaultScenario) []kit.Call, pairBudget int) {
	clone := func(faults ...world.FaultAt) *world.FaultScenario {
		c := *base
		c.Faults = faults
		return &c
	}
	seq := run(t, clone())
	type single struct {
		f   world.FaultAt
		seq []kit.Call
	}
	var singles []single
	for i, c := range seq {
		for _, k := range world.ApplicableFaults(c) {
			f := world.FaultAt{Target: "ext", Rel: i, Kind: k}
			singles = append(singles, single{f, run(t, clone(f))})
		}
	}
	// pairs: second fault strictly after the first, against the sequence observed after the first
	type pair struct{ a, b world.FaultAt }
	var pairs []pair
	for _, s := range singles {
		for j := s.f.Rel + 1; j < len(s.seq); j++ {
			for _, k := range world.ApplicableFaults(s.seq[j]) {
				pairs = append(pairs, pair{s.f, world.FaultAt{Target: "ext", Rel: j, Kind: k}})
			}
		}
	}
	if pairBudget >= 0 && len(pairs) > pairBudget {
		// sampled (quick tier): a rapid-drawn subset
		idx := rapid.SliceOfNDistinct(rapid.IntRange(0, len(pairs)-1), pairBudget, pairBudget, rapid.ID[int]).Draw(t, "pairs")
		sel := make([]pair, 0, pairBudget)
		for _, i := range idx {
			sel = append(sel, pairs[i])
		}
		pairs = sel
		kit.Rec.Label("pairs-sampled")
	} else {
		kit.Rec.Label("pairs-exhaustive")
	}
	for _, p := range pairs {
		run(t, clone(p.a, p.b))
	}
}

// useRealMetastore: a quarter of the scenarios keep their rows in a real metastore implementation
// (a fresh one per execution) behind the fault-injecting wrapper.
func useRealMetastore(t *rapid.T, sc *world.FaultScenario) {
	if rapid.IntRange(0, 3).Draw(t, "realMetastore") != 2 {
		return
	}
	name := rapid.SampledFrom(backing.Names).Draw(t, "metastore")
	sc.Opt.NewBacking = func() kit.StoreBacking { return backing.New(name) }
	kit.Rec.Label("metastore:" + name)
}

func TestEncryptFaults(t *testing.T) {
	kit.Check(t, 200, 3200, func(t *rapid.T) {
		sc := world.DrawScenario(t, append(append([]string{}, world.KeyStates...), "legacy-unsuffixed"))
		if sc.State == "legacy-unsuffixed" {
			sc.Opt.Suffix = "us-west-2"
		}
		useRealMetastore(t, sc)
		enumerate(t, sc, runEncrypt, kit.Pick(40, -1))
	})
}

func TestDecryptFaults(t *testing.T) {
	states := []string{"warm-held", "warm-fresh", "stale", "expired", "ik-revoked", "sk-revoked", "ext-rotated", "ext-rotated-sk"}
	kit.Check(t, 120, 1600, func(t *rapid.T) {
		sc := world.DrawScenario(t, states)
		useRealMetastore(t, sc)
		enumerate(t, sc, runDecrypt, kit.Pick(40, -1))
	})
}
