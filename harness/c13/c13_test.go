// Package c13: every metastore implementation is an insert-only, read-your-writes key table.
package c13

import (
	"bytes"
	"context"
	"fmt"
	"strings"
	"sync"
	"sync/atomic"
	"testing"
	"time"

	"github.com/aws/aws-sdk-go/aws"
	"github.com/aws/aws-sdk-go/aws/session"
	"github.com/godaddy/asherah/go/appencryption"
	"github.com/godaddy/asherah/go/appencryption/pkg/persistence"
	v1persistence "github.com/godaddy/asherah/go/appencryption/plugins/aws-v1/persistence"
	v2metastore "github.com/godaddy/asherah/go/appencryption/plugins/aws-v2/dynamodb/metastore"
	"pgregory.net/rapid"
	"verif/fakes"
	"verif/kit"
)

func TestMain(m *testing.M) {
	kit.Main(m, "C13", "exploration",
		"rapid state machine of Store / Load / LoadLatest over 3 adversarial ids x 5 overlapping timestamps with records of arbitrary binary keys (1-300 bytes), revoked on/off, with/without parent meta, against a reference table, for: "+
			"MemoryMetastore; SQLMetastore (mysql, postgres, oracle placeholder dialects) over a fake database/sql driver that INTERPRETS the statements against the documented schema (PRIMARY KEY(id, created), second-resolution TIMESTAMP, dialect-specific placeholders); "+
			"both DynamoDB metastores (SDK v1 and v2) over one semantic fake that evaluates condition / key-condition / projection expressions with their name and value maps, honours ScanIndexForward and Limit, knows only the configured table and is eventually consistent unless ConsistentRead is set; "+
			"table names and region suffix drawn. Reads are occasionally issued with a cancelled context first (they may fail; the reads that follow must not). One Store in seven is issued with an already cancelled / expired context (it may fail, but never reports a duplicate as stored, never touches an existing row, and true still means stored). Plus 16 goroutines sharing one metastore object and reading different ids at the same time (each gets its own id's newest / exact record), and a concurrent same-key Store race on MemoryMetastore. "+
			"Oracle: Store returns true exactly when (id, created) was absent and never changes an existing row; Load returns the persisted fields or nil,nil; LoadLatest returns the greatest created; every completed Store is visible to every later read; GetRegionSuffix = region iff enabled. "+
			"One evaluation = one sequence on one backend. Non-trivial = contains a duplicate Store and a LoadLatest over >= 2 versions; distinct = (backend, operation sequence)",
		"the fakes' reading of DynamoDB / SQL semantics is the trusted base; no real database", "EnvelopeKeyRecord.ID is documented as not persisted (json:\"-\") and is not compared")
}

var ctx = context.Background()

type backend struct {
	failFetch   func() // SQL only: the next row fetch of a query fails (connection drop mid-fetch)
	name        string
	ms          appencryption.Metastore
	suffix      string // expected GetRegionSuffix()
	cleanup     func()
	unsupported func() []string
}

var backendNames = []string{"memory", "sql-mysql", "sql-postgres", "sql-oracle", "dynamodb-v1", "dynamodb-v2"}

func newBackend(t *rapid.T, name string) *backend {
	switch {
	case name == "memory":
		return &backend{name: name, ms: persistence.NewMemoryMetastore(), cleanup: func() {}, unsupported: func() []string { return nil }}
	case strings.HasPrefix(name, "sql-"):
		flavor := strings.TrimPrefix(name, "sql-")
		db, fake := fakes.OpenSQL(flavor)
		var opts []persistence.SQLMetastoreOption
		switch flavor {
		case "postgres":
			opts = append(opts, persistence.WithSQLMetastoreDBType(persistence.Postgres))
		case "oracle":
			opts = append(opts, persistence.WithSQLMetastoreDBType(persistence.Oracle))
		case "mysql":
			if rapid.Bool().Draw(t, "explicitMySQL") {
				opts = append(opts, persistence.WithSQLMetastoreDBType(persistence.MySQL))
			}
		}
		return &backend{name: name, ms: persistence.NewSQLMetastore(db, opts...), cleanup: func() { db.Close(); fake.Forget() }, unsupported: func() []string { return fake.Unsupported },
			failFetch: func() { fake.FailNextFetch() }}
	default:
		table := rapid.SampledFrom([]string{"", "EncryptionKey", "CustomTable", "enc_keys-2"}).Draw(t, "table")
		region := rapid.SampledFrom([]string{"us-west-2", "eu-central-1"}).Draw(t, "region")
		suffixOn := rapid.Bool().Draw(t, "suffix")
		want := table
		if want == "" {
			want = "EncryptionKey"
		}
		d := fakes.NewDynamo(want, region)
		b := &backend{name: name, cleanup: func() {}, unsupported: func() []string { return d.Unsupported }}
		if suffixOn {
			b.suffix = region
		}
		if name == "dynamodb-v1" {
			sess := session.Must(session.NewSession(&aws.Config{Region: aws.String(region)}))
			b.ms = v1persistence.NewDynamoDBMetastore(sess, v1persistence.WithClient(fakes.DynamoV1{D: d}), v1persistence.WithTableName(table), v1persistence.WithDynamoDBRegionSuffix(suffixOn))
		} else {
			ms, err := v2metastore.NewDynamoDB(v2metastore.WithDynamoDBClient(fakes.DynamoV2{D: d}), v2metastore.WithTableName(table), v2metastore.WithRegionSuffix(suffixOn))
			if err != nil {
				t.Fatalf("NewDynamoDB: %v", err)
			}
			b.ms = ms
		}
		return b
	}
}

type rec struct {
	created int64
	key     []byte
	revoked bool
	parent  *appencryption.KeyMeta
}

func (r rec) String() string {
	p := "-"
	if r.parent != nil {
		p = fmt.Sprintf("%q@%d", r.parent.ID, r.parent.Created)
	}
	return fmt.Sprintf("{created=%d key=%dB revoked=%v parent=%s}", r.created, len(r.key), r.revoked, p)
}

func same(r rec, e *appencryption.EnvelopeKeyRecord) string {
	if e.Created != r.created {
		return fmt.Sprintf("Created %d, stored %d", e.Created, r.created)
	}
	if !bytes.Equal(e.EncryptedKey, r.key) {
		return fmt.Sprintf("EncryptedKey differs (%d bytes vs %d stored)", len(e.EncryptedKey), len(r.key))
	}
	if e.Revoked != r.revoked {
		return fmt.Sprintf("Revoked %v, stored %v", e.Revoked, r.revoked)
	}
	if (e.ParentKeyMeta == nil) != (r.parent == nil) {
		return fmt.Sprintf("ParentKeyMeta presence differs (got %v)", e.ParentKeyMeta)
	}
	if r.parent != nil && *e.ParentKeyMeta != *r.parent {
		return fmt.Sprintf("ParentKeyMeta %v, stored %v", *e.ParentKeyMeta, *r.parent)
	}
	return ""
}

var idPool = []string{"_SK_svc_prod", "_IK_part_svc_prod", "_IK_part_svc_prod_us-west-2", "_IK_a'b\"c;--_svc_prod", "_IK_é世界_svc_prod", "_IK_" + strings.Repeat("x", 240), "_IK__", " "}

// parentPool: what a record may name as its parent - system key ids are built from service and product names,
// which are free-form strings (control characters, DEL, quotes, backslashes, line separators, astral characters)
var parentPool = append(append([]string{}, idPool...), "_SK_sv\x01c_prod", "_SK_a\tb\x7f_prod", "_SK_\u2028\v_x", "_SK_svc\\_prod\"", "_SK_\U0001F511\a_prod")

func TestModel(t *testing.T) {
	kit.Check(t, 10000, 480000, func(t *rapid.T) {
		name := rapid.SampledFrom(backendNames).Draw(t, "backend")
		b := newBackend(t, name)
		defer b.cleanup()
		ids := rapid.SliceOfNDistinct(rapid.SampledFrom(idPool), 1, 3, rapid.ID[string]).Draw(t, "ids")
		base := int64(1_600_000_000 + rapid.IntRange(0, 100_000_000).Draw(t, "base"))
		stamps := []int64{0, base, base + 1, base + 2, base + 60, base + 3600}
		model := map[string]map[int64]rec{}
		var trace []string
		dupStore, latestMulti, deadStore := false, false, false
		bad := func(format string, args ...any) {
			if u := b.unsupported(); len(u) > 0 {
				fmt.Printf("VERIF-INCONCLUSIVE fake cannot interpret: %v\n", u)
				t.Fatalf("inconclusive: the fake cannot interpret %v", u)
			}
			msg := fmt.Sprintf(format, args...)
			kit.Rec.Violation(msg)
			t.Fatalf("C13 violated [%s]: %s\n  sequence: %s", name, msg, strings.Join(trace, "; "))
		}
		if sp, ok := b.ms.(interface{ GetRegionSuffix() string }); ok {
			if got := sp.GetRegionSuffix(); got != b.suffix {
				bad("GetRegionSuffix() = %q, expected %q", got, b.suffix)
			}
		}
		n := rapid.IntRange(1, 30).Draw(t, "n")
		for i := 0; i < n; i++ {
			id := rapid.SampledFrom(ids).Draw(t, "id")
			created := rapid.SampledFrom(stamps).Draw(t, "created")
			switch rapid.IntRange(0, 9).Draw(t, "op") {
			case 0, 1, 2, 3: // Store
				r := rec{created: created, key: rapid.SliceOfN(rapid.Byte(), 1, 300).Draw(t, "key"), revoked: rapid.Bool().Draw(t, "revoked")}
				if rapid.IntRange(0, 9).Draw(t, "createdMismatch") == 0 {
					r.created = rapid.SampledFrom(stamps).Draw(t, "recCreated")
				}
				if rapid.Bool().Draw(t, "hasParent") {
					r.parent = &appencryption.KeyMeta{ID: rapid.SampledFrom(parentPool).Draw(t, "parentID"), Created: rapid.SampledFrom(stamps).Draw(t, "parentCreated")}
				}
				ekr := &appencryption.EnvelopeKeyRecord{ID: id, Created: r.created, EncryptedKey: append([]byte(nil), r.key...), Revoked: r.revoked}
				if r.parent != nil {
					pm := *r.parent
					ekr.ParentKeyMeta = &pm
				}
				_, exists := model[id][created]
				if rapid.IntRange(0, 6).Draw(t, "deadCtx") == 0 {
					// the caller's context is already cancelled / past its deadline: the Store may fail, but it must
					// not report success for a duplicate, must not touch an existing row, and "true" still means stored
					dead, cancel := context.WithCancel(ctx)
					if rapid.Bool().Draw(t, "deadline") {
						dead, cancel = context.WithDeadline(ctx, time.Unix(1, 0))
					} else {
						cancel()
					}
					trace = append(trace, fmt.Sprintf("Store[dead ctx](%q,%d,%s)", id, created, r))
					ok, err := b.ms.Store(dead, id, created, ekr)
					cancel()
					deadStore = true
					got, lerr := b.ms.Load(ctx, id, created)
					if lerr != nil {
						bad("Load after a Store with a dead context returned an error: %v", lerr)
					}
					switch {
					case exists:
						dupStore = true
						if ok {
							bad("Store of an existing (id, created) with a cancelled context returned true (err=%v)", err)
						}
					case ok:
						if got == nil {
							bad("Store with a cancelled context returned true but the row is not there")
						} else if d := same(r, got); d != "" {
							bad("Store with a cancelled context returned true but the row differs: %s", d)
						}
						if model[id] == nil {
							model[id] = map[int64]rec{}
						}
						model[id][created] = r
					case got != nil:
						// reported as not stored but applied: allowed for a failed call; the row must be this record
						if d := same(r, got); d != "" {
							bad("a failed Store left a row that is not the record it was given: %s", d)
						}
						if model[id] == nil {
							model[id] = map[int64]rec{}
						}
						model[id][created] = r
					}
					continue
				}
				trace = append(trace, fmt.Sprintf("Store(%q,%d,%s)", id, created, r))
				ok, err := b.ms.Store(ctx, id, created, ekr)
				if exists {
					dupStore = true
					if ok {
						bad("Store of an existing (id, created) returned true (err=%v)", err)
					}
				} else {
					if !ok {
						bad("Store of a new (id, created) returned false, err=%v", err)
					}
					if model[id] == nil {
						model[id] = map[int64]rec{}
					}
					model[id][created] = r
				}
			case 4, 5, 6: // Load
				if rapid.IntRange(0, 7).Draw(t, "deadReadCtx") == 3 {
					// a read whose caller has already given up may fail - and changes nothing for later reads
					dead, cancel := context.WithCancel(ctx)
					cancel()
					trace = append(trace, fmt.Sprintf("Load[dead ctx](%q,%d)", id, created))
					if got, err := b.ms.Load(dead, id, created); err == nil && got != nil {
						if want, exists := model[id][created]; !exists {
							bad("Load with a cancelled context returned a record for an absent (id, created)")
						} else if d := same(want, got); d != "" {
							bad("Load with a cancelled context returned a record that differs from the stored one: %s", d)
						}
					}
					trace = append(trace, fmt.Sprintf("LoadLatest[dead ctx](%q)", id))
					_, _ = b.ms.LoadLatest(dead, id)
				}
				if b.failFetch != nil && rapid.IntRange(0, 9).Draw(t, "fetchFails") == 4 {
					// the statement is accepted but fetching the row fails: that is an error, never "not stored"
					_, exists := model[id][created]
					b.failFetch()
					trace = append(trace, fmt.Sprintf("Load[row fetch fails](%q,%d)", id, created))
					if got, err := b.ms.Load(ctx, id, created); err == nil && got == nil && exists {
						bad("Load reported a stored (id, created) as absent (nil, nil) when fetching its row failed: a failed read must be an error")
					}
					if len(model[id]) > 0 {
						b.failFetch()
						trace = append(trace, fmt.Sprintf("LoadLatest[row fetch fails](%q)", id))
						if got, err := b.ms.LoadLatest(ctx, id); err == nil && got == nil {
							bad("LoadLatest reported an id with stored versions as empty (nil, nil) when fetching the row failed")
						}
					}
				}
				trace = append(trace, fmt.Sprintf("Load(%q,%d)", id, created))
				got, err := b.ms.Load(ctx, id, created)
				want, exists := model[id][created]
				if err != nil {
					bad("Load returned an error: %v", err)
				}
				if !exists {
					if got != nil {
						bad("Load of an absent (id, created) returned a record %+v", *got)
					}
				} else {
					if got == nil {
						bad("Load of a stored record returned nothing (a completed Store must be visible to every later read)")
					}
					if d := same(want, got); d != "" {
						bad("Load returned a record that differs from what was first stored: %s", d)
					}
				}
			default: // LoadLatest
				trace = append(trace, fmt.Sprintf("LoadLatest(%q)", id))
				got, err := b.ms.LoadLatest(ctx, id)
				if err != nil {
					bad("LoadLatest returned an error: %v", err)
				}
				if len(model[id]) == 0 {
					if got != nil {
						bad("LoadLatest of an unknown id returned a record")
					}
					break
				}
				var latest int64 = -1 << 62
				for c := range model[id] {
					if c > latest {
						latest = c
					}
				}
				if len(model[id]) >= 2 {
					latestMulti = true
				}
				if got == nil {
					bad("LoadLatest returned nothing although %d versions are stored", len(model[id]))
				}
				if d := same(model[id][latest], got); d != "" {
					bad("LoadLatest did not return the version with the greatest created (%d): %s", latest, d)
				}
			}
		}
		if u := b.unsupported(); len(u) > 0 {
			fmt.Printf("VERIF-INCONCLUSIVE fake cannot interpret: %v\n", u)
			t.Fatalf("inconclusive: the fake cannot interpret %v", u)
		}
		kit.Rec.Case(name+"|"+strings.Join(trace, ";"), dupStore && latestMulti, func() any {
			return map[string]any{"backend": name, "sequence": trace}
		})
		kit.Rec.Label("backend:" + name)
		if deadStore {
			kit.Rec.Label("has-store-with-dead-context")
		}
	})
}

// TestConcurrentStore: racing Stores of one (id, created) - exactly one may win, and the
// stored row is the winner's. MemoryMetastore gets many rounds (its own locking is the
// thing under test); the SQL and DynamoDB metastores get fewer (the uniqueness guarantee
// there comes from the database, i.e. from the fake, but the metastore must map the
// refusal to false for every loser).
func TestConcurrentStore(t *testing.T) {
	concurrentStore(t, "memory", persistence.NewMemoryMetastore(), kit.Pick(3000, 60000))
	for _, name := range []string{"sql-mysql", "sql-postgres", "dynamodb-v1", "dynamodb-v2"} {
		name := name
		kit.Scripted(t, func(rt *rapid.T) {
			b := newBackend(rt, name)
			defer b.cleanup()
			concurrentStore(t, name, b.ms, kit.Pick(300, 6000))
		})
	}
}

func concurrentStore(t *testing.T, backend string, ms appencryption.Metastore, rounds int) {
	const writers = 8
	for r := 0; r < rounds; r++ {
		id, created := fmt.Sprintf("_IK_%d", r%7), int64(1_700_000_000+r)
		var wg sync.WaitGroup
		start := make(chan struct{})
		wins := make([]bool, writers)
		for w := 0; w < writers; w++ {
			wg.Add(1)
			go func(w int) {
				defer wg.Done()
				ekr := &appencryption.EnvelopeKeyRecord{ID: id, Created: created, EncryptedKey: []byte{byte(w)}}
				<-start
				ok, _ := ms.Store(ctx, id, created, ekr)
				wins[w] = ok
			}(w)
		}
		close(start)
		wg.Wait()
		n, winner := 0, -1
		for w, ok := range wins {
			if ok {
				n++
				winner = w
			}
		}
		got, _ := ms.Load(ctx, id, created)
		if n != 1 || got == nil || got.EncryptedKey[0] != byte(winner) {
			msg := fmt.Sprintf(backend+": %d of %d racing Stores of one (id, created) returned true; stored row belongs to writer %v, winner %d", n, writers, got, winner)
			kit.Rec.Violation(msg)
			t.Fatalf("C13 violated: %s (round %d)", msg, r)
		}
	}
	kit.Rec.Enumerated(int64(rounds), 0)
	kit.Rec.LabelN("concurrent-store-rounds:"+backend, int64(rounds))
}

// TestConcurrentReads: one metastore object shared by goroutines that read DIFFERENT ids at the
// same time (every session of a factory does this): each reader gets the record of the id it
// asked for - the newest one for LoadLatest, the exact one for Load.
func TestConcurrentReads(t *testing.T) {
	for _, name := range backendNames {
		name := name
		kit.Scripted(t, func(rt *rapid.T) {
			b := newBackend(rt, name)
			defer b.cleanup()
			const ids, versions = 16, 3
			for i := 0; i < ids; i++ {
				for v := 0; v < versions; v++ {
					id, created := fmt.Sprintf("_IK_reader%d_svc_prod", i), int64(1_700_000_000+100*v+i)
					ekr := &appencryption.EnvelopeKeyRecord{ID: id, Created: created, EncryptedKey: []byte{byte(i), byte(v), 7, 7}}
					if ok, err := b.ms.Store(ctx, id, created, ekr); !ok {
						t.Fatalf("harness: seeding %s failed: %v", name, err)
					}
				}
			}
			rounds := kit.Pick(400, 6000)
			var wg sync.WaitGroup
			var first atomic.Value
			start := make(chan struct{})
			for i := 0; i < ids; i++ {
				wg.Add(1)
				go func(i int) {
					defer wg.Done()
					defer func() {
						if p := recover(); p != nil {
							first.CompareAndSwap(nil, fmt.Sprintf("%s: reader %d panicked: %v", name, i, p))
						}
					}()
					id := fmt.Sprintf("_IK_reader%d_svc_prod", i)
					<-start
					for r := 0; r < rounds && first.Load() == nil; r++ {
						got, err := b.ms.LoadLatest(ctx, id)
						want := int64(1_700_000_000 + 100*(versions-1) + i)
						if err != nil || got == nil || got.Created != want || len(got.EncryptedKey) != 4 || got.EncryptedKey[0] != byte(i) {
							first.CompareAndSwap(nil, fmt.Sprintf("%s: LoadLatest(%s) issued while other goroutines read other ids returned %+v (err=%v), expected the record created %d of that id", name, id, got, err, want))
							return
						}
						if r%4 != 0 {
							continue // mostly LoadLatest back to back: the calls of different readers overlap
						}
						v := r % versions
						c := int64(1_700_000_000 + 100*v + i)
						got, err = b.ms.Load(ctx, id, c)
						if err != nil || got == nil || got.Created != c || got.EncryptedKey[0] != byte(i) || got.EncryptedKey[1] != byte(v) {
							first.CompareAndSwap(nil, fmt.Sprintf("%s: Load(%s,%d) issued while other goroutines read other ids returned %+v (err=%v)", name, id, c, got, err))
							return
						}
					}
				}(i)
			}
			close(start)
			wg.Wait()
			if v := first.Load(); v != nil {
				kit.Rec.Violation(v.(string))
				t.Fatalf("C13 violated: %s", v)
			}
			kit.Rec.Enumerated(int64(rounds*ids), 0)
			kit.Rec.LabelN("concurrent-read-rounds:"+name, int64(rounds*ids))
		})
	}
}

// TestRegionSuffixFromAmbientConfiguration: the usual production set-up - no client injected, the
// metastore builds its own from the ambient AWS configuration (here: AWS_REGION, no network
// needed to construct it). GetRegionSuffix is the configured region iff suffixes are enabled.
func TestRegionSuffixFromAmbientConfiguration(t *testing.T) {
	for _, kv := range [][2]string{{"AWS_EC2_METADATA_DISABLED", "true"}, {"AWS_ACCESS_KEY_ID", "verif"}, {"AWS_SECRET_ACCESS_KEY", "verif"},
		{"AWS_CONFIG_FILE", "/nonexistent"}, {"AWS_SHARED_CREDENTIALS_FILE", "/nonexistent"}} {
		t.Setenv(kv[0], kv[1])
	}
	var total int64
	for _, region := range []string{"us-west-2", "eu-central-1", "ap-southeast-2"} {
		t.Setenv("AWS_REGION", region)
		for _, on := range []bool{true, false} {
			for _, optsFirst := range []bool{true, false} {
				opts := []v2metastore.Option{v2metastore.WithRegionSuffix(on)}
				if !optsFirst {
					opts = append([]v2metastore.Option{v2metastore.WithTableName("CustomTable")}, opts...)
				}
				ms, err := v2metastore.NewDynamoDB(opts...)
				if err != nil {
					t.Fatalf("harness: NewDynamoDB without a client failed offline: %v", err)
				}
				total++
				want := ""
				if on {
					want = region
				}
				if got := ms.GetRegionSuffix(); got != want {
					msg := fmt.Sprintf("dynamodb-v2 built from the ambient configuration (AWS_REGION=%s, WithRegionSuffix(%v)): GetRegionSuffix() = %q, expected %q", region, on, got, want)
					kit.Rec.Violation(msg)
					t.Fatalf("C13 violated: %s", msg)
				}
			}
		}
	}
	kit.Rec.Enumerated(total, total)
	kit.Rec.LabelN("region-suffix-from-ambient-config", total)
}
