// Package conc is the concurrent workload shared by the schedule-dependent checks
// (C08, C09): one SessionFactory, several goroutines, a delay plan over yield points.
package conc

import (
	"bytes"
	"context"
	"fmt"
	"sync"
	"sync/atomic"
	"time"

	"github.com/godaddy/asherah/go/appencryption"
	"github.com/godaddy/asherah/go/appencryption/pkg/crypto/aead"
	"pgregory.net/rapid"
	"verif/kit"
	"verifhook"
)

var ctx = context.Background()

// Config is one concurrent workload over a single SessionFactory.
type Config struct {
	Pol        *appencryption.CryptoPolicy
	Partitions int
	Workers    int
	OpsPer     int
	SeedOps    []int // per worker: pseudo-random stream seed
	Damaged    bool  // one extra partition whose IK row in the metastore is damaged: decrypts of its record fail, nothing else may
}

// Class renders the cache configuration.
func (c Config) Class() string {
	p := c.Pol
	s := fmt.Sprintf("ik=%s/%d sk=%s/%d shared=%v", p.IntermediateKeyCacheEvictionPolicy, p.IntermediateKeyCacheMaxSize, p.SystemKeyCacheEvictionPolicy, p.SystemKeyCacheMaxSize, p.SharedIntermediateKeyCache)
	if p.CacheSessions {
		s += fmt.Sprintf(" sess=%s/%d", p.SessionCacheEvictionPolicy, p.SessionCacheMaxSize)
	}
	if p.CreateDatePrecision > time.Second {
		s += " latest-revoked-in-its-window"
	}
	return s
}

// DrawConfig draws a configuration and workload.
func DrawConfig(t *rapid.T) Config {
	p := appencryption.NewCryptoPolicy()
	p.ExpireKeyAfter = time.Hour
	p.RevokeCheckInterval = time.Second
	p.CreateDatePrecision = time.Second
	pols := []string{"simple", "lru", "lfu", "slru", "tinylfu"}
	caps := []int{1, 1, 2, 3, 100, 101}
	p.IntermediateKeyCacheEvictionPolicy = rapid.SampledFrom(pols).Draw(t, "ikPolicy")
	p.IntermediateKeyCacheMaxSize = rapid.SampledFrom(caps).Draw(t, "ikCap")
	p.SystemKeyCacheEvictionPolicy = rapid.SampledFrom(pols).Draw(t, "skPolicy")
	p.SystemKeyCacheMaxSize = rapid.SampledFrom(caps).Draw(t, "skCap")
	p.SharedIntermediateKeyCache = rapid.IntRange(0, 9).Draw(t, "shared") < 6
	if rapid.IntRange(0, 9).Draw(t, "sessCache") < 4 {
		p.CacheSessions = true
		p.SessionCacheMaxSize = rapid.IntRange(1, 3).Draw(t, "sessCap")
		p.SessionCacheEvictionPolicy = rapid.SampledFrom([]string{"", "lru", "lfu", "slru", "tinylfu"}).Draw(t, "sessPolicy")
		p.SessionCacheDuration = rapid.SampledFrom([]time.Duration{0, 2 * time.Second, 2 * time.Hour}).Draw(t, "sessDur")
	}
	// stamps truncated to the hour: the replacement for the revoked first generation collides with it, so for the
	// whole run the latest intermediate key is a revoked one that every encrypt reloads and re-caches
	if rapid.IntRange(0, 2).Draw(t, "latestRevokedInItsWindow") == 1 {
		p.CreateDatePrecision = time.Hour
	}
	c := Config{Pol: p, Workers: rapid.IntRange(2, 8).Draw(t, "workers"), OpsPer: rapid.IntRange(10, 40).Draw(t, "ops")}
	c.Partitions = rapid.IntRange(3, 6).Draw(t, "partitions")
	if p.IntermediateKeyCacheMaxSize >= 100 && p.SharedIntermediateKeyCache {
		c.Partitions = 60 // > capacity / generations so that asynchronous eviction happens
	}
	for i := 0; i < c.Workers; i++ {
		c.SeedOps = append(c.SeedOps, rapid.IntRange(1, 1<<30).Draw(t, "stream"))
	}
	c.Damaged = rapid.IntRange(0, 3).Draw(t, "damagedPartition") == 1
	return c
}

type pooled struct {
	part    string
	payload []byte
	drr     appencryption.DataRowRecord
}

// Outcome is the result of one case.
type Outcome struct {
	Viol         string
	Fired        int
	Destroyed    int
	Sites        []string
	Hits         map[string]int
	Leaked       []kit.SecretInfo // secrets still live after the factory was closed
	DoubleClosed []kit.SecretInfo
}

func cloneDRR(d appencryption.DataRowRecord) appencryption.DataRowRecord {
	k := *d.Key
	k.EncryptedKey = append([]byte(nil), d.Key.EncryptedKey...)
	pm := *d.Key.ParentKeyMeta
	k.ParentKeyMeta = &pm
	return appencryption.DataRowRecord{Key: &k, Data: append([]byte(nil), d.Data...)}
}

// runCase builds the factory, seeds a pool sequentially (two key generations per
// partition), then runs the concurrent workload under the delay plan.
func RunCase(c Config, plan []kit.PlanEntry) Outcome {
	verifhook.InstallClock(time.Unix(1_700_000_000, 0))
	defer verifhook.RemoveClock()
	log := &kit.CallLog{}
	store := kit.NewStore(log)
	kmsSpy := kit.NewSpyKMS(log)
	secrets := kit.NewTracker()
	f := appencryption.NewSessionFactory(&appencryption.Config{Service: "svc", Product: "prod", Policy: c.Pol}, store, kmsSpy, aead.NewAES256GCM(), appencryption.WithSecretFactory(secrets))
	parts := make([]string, c.Partitions)
	for i := range parts {
		parts[i] = fmt.Sprintf("p%d", i)
	}
	var poolMu sync.Mutex
	pool := map[string][]pooled{}
	// sequential seeding: generation 1, revoke, generation 2
	for gen := 0; gen < 2; gen++ {
		for _, p := range parts {
			s, err := f.GetSession(p)
			if err != nil {
				return Outcome{Viol: "seeding: " + err.Error()}
			}
			pay := []byte(fmt.Sprintf("seed-%s-%d", p, gen))
			r, err := s.Encrypt(ctx, pay)
			s.Close()
			if err != nil {
				return Outcome{Viol: "seeding: " + err.Error()}
			}
			pool[p] = append(pool[p], pooled{p, pay, cloneDRR(*r)})
		}
		if gen == 0 {
			for _, p := range parts {
				if l := store.Latest(kit.RefIKID(p, "svc", "prod", "")); l != nil {
					store.Revoke(l.ID, l.Created)
				}
			}
			verifhook.Advance(3 * time.Second)
		}
	}
	var damaged *pooled
	if c.Damaged {
		// a partition whose intermediate key row is damaged in the metastore: loading that key fails for everyone,
		// for good - an error for those decrypts, and no consequence for anybody else
		s, err := f.GetSession("damaged")
		if err != nil {
			return Outcome{Viol: "seeding: " + err.Error()}
		}
		r, err := s.Encrypt(ctx, []byte("damaged"))
		s.Close()
		if err != nil {
			return Outcome{Viol: "seeding: " + err.Error()}
		}
		damaged = &pooled{"damaged", []byte("damaged"), cloneDRR(*r)}
		store.Corrupt(r.Key.ParentKeyMeta.ID, r.Key.ParentKeyMeta.Created)
		verifhook.Advance(3 * time.Second) // the cached copy goes stale: the next use reloads the damaged row
	}
	liveBefore := secrets.Count()
	sc := kit.NewSched(plan, kit.SiteFilter("go/appencryption/"))
	sc.Install()
	defer sc.Remove()
	var firstViol atomic.Value
	note := func(format string, args ...any) {
		firstViol.CompareAndSwap(nil, fmt.Sprintf(format, args...))
	}
	var wg sync.WaitGroup
	for w := 0; w < c.Workers; w++ {
		wg.Add(1)
		go func(w int) {
			defer wg.Done()
			defer func() {
				if p := recover(); p != nil {
					note("worker %d panicked: %v", w, p)
				}
			}()
			x := uint32(c.SeedOps[w])
			next := func(n int) int {
				x = x*1664525 + 1013904223
				return int(x>>8) % n
			}
			var held *appencryption.Session
			var heldPart string
			for i := 0; i < c.OpsPer && firstViol.Load() == nil; i++ {
				part := parts[next(len(parts))]
				s := held
				if s == nil || heldPart != part {
					if held != nil {
						held.Close()
						held = nil
					}
					var err error
					s, err = f.GetSession(part)
					if err != nil {
						note("worker %d: GetSession(%s) failed: %v", w, part, err)
						return
					}
				}
				switch op := next(10); {
				case op < 4:
					pay := []byte(fmt.Sprintf("w%d-op%d", w, i))
					r, err := s.Encrypt(ctx, pay)
					if err != nil {
						note("worker %d: Encrypt on %s failed: %v", w, part, err)
						return
					}
					poolMu.Lock()
					pool[part] = append(pool[part], pooled{part, pay, cloneDRR(*r)})
					poolMu.Unlock()
				case op < 9:
					poolMu.Lock()
					rec := pool[part][next(len(pool[part]))]
					poolMu.Unlock()
					out, err := s.Decrypt(ctx, cloneDRR(rec.drr))
					if err != nil {
						note("worker %d: Decrypt on %s of a record under IK created %d failed: %v", w, part, rec.drr.Key.ParentKeyMeta.Created, err)
						return
					}
					if !bytes.Equal(out, rec.payload) {
						note("worker %d: Decrypt returned other bytes", w)
						return
					}
				default:
					verifhook.Advance(600 * time.Millisecond)
				}
				if damaged != nil && next(4) == 0 {
					if ds, err := f.GetSession("damaged"); err == nil {
						out, err := ds.Decrypt(ctx, cloneDRR(damaged.drr))
						ds.Close()
						if err == nil && !bytes.Equal(out, damaged.payload) {
							note("worker %d: decrypt behind a damaged key row returned other bytes", w)
							return
						}
					}
				}
				if next(3) == 0 {
					held, heldPart = s, part // keep the session across operations
				} else {
					s.Close()
					held = nil
				}
			}
			if held != nil {
				held.Close()
			}
		}(w)
	}
	done := make(chan struct{})
	go func() { wg.Wait(); close(done) }()
	select {
	case <-done:
	case <-time.After(60 * time.Second):
		return Outcome{Viol: "workers did not finish within 60s (deadlock)"}
	}
	sc.Remove()
	res := Outcome{Fired: sc.Fired()}
	res.Sites, res.Hits = sc.Sites()
	for _, si := range secrets.InfosRange(0, secrets.Count()) {
		if si.Origin == "New" && si.Closed > 0 && si.ID < liveBefore+1<<30 {
			res.Destroyed++
		}
	}
	if v := firstViol.Load(); v != nil {
		res.Viol = v.(string)
	}
	if ra := secrets.ReadsAfterClose(); len(ra) > 0 && res.Viol == "" {
		res.Viol = fmt.Sprintf("a key secret was accessed after it had been destroyed: %s", ra[0])
	}
	f.Close()
	deadline := time.Now().Add(5 * time.Second)
	for secrets.LiveCount() > 0 && time.Now().Before(deadline) {
		time.Sleep(200 * time.Microsecond)
	}
	res.Leaked = secrets.Live()
	for _, si := range secrets.InfosRange(0, secrets.Count()) {
		if si.CloseCalls > 1 {
			res.DoubleClosed = append(res.DoubleClosed, si)
		}
	}
	return res
}
