// Package backing builds the real Metastore implementations over the semantic fakes of their
// databases, with raw access to the stored rows, so that SDK-level checks can run over them
// (kit.Store.Backing).
package backing

import (
	"encoding/base64"
	"fmt"
	"strconv"
	"strings"

	"github.com/aws/aws-sdk-go/aws"
	"github.com/aws/aws-sdk-go/aws/session"
	"github.com/godaddy/asherah/go/appencryption"
	"github.com/godaddy/asherah/go/appencryption/pkg/persistence"
	v1persistence "github.com/godaddy/asherah/go/appencryption/plugins/aws-v1/persistence"
	v2metastore "github.com/godaddy/asherah/go/appencryption/plugins/aws-v2/dynamodb/metastore"
	"pgregory.net/rapid"
	"verif/fakes"
	"verif/kit"
	"verif/world"
)

// Names lists the available implementations.
var Names = []string{"memory", "sql-mysql", "sql-postgres", "sql-oracle", "dynamodb-v1", "dynamodb-v2"}

// Backing implements kit.StoreBacking.
type Backing struct {
	Name        string
	MS          appencryption.Metastore
	rows        func() (kit.RefSnapshot, error)
	revoke      func(id string, created int64) error
	Done        func()
	Unsupported func() []string
	// raw handles on the fake databases (nil when not applicable)
	SQL    *fakes.SQLDB
	Dynamo *fakes.Dynamo
}

// Release frees the fake database (worlds that created the backing themselves call it on teardown).
func (b *Backing) Release() { b.Done() }

func (b *Backing) Metastore() appencryption.Metastore       { return b.MS }
func (b *Backing) RawRows() (kit.RefSnapshot, error)        { return b.rows() }
func (b *Backing) RevokeRow(id string, created int64) error { return b.revoke(id, created) }

// ParseDynamoKeyRecord reads the documented KeyRecord map attribute strictly.
func ParseDynamoKeyRecord(m map[string]fakes.AV) (*kit.RefEKR, error) {
	res := &kit.RefEKR{}
	for k := range m {
		switch k {
		case "Created", "Key", "ParentKeyMeta", "Revoked":
		default:
			return nil, fmt.Errorf("unknown KeyRecord attribute %q", k)
		}
	}
	c, ok := m["Created"]
	if !ok || c.N == nil {
		return nil, fmt.Errorf("KeyRecord.Created missing or not N")
	}
	n, err := strconv.ParseInt(*c.N, 10, 64)
	if err != nil {
		return nil, err
	}
	res.Created = n
	k, ok := m["Key"]
	if !ok || k.S == nil {
		return nil, fmt.Errorf("KeyRecord.Key missing or not S")
	}
	if res.Key, err = base64.StdEncoding.Strict().DecodeString(*k.S); err != nil {
		return nil, fmt.Errorf("KeyRecord.Key is not standard base64: %v", err)
	}
	if r, ok := m["Revoked"]; ok {
		if r.BOOL == nil || !*r.BOOL {
			return nil, fmt.Errorf("KeyRecord.Revoked present but not BOOL true")
		}
		res.Revoked = true
	}
	if p, ok := m["ParentKeyMeta"]; ok {
		if p.M == nil {
			return nil, fmt.Errorf("KeyRecord.ParentKeyMeta is not M")
		}
		for k := range p.M {
			if k != "KeyId" && k != "Created" {
				return nil, fmt.Errorf("unknown ParentKeyMeta attribute %q", k)
			}
		}
		id, pc := p.M["KeyId"], p.M["Created"]
		if id.S == nil || pc.N == nil {
			return nil, fmt.Errorf("ParentKeyMeta must be {KeyId:S, Created:N}")
		}
		pn, err := strconv.ParseInt(*pc.N, 10, 64)
		if err != nil {
			return nil, err
		}
		res.Parent = &kit.RefKeyMeta{KeyID: *id.S, Created: pn}
	}
	return res, nil
}

// New builds the named implementation over a fresh fake database.
func New(name string) *Backing {
	switch {
	case name == "memory":
		ms := persistence.NewMemoryMetastore()
		return &Backing{Name: name, MS: ms, Done: func() {}, Unsupported: func() []string { return nil },
			rows: func() (kit.RefSnapshot, error) {
				ms.RLock()
				defer ms.RUnlock()
				snap := kit.RefSnapshot{}
				for id, m := range ms.Envelopes {
					for c, e := range m {
						r := kit.RefEKR{Created: e.Created, Key: append([]byte(nil), e.EncryptedKey...), Revoked: e.Revoked}
						if e.ParentKeyMeta != nil {
							r.Parent = &kit.RefKeyMeta{KeyID: e.ParentKeyMeta.ID, Created: e.ParentKeyMeta.Created}
						}
						snap[kit.RefRowKey{ID: id, Created: c}] = r
					}
				}
				return snap, nil
			},
			revoke: func(id string, created int64) error {
				ms.Lock()
				defer ms.Unlock()
				e, ok := ms.Envelopes[id][created]
				if !ok {
					return fmt.Errorf("no row (%s,%d)", id, created)
				}
				cp := *e // copy on write: readers holding the old record are unaffected, as with a database
				cp.Revoked = true
				ms.Envelopes[id][created] = &cp
				return nil
			}}
	case strings.HasPrefix(name, "sql-"):
		flavor := strings.TrimPrefix(name, "sql-")
		db, fake := fakes.OpenSQL(flavor)
		var opts []persistence.SQLMetastoreOption
		switch flavor {
		case "postgres":
			opts = append(opts, persistence.WithSQLMetastoreDBType(persistence.Postgres))
		case "oracle":
			opts = append(opts, persistence.WithSQLMetastoreDBType(persistence.Oracle))
		}
		return &Backing{Name: name, SQL: fake, MS: persistence.NewSQLMetastore(db, opts...), Done: func() { db.Close(); fake.Forget() }, Unsupported: func() []string { return fake.Unsupported },
			rows: func() (kit.RefSnapshot, error) {
				snap := kit.RefSnapshot{}
				for _, r := range fake.Rows() {
					e, err := kit.ParseEKRStrict([]byte(r.KeyRecord))
					if err != nil {
						return nil, fmt.Errorf("key_record of (%s,%d) is not the documented JSON: %v: %s", r.ID, r.Created, err, r.KeyRecord)
					}
					snap[kit.RefRowKey{ID: r.ID, Created: r.Created}] = *e
				}
				return snap, nil
			},
			revoke: func(id string, created int64) error {
				txt, ok := fake.RawRow(id, created)
				if !ok {
					return fmt.Errorf("no row (%s,%d)", id, created)
				}
				e, err := kit.ParseEKRStrict([]byte(txt))
				if err != nil {
					return err
				}
				e.Revoked = true
				if !fake.Update(id, created, string(kit.MarshalEKR(e))) {
					return fmt.Errorf("update of (%s,%d) failed", id, created)
				}
				return nil
			}}
	default:
		const table, region = "EncryptionKey", "us-west-2"
		d := fakes.NewDynamo(table, region)
		b := &Backing{Name: name, Dynamo: d, Done: func() {}, Unsupported: func() []string { return d.Unsupported }}
		if name == "dynamodb-v1" {
			sess := session.Must(session.NewSession(&aws.Config{Region: aws.String(region)}))
			b.MS = v1persistence.NewDynamoDBMetastore(sess, v1persistence.WithClient(fakes.DynamoV1{D: d}))
		} else {
			ms, err := v2metastore.NewDynamoDB(v2metastore.WithDynamoDBClient(fakes.DynamoV2{D: d}))
			if err != nil {
				panic(err)
			}
			b.MS = ms
		}
		b.rows = func() (kit.RefSnapshot, error) {
			snap := kit.RefSnapshot{}
			for _, it := range d.Items() {
				for k := range it {
					if k != "Id" && k != "Created" && k != "KeyRecord" {
						return nil, fmt.Errorf("unknown item attribute %q", k)
					}
				}
				if it["Id"].S == nil || it["Created"].N == nil || it["KeyRecord"].M == nil {
					return nil, fmt.Errorf("item is not {Id:S, Created:N, KeyRecord:M}")
				}
				cr, _ := strconv.ParseInt(*it["Created"].N, 10, 64)
				e, err := ParseDynamoKeyRecord(it["KeyRecord"].M)
				if err != nil {
					return nil, fmt.Errorf("item (%s,%d): %v", *it["Id"].S, cr, err)
				}
				snap[kit.RefRowKey{ID: *it["Id"].S, Created: cr}] = *e
			}
			return snap, nil
		}
		b.revoke = func(id string, created int64) error {
			it := d.Raw(id, created)
			if it == nil || it["KeyRecord"].M == nil {
				return fmt.Errorf("no item (%s,%d)", id, created)
			}
			it["KeyRecord"].M["Revoked"] = fakes.Bool(true)
			if !d.Replace(id, created, it) {
				return fmt.Errorf("no item (%s,%d)", id, created)
			}
			return nil
		}
		return b
	}
}

// Use makes pct percent of the worlds run over a real metastore implementation: it sets
// opts.Backing (and plain ids for SQL: VARCHAR(255) refuses the over-long id atoms) and
// returns the cleanup to defer.
func Use(t *rapid.T, opts *world.Options, pct int) func() {
	if rapid.IntRange(0, 99).Draw(t, "realMetastore") >= pct {
		return func() {}
	}
	name := rapid.SampledFrom(Names).Draw(t, "metastore")
	b := New(name)
	opts.Backing = b
	if strings.HasPrefix(name, "sql-") {
		opts.SimpleIDs = true
	}
	kit.Rec.Label("metastore:" + name)
	return func() {
		b.Done()
		if u := b.Unsupported(); len(u) > 0 {
			fmt.Printf("VERIF-INCONCLUSIVE fake cannot interpret: %v\n", u)
			t.Fatalf("inconclusive: the fake cannot interpret %v", u)
		}
	}
}
