// Package c08: a key in use is never destroyed underneath its user, under any schedule.
package c08

import (
	"fmt"
	"sort"
	"strings"
	"sync"
	"testing"
	"time"

	"github.com/godaddy/asherah/go/appencryption"
	"pgregory.net/rapid"
	"verif/conc"
	"verif/kit"
)

func TestMain(m *testing.M) {
	kit.Main(m, "C08", "exploration",
		"one SessionFactory with a rapid-drawn configuration (IK / SK cache policy in {simple, lru, lfu, slru, tinylfu}, capacities 1-3 (synchronous eviction) and 100-101 (asynchronous eviction, more keys than capacity), shared or per-session IK cache, session cache on/off, revoke-check interval of 1 s against clock steps of 0.6 s) "+
			"and 2-8 goroutines each running 10-40 operations over more partitions and key generations than the caches hold (get session, encrypt, decrypt any pooled record, hold a session across operations, close own session, advance the virtual clock), "+
			"under a rapid-drawn DELAY PLAN: 1-3 pauses (0.1-3 ms) at statement-level yield points that the overlay inserts into key_cache.go, session_cache.go, session.go, envelope.go, internal/key.go and pkg/cache/*.go, addressed as (site, k-th visit); sites are taken from a profiling run of the same workload so only reachable sites are drawn. "+
			"Oracle: every operation returns no error and the right bytes (no goroutine ever closes a session another goroutine is using through its own handle, nor the factory); the tracking SecretFactory records zero reads of a closed secret; no crash, no hang. "+
			"One evaluation = one (configuration, workload, delay plan). Non-trivial = at least one pause fired and at least one cached key was destroyed (eviction, refresh or session teardown) while workers were running; distinct = (cache class, paused sites)",
		"schedules are sampled (preemption-bounded), not enumerated: a violation needing more than 3 coordinated preemptions may be missed", "virtual clock and yield points injected by build overlay")
}

var profiles sync.Map // class -> *outcome

func TestDelayPlans(t *testing.T) {
	kit.Check(t, 400, 48000, func(t *rapid.T) {
		c := conc.DrawConfig(t)
		class := c.Class()
		var prof *conc.Outcome
		if v, ok := profiles.Load(class); ok {
			prof = v.(*conc.Outcome)
		} else {
			o := conc.RunCase(c, nil)
			if o.Viol != "" {
				report(t, c, nil, o)
			}
			prof = &o
			profiles.Store(class, prof)
		}
		plan := kit.DrawPlan(t, prof.Sites, prof.Hits, 3, []time.Duration{100 * time.Microsecond, 500 * time.Microsecond, 3 * time.Millisecond})
		o := conc.RunCase(c, plan)
		if o.Viol != "" {
			report(t, c, plan, o)
		}
		var ps []string
		for _, p := range plan {
			ps = append(ps, p.Site[strings.Index(p.Site, "appencryption/")+len("appencryption/"):])
		}
		sort.Strings(ps)
		kit.Rec.Case(class+"|"+strings.Join(ps, ","), o.Fired > 0 && o.Destroyed > 0, func() any {
			return map[string]any{"config": class, "workers": c.Workers, "ops_per_worker": c.OpsPer, "partitions": c.Partitions, "plan": planString(plan), "pauses_fired": o.Fired, "cached_keys_destroyed_during_run": o.Destroyed}
		})
		if o.Fired > 0 {
			kit.Rec.Label("pause-fired")
		}
		if o.Destroyed > 0 {
			kit.Rec.Label("key-destroyed-during-run")
		}
		kit.Rec.Extra("yield_sites_in_last_profile", len(prof.Sites))
	})
}

func planString(plan []kit.PlanEntry) string {
	var s []string
	for _, p := range plan {
		s = append(s, fmt.Sprintf("%s#%d+%s", p.Site, p.Hit, p.Pause))
	}
	return strings.Join(s, " ")
}

func report(t *rapid.T, c conc.Config, plan []kit.PlanEntry, o conc.Outcome) {
	msg := fmt.Sprintf("%s\n  config: %s workers=%d x %d ops, %d partitions\n  delay plan: %s", o.Viol, c.Class(), c.Workers, c.OpsPer, c.Partitions, planString(plan))
	if strings.Contains(o.Viol, "did not finish within") {
		kit.Abort("C08 violated: " + msg)
	}
	kit.Rec.Violation(o.Viol)
	t.Fatalf("C08 violated: %s", msg)
}

// TestSystematicSinglePreemption: for a set of tight configurations (capacity 1-2,
// every bounded policy, shared and per-session IK caches, session cache) and a fixed
// small workload, EVERY yield site reached in key_cache.go, session_cache.go,
// session.go, envelope.go, internal/key.go and pkg/cache is taken in turn as the
// single preemption point (k-th visit for k = 0..3, pause 2 ms).
func TestSystematicSinglePreemption(t *testing.T) {
	shard, shards := kit.Shard()
	type tight struct {
		ikPolicy, skPolicy string
		ikCap, skCap       int
		shared, sess       bool
	}
	var cfgs []tight
	for _, pol := range []string{"lru", "lfu", "slru", "tinylfu"} {
		cfgs = append(cfgs, tight{pol, "simple", 1, 10, true, false}, tight{pol, pol, 2, 1, true, false}, tight{pol, "simple", 1, 10, false, true})
	}
	cfgs = append(cfgs, tight{"simple", "lru", 10, 1, false, false})
	hits := kit.Pick(3, 6)
	var total, nontrivial int64
	unit := 0
	for _, tc := range cfgs {
		p := appencryption.NewCryptoPolicy()
		p.ExpireKeyAfter, p.RevokeCheckInterval, p.CreateDatePrecision = time.Hour, time.Second, time.Second
		p.IntermediateKeyCacheEvictionPolicy, p.IntermediateKeyCacheMaxSize = tc.ikPolicy, tc.ikCap
		p.SystemKeyCacheEvictionPolicy, p.SystemKeyCacheMaxSize = tc.skPolicy, tc.skCap
		p.SharedIntermediateKeyCache = tc.shared
		if tc.sess {
			p.CacheSessions, p.SessionCacheMaxSize, p.SessionCacheEvictionPolicy = true, 1, "lru"
		}
		c := conc.Config{Pol: p, Partitions: 3, Workers: 3, OpsPer: 8, SeedOps: []int{11, 222, 3333}}
		prof := conc.RunCase(c, nil)
		if prof.Viol != "" {
			reportT(t, c, nil, prof)
		}
		for _, site := range prof.Sites {
			for h := 0; h < hits && h < prof.Hits[site]; h++ {
				unit++
				if unit%shards != shard {
					continue
				}
				plan := []kit.PlanEntry{{Site: site, Hit: h, Pause: 2 * time.Millisecond}}
				o := conc.RunCase(c, plan)
				total++
				if o.Fired > 0 && o.Destroyed > 0 {
					nontrivial++
				}
				if o.Viol != "" {
					reportT(t, c, plan, o)
				}
			}
		}
		kit.Rec.LabelN("systematic:"+tc.ikPolicy, 1)
	}
	kit.Rec.Enumerated(total, nontrivial)
	kit.Rec.Sample(map[string]any{"kind": "systematic single preemption", "example": "shared lru IK cache of capacity 1, 3 workers x 8 ops, pause 2ms at the 0th visit of go/appencryption/key_cache.go:<line>"})
}

func reportT(t *testing.T, c conc.Config, plan []kit.PlanEntry, o conc.Outcome) {
	msg := fmt.Sprintf("%s\n  config: %s workers=%d x %d ops, %d partitions\n  delay plan: %s", o.Viol, c.Class(), c.Workers, c.OpsPer, c.Partitions, planString(plan))
	if strings.Contains(o.Viol, "did not finish within") {
		kit.Abort("C08 violated: " + msg)
	}
	kit.Rec.Violation(o.Viol)
	t.Fatalf("C08 violated: %s", msg)
}
