// Package c08: a key in use is never destroyed underneath its user, under any schedule.
package c08

import (
	"bytes"
	"context"
	"fmt"
	"sort"
	"strings"
	"sync"
	"sync/atomic"
	"testing"
	"time"

	"github.com/godaddy/asherah/go/appencryption"
	"github.com/godaddy/asherah/go/appencryption/pkg/crypto/aead"
	"pgregory.net/rapid"
	"verif/kit"
	"verifhook"
)

func TestMain(m *testing.M) {
	kit.Main(m, "C08", "exploration",
		"one SessionFactory with a rapid-drawn configuration (IK / SK cache policy in {simple, lru, lfu, slru, tinylfu}, capacities 1-3 (synchronous eviction) and 100-101 (asynchronous eviction, more keys than capacity), shared or per-session IK cache, session cache on/off, revoke-check interval of 1 s against clock steps of 0.6 s) "+
			"and 2-8 goroutines each running 10-40 operations over more partitions and key generations than the caches hold (get session, encrypt, decrypt any pooled record, hold a session across operations, close own session, advance the virtual clock), "+
			"under a rapid-drawn DELAY PLAN: 1-3 pauses (0.1-3 ms) at statement-level yield points that the overlay inserts into key_cache.go, session_cache.go, session.go, envelope.go, internal/key.go and pkg/cache/*.go, addressed as (site, k-th visit); sites are taken from a profiling run of the same workload so only reachable sites are drawn. "+
			"Oracle: every operation returns no error and the right bytes (no goroutine ever closes a session another goroutine is using through its own handle, nor the factory); the tracking SecretFactory records zero reads of a closed secret; no crash, no hang. "+
			"One evaluation = one (configuration, workload, delay plan). Non-trivial = at least one pause fired and at least one cached key was destroyed (eviction, refresh or session teardown) while workers were running; distinct = (cache class, paused sites)",
		"schedules are sampled (preemption-bounded), not enumerated: a violation needing more than 3 coordinated preemptions may be missed", "virtual clock and yield points injected by build overlay")
}

var ctx = context.Background()

type config struct {
	pol        *appencryption.CryptoPolicy
	partitions int
	workers    int
	opsPer     int
	seedOps    []int // per worker: pseudo-random stream seed
}

func (c config) class() string {
	p := c.pol
	s := fmt.Sprintf("ik=%s/%d sk=%s/%d shared=%v", p.IntermediateKeyCacheEvictionPolicy, p.IntermediateKeyCacheMaxSize, p.SystemKeyCacheEvictionPolicy, p.SystemKeyCacheMaxSize, p.SharedIntermediateKeyCache)
	if p.CacheSessions {
		s += fmt.Sprintf(" sess=%s/%d", p.SessionCacheEvictionPolicy, p.SessionCacheMaxSize)
	}
	return s
}

func drawConfig(t *rapid.T) config {
	p := appencryption.NewCryptoPolicy()
	p.ExpireKeyAfter = time.Hour
	p.RevokeCheckInterval = time.Second
	p.CreateDatePrecision = time.Second
	pols := []string{"simple", "lru", "lfu", "slru", "tinylfu"}
	caps := []int{1, 1, 2, 3, 100, 101}
	p.IntermediateKeyCacheEvictionPolicy = rapid.SampledFrom(pols).Draw(t, "ikPolicy")
	p.IntermediateKeyCacheMaxSize = rapid.SampledFrom(caps).Draw(t, "ikCap")
	p.SystemKeyCacheEvictionPolicy = rapid.SampledFrom(pols).Draw(t, "skPolicy")
	p.SystemKeyCacheMaxSize = rapid.SampledFrom(caps).Draw(t, "skCap")
	p.SharedIntermediateKeyCache = rapid.IntRange(0, 9).Draw(t, "shared") < 6
	if rapid.IntRange(0, 9).Draw(t, "sessCache") < 4 {
		p.CacheSessions = true
		p.SessionCacheMaxSize = rapid.IntRange(1, 3).Draw(t, "sessCap")
		p.SessionCacheEvictionPolicy = rapid.SampledFrom([]string{"", "lru", "lfu", "slru", "tinylfu"}).Draw(t, "sessPolicy")
		p.SessionCacheDuration = rapid.SampledFrom([]time.Duration{0, 2 * time.Second, 2 * time.Hour}).Draw(t, "sessDur")
	}
	c := config{pol: p, workers: rapid.IntRange(2, 8).Draw(t, "workers"), opsPer: rapid.IntRange(10, 40).Draw(t, "ops")}
	c.partitions = rapid.IntRange(3, 6).Draw(t, "partitions")
	if p.IntermediateKeyCacheMaxSize >= 100 && p.SharedIntermediateKeyCache {
		c.partitions = 60 // > capacity / generations so that asynchronous eviction happens
	}
	for i := 0; i < c.workers; i++ {
		c.seedOps = append(c.seedOps, rapid.IntRange(1, 1<<30).Draw(t, "stream"))
	}
	return c
}

type pooled struct {
	part    string
	payload []byte
	drr     appencryption.DataRowRecord
}

type outcome struct {
	viol      string
	fired     int
	destroyed int
	sites     []string
	hits      map[string]int
}

func cloneDRR(d appencryption.DataRowRecord) appencryption.DataRowRecord {
	k := *d.Key
	k.EncryptedKey = append([]byte(nil), d.Key.EncryptedKey...)
	pm := *d.Key.ParentKeyMeta
	k.ParentKeyMeta = &pm
	return appencryption.DataRowRecord{Key: &k, Data: append([]byte(nil), d.Data...)}
}

// runCase builds the factory, seeds a pool sequentially (two key generations per
// partition), then runs the concurrent workload under the delay plan.
func runCase(c config, plan []kit.PlanEntry) outcome {
	verifhook.InstallClock(time.Unix(1_700_000_000, 0))
	defer verifhook.RemoveClock()
	log := &kit.CallLog{}
	store := kit.NewStore(log)
	kmsSpy := kit.NewSpyKMS(log)
	secrets := kit.NewTracker()
	f := appencryption.NewSessionFactory(&appencryption.Config{Service: "svc", Product: "prod", Policy: c.pol}, store, kmsSpy, aead.NewAES256GCM(), appencryption.WithSecretFactory(secrets))
	parts := make([]string, c.partitions)
	for i := range parts {
		parts[i] = fmt.Sprintf("p%d", i)
	}
	var poolMu sync.Mutex
	pool := map[string][]pooled{}
	// sequential seeding: generation 1, revoke, generation 2
	for gen := 0; gen < 2; gen++ {
		for _, p := range parts {
			s, err := f.GetSession(p)
			if err != nil {
				return outcome{viol: "seeding: " + err.Error()}
			}
			pay := []byte(fmt.Sprintf("seed-%s-%d", p, gen))
			r, err := s.Encrypt(ctx, pay)
			s.Close()
			if err != nil {
				return outcome{viol: "seeding: " + err.Error()}
			}
			pool[p] = append(pool[p], pooled{p, pay, cloneDRR(*r)})
		}
		if gen == 0 {
			for _, p := range parts {
				if l := store.Latest(kit.RefIKID(p, "svc", "prod", "")); l != nil {
					store.Revoke(l.ID, l.Created)
				}
			}
			verifhook.Advance(3 * time.Second)
		}
	}
	liveBefore := secrets.Count()
	sc := kit.NewSched(plan, kit.SiteFilter("go/appencryption/"))
	sc.Install()
	defer sc.Remove()
	var firstViol atomic.Value
	note := func(format string, args ...any) {
		firstViol.CompareAndSwap(nil, fmt.Sprintf(format, args...))
	}
	var wg sync.WaitGroup
	for w := 0; w < c.workers; w++ {
		wg.Add(1)
		go func(w int) {
			defer wg.Done()
			defer func() {
				if p := recover(); p != nil {
					note("worker %d panicked: %v", w, p)
				}
			}()
			x := uint32(c.seedOps[w])
			next := func(n int) int {
				x = x*1664525 + 1013904223
				return int(x>>8) % n
			}
			var held *appencryption.Session
			var heldPart string
			for i := 0; i < c.opsPer && firstViol.Load() == nil; i++ {
				part := parts[next(len(parts))]
				s := held
				if s == nil || heldPart != part {
					if held != nil {
						held.Close()
						held = nil
					}
					var err error
					s, err = f.GetSession(part)
					if err != nil {
						note("worker %d: GetSession(%s) failed: %v", w, part, err)
						return
					}
				}
				switch op := next(10); {
				case op < 4:
					pay := []byte(fmt.Sprintf("w%d-op%d", w, i))
					r, err := s.Encrypt(ctx, pay)
					if err != nil {
						note("worker %d: Encrypt on %s failed: %v", w, part, err)
						return
					}
					poolMu.Lock()
					pool[part] = append(pool[part], pooled{part, pay, cloneDRR(*r)})
					poolMu.Unlock()
				case op < 9:
					poolMu.Lock()
					rec := pool[part][next(len(pool[part]))]
					poolMu.Unlock()
					out, err := s.Decrypt(ctx, cloneDRR(rec.drr))
					if err != nil {
						note("worker %d: Decrypt on %s of a record under IK created %d failed: %v", w, part, rec.drr.Key.ParentKeyMeta.Created, err)
						return
					}
					if !bytes.Equal(out, rec.payload) {
						note("worker %d: Decrypt returned other bytes", w)
						return
					}
				default:
					verifhook.Advance(600 * time.Millisecond)
				}
				if next(3) == 0 {
					held, heldPart = s, part // keep the session across operations
				} else {
					s.Close()
					held = nil
				}
			}
			if held != nil {
				held.Close()
			}
		}(w)
	}
	done := make(chan struct{})
	go func() { wg.Wait(); close(done) }()
	select {
	case <-done:
	case <-time.After(60 * time.Second):
		return outcome{viol: "workers did not finish within 60s (deadlock)"}
	}
	sc.Remove()
	res := outcome{fired: sc.Fired()}
	res.sites, res.hits = sc.Sites()
	for _, si := range secrets.InfosRange(0, secrets.Count()) {
		if si.Origin == "New" && si.Closed > 0 && si.ID < liveBefore+1<<30 {
			res.destroyed++
		}
	}
	if v := firstViol.Load(); v != nil {
		res.viol = v.(string)
	}
	if ra := secrets.ReadsAfterClose(); len(ra) > 0 && res.viol == "" {
		res.viol = fmt.Sprintf("a key secret was accessed after it had been destroyed: %s", ra[0])
	}
	f.Close()
	return res
}

var profiles sync.Map // class -> *outcome

func TestDelayPlans(t *testing.T) {
	kit.Check(t, 400, 48000, func(t *rapid.T) {
		c := drawConfig(t)
		class := c.class()
		var prof *outcome
		if v, ok := profiles.Load(class); ok {
			prof = v.(*outcome)
		} else {
			o := runCase(c, nil)
			if o.viol != "" {
				report(t, c, nil, o)
			}
			prof = &o
			profiles.Store(class, prof)
		}
		plan := kit.DrawPlan(t, prof.sites, prof.hits, 3, []time.Duration{100 * time.Microsecond, 500 * time.Microsecond, 3 * time.Millisecond})
		o := runCase(c, plan)
		if o.viol != "" {
			report(t, c, plan, o)
		}
		var ps []string
		for _, p := range plan {
			ps = append(ps, p.Site[strings.Index(p.Site, "appencryption/")+len("appencryption/"):])
		}
		sort.Strings(ps)
		kit.Rec.Case(class+"|"+strings.Join(ps, ","), o.fired > 0 && o.destroyed > 0, func() any {
			return map[string]any{"config": class, "workers": c.workers, "ops_per_worker": c.opsPer, "partitions": c.partitions, "plan": planString(plan), "pauses_fired": o.fired, "cached_keys_destroyed_during_run": o.destroyed}
		})
		if o.fired > 0 {
			kit.Rec.Label("pause-fired")
		}
		if o.destroyed > 0 {
			kit.Rec.Label("key-destroyed-during-run")
		}
		kit.Rec.Extra("yield_sites_in_last_profile", len(prof.sites))
	})
}

func planString(plan []kit.PlanEntry) string {
	var s []string
	for _, p := range plan {
		s = append(s, fmt.Sprintf("%s#%d+%s", p.Site, p.Hit, p.Pause))
	}
	return strings.Join(s, " ")
}

func report(t *rapid.T, c config, plan []kit.PlanEntry, o outcome) {
	msg := fmt.Sprintf("%s\n  config: %s workers=%d x %d ops, %d partitions\n  delay plan: %s", o.viol, c.class(), c.workers, c.opsPer, c.partitions, planString(plan))
	if strings.Contains(o.viol, "did not finish within") {
		kit.Abort("C08 violated: " + msg)
	}
	kit.Rec.Violation(o.viol)
	t.Fatalf("C08 violated: %s", msg)
}

// TestSystematicSinglePreemption: for a set of tight configurations (capacity 1-2,
// every bounded policy, shared and per-session IK caches, session cache) and a fixed
// small workload, EVERY yield site reached in key_cache.go, session_cache.go,
// session.go, envelope.go, internal/key.go and pkg/cache is taken in turn as the
// single preemption point (k-th visit for k = 0..3, pause 2 ms).
func TestSystematicSinglePreemption(t *testing.T) {
	shard, shards := kit.Shard()
	type tight struct {
		ikPolicy, skPolicy string
		ikCap, skCap       int
		shared, sess       bool
	}
	var cfgs []tight
	for _, pol := range []string{"lru", "lfu", "slru", "tinylfu"} {
		cfgs = append(cfgs, tight{pol, "simple", 1, 10, true, false}, tight{pol, pol, 2, 1, true, false}, tight{pol, "simple", 1, 10, false, true})
	}
	cfgs = append(cfgs, tight{"simple", "lru", 10, 1, false, false})
	hits := kit.Pick(3, 6)
	var total, nontrivial int64
	unit := 0
	for _, tc := range cfgs {
		p := appencryption.NewCryptoPolicy()
		p.ExpireKeyAfter, p.RevokeCheckInterval, p.CreateDatePrecision = time.Hour, time.Second, time.Second
		p.IntermediateKeyCacheEvictionPolicy, p.IntermediateKeyCacheMaxSize = tc.ikPolicy, tc.ikCap
		p.SystemKeyCacheEvictionPolicy, p.SystemKeyCacheMaxSize = tc.skPolicy, tc.skCap
		p.SharedIntermediateKeyCache = tc.shared
		if tc.sess {
			p.CacheSessions, p.SessionCacheMaxSize, p.SessionCacheEvictionPolicy = true, 1, "lru"
		}
		c := config{pol: p, partitions: 3, workers: 3, opsPer: 8, seedOps: []int{11, 222, 3333}}
		prof := runCase(c, nil)
		if prof.viol != "" {
			reportT(t, c, nil, prof)
		}
		for _, site := range prof.sites {
			for h := 0; h < hits && h < prof.hits[site]; h++ {
				unit++
				if unit%shards != shard {
					continue
				}
				plan := []kit.PlanEntry{{Site: site, Hit: h, Pause: 2 * time.Millisecond}}
				o := runCase(c, plan)
				total++
				if o.fired > 0 && o.destroyed > 0 {
					nontrivial++
				}
				if o.viol != "" {
					reportT(t, c, plan, o)
				}
			}
		}
		kit.Rec.LabelN("systematic:"+tc.ikPolicy, 1)
	}
	kit.Rec.Enumerated(total, nontrivial)
	kit.Rec.Sample(map[string]any{"kind": "systematic single preemption", "example": "shared lru IK cache of capacity 1, 3 workers x 8 ops, pause 2ms at the 0th visit of go/appencryption/key_cache.go:<line>"})
}

func reportT(t *testing.T, c config, plan []kit.PlanEntry, o outcome) {
	msg := fmt.Sprintf("%s\n  config: %s workers=%d x %d ops, %d partitions\n  delay plan: %s", o.viol, c.class(), c.workers, c.opsPer, c.partitions, planString(plan))
	if strings.Contains(o.viol, "did not finish within") {
		kit.Abort("C08 violated: " + msg)
	}
	kit.Rec.Violation(o.viol)
	t.Fatalf("C08 violated: %s", msg)
}
