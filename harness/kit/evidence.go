package kit

import (
	"encoding/json"
	"flag"
	"fmt"
	"hash/fnv"
	"os"
	"path/filepath"
	"sort"
	"strconv"
	"strings"
	"sync"
	"testing"
	"time"

	"pgregory.net/rapid"
)

// Recorder collects what a run actually covered. One per test binary.
type Recorder struct {
	mu          sync.Mutex
	Property    string
	Level       string
	Rule        string
	Assumptions []string

	evaluations int64
	distinctN   int64 // distinct non-trivial cases counted without hashing (enumerations: distinct by construction)
	distinct    map[uint64]struct{}
	samples     []any
	labels      map[string]int64
	known       map[string]int64
	knownWhat   map[string]string
	extra       map[string]any
	exhaustive  bool
	violations  []string
	start       time.Time
}

// Rec is the process-wide recorder, set by Main.
var Rec = &Recorder{distinct: map[uint64]struct{}{}, labels: map[string]int64{}, known: map[string]int64{}, knownWhat: map[string]string{}, extra: map[string]any{}, start: time.Now()}

const maxSamples = 6

// Case counts one generated case. shape is the abstract shape of the case; a
// case is counted towards distinct_nontrivial when nontrivial is true and its
// shape has not been seen before. sample is only called for the first few.
func (r *Recorder) Case(shape string, nontrivial bool, sample func() any) {
	r.mu.Lock()
	defer r.mu.Unlock()
	r.evaluations++
	if !nontrivial {
		return
	}
	h := fnv.New64a()
	h.Write([]byte(shape))
	k := h.Sum64()
	if _, ok := r.distinct[k]; ok {
		return
	}
	r.distinct[k] = struct{}{}
	if len(r.samples) < maxSamples && sample != nil {
		r.samples = append(r.samples, sample())
	}
}

// Enumerated counts n executed cases of which nontrivial are non-trivial; the caller
// guarantees they are pairwise distinct (an enumeration without repetition).
func (r *Recorder) Enumerated(n, nontrivial int64) {
	r.mu.Lock()
	r.evaluations += n
	r.distinctN += nontrivial
	r.mu.Unlock()
}

// Sample adds a sample case if there is still room.
func (r *Recorder) Sample(s any) {
	r.mu.Lock()
	if len(r.samples) < maxSamples {
		r.samples = append(r.samples, s)
	}
	r.mu.Unlock()
}

// Label counts an occurrence of a generator-health label.
func (r *Recorder) Label(l string) {
	r.mu.Lock()
	r.labels[l]++
	r.mu.Unlock()
}

// LabelN adds n to a label.
func (r *Recorder) LabelN(l string, n int64) {
	r.mu.Lock()
	r.labels[l] += n
	r.mu.Unlock()
}

// Known records an occurrence of a listed known finding (never a violation).
func (r *Recorder) Known(signature, what string) {
	r.mu.Lock()
	r.known[signature]++
	r.knownWhat[signature] = what
	r.mu.Unlock()
}

// Extra sets an extra coverage key.
func (r *Recorder) Extra(k string, v any) {
	r.mu.Lock()
	r.extra[k] = v
	r.mu.Unlock()
}

// AddExtra adds n to a numeric extra coverage key.
func (r *Recorder) AddExtra(k string, n int64) {
	r.mu.Lock()
	cur, _ := r.extra[k].(int64)
	r.extra[k] = cur + n
	r.mu.Unlock()
}

// SetExhaustive marks that a finite space was enumerated completely.
func (r *Recorder) SetExhaustive(b bool) { r.mu.Lock(); r.exhaustive = b; r.mu.Unlock() }

// Violation records a violation description (the test must also fail).
func (r *Recorder) Violation(s string) {
	r.mu.Lock()
	r.violations = append(r.violations, s)
	r.mu.Unlock()
}

type shardFile struct {
	Property    string            `json:"property_id"`
	Level       string            `json:"level"`
	Rule        string            `json:"rule"`
	Assumptions []string          `json:"assumptions"`
	Evaluations int64             `json:"evaluations"`
	Distinct    []string          `json:"distinct"`
	DistinctN   int64             `json:"distinct_n"`
	Samples     []any             `json:"samples"`
	Labels      map[string]int64  `json:"labels"`
	Known       map[string]int64  `json:"known"`
	KnownWhat   map[string]string `json:"known_what"`
	Extra       map[string]any    `json:"extra"`
	Exhaustive  bool              `json:"exhaustive"`
	Violations  []string          `json:"violations"`
	WallS       float64           `json:"wall_s"`
}

// Flush writes the shard evidence file into $VERIF_OUT (the driver merges shards).
func (r *Recorder) Flush() {
	r.mu.Lock()
	defer r.mu.Unlock()
	out := os.Getenv("VERIF_OUT")
	if out == "" {
		return
	}
	sf := shardFile{Property: r.Property, Level: r.Level, Rule: r.Rule, Assumptions: r.Assumptions,
		Evaluations: r.evaluations, DistinctN: r.distinctN, Samples: r.samples, Labels: r.labels, Known: r.known, KnownWhat: r.knownWhat,
		Extra: r.extra, Exhaustive: r.exhaustive, Violations: r.violations, WallS: time.Since(r.start).Seconds()}
	for k := range r.distinct {
		sf.Distinct = append(sf.Distinct, strconv.FormatUint(k, 16))
	}
	sort.Strings(sf.Distinct)
	b, err := json.Marshal(sf)
	if err != nil {
		fmt.Fprintln(os.Stderr, "evidence marshal:", err)
		return
	}
	name := fmt.Sprintf("evidence-%s-%d.json", os.Getenv("VERIF_SHARD"), os.Getpid())
	_ = os.WriteFile(filepath.Join(out, name), b, 0o644)
}

// Main is the TestMain body shared by all property packages.
func Main(m *testing.M, property, level, rule string, assumptions ...string) {
	Rec.Property, Rec.Level, Rec.Rule, Rec.Assumptions = property, level, rule, assumptions
	flag.Parse()
	code := m.Run()
	for sig, n := range Rec.known {
		fmt.Printf("KNOWN-FINDING: property=%s %s (signature %s, seen %d times)\n", property, Rec.knownWhat[sig], sig, n)
	}
	Rec.Flush()
	os.Exit(code)
}

// ---- tier / seed plumbing ---------------------------------------------------

// Tier returns "quick" or "thorough".
func Tier() string {
	if os.Getenv("VERIF_TIER") == "thorough" {
		return "thorough"
	}
	return "quick"
}

// Thorough reports whether the thorough tier is running.
func Thorough() bool { return Tier() == "thorough" }

// Pick returns q in the quick tier and th in the thorough tier.
func Pick(q, th int) int {
	if Thorough() {
		return th
	}
	return q
}

// Seed is VERIF_SEED (default 1).
func Seed() uint64 {
	s, err := strconv.ParseUint(os.Getenv("VERIF_SEED"), 10, 64)
	if err != nil {
		// negative or malformed seeds are hashed
		h := fnv.New64a()
		h.Write([]byte(os.Getenv("VERIF_SEED")))
		s = h.Sum64()
		if os.Getenv("VERIF_SEED") == "" {
			s = 1
		}
	}
	return s
}

// Shard returns (index, count) of this process among the parallel shards.
func Shard() (int, int) {
	i, _ := strconv.Atoi(os.Getenv("VERIF_SHARD"))
	n, _ := strconv.Atoi(os.Getenv("VERIF_SHARDS"))
	if n < 1 {
		n = 1
	}
	return i, n
}

func mix(a uint64, b uint64, s string) uint64 {
	h := fnv.New64a()
	var buf [16]byte
	for i := 0; i < 8; i++ {
		buf[i] = byte(a >> (8 * i))
		buf[8+i] = byte(b >> (8 * i))
	}
	h.Write(buf[:])
	h.Write([]byte(s))
	v := h.Sum64()
	if v == 0 {
		v = 1
	}
	return v
}

// SeedFor derives a non-zero PRNG seed for a named sub-run of this shard.
func SeedFor(name string) uint64 {
	i, _ := Shard()
	return mix(Seed(), uint64(i), name)
}

// Check runs a rapid property with tier-dependent case counts (the total is
// divided over the shards), a seed derived from VERIF_SEED, the shard index and
// the test name. With VERIF_REPLAY_FAIL set (and VERIF_REPLAY_TEST naming this
// test) it replays that fail file instead.
func Check(t *testing.T, quick, thorough int, prop func(*rapid.T)) {
	t.Helper()
	n := Pick(quick, thorough)
	_, shards := Shard()
	n = (n + shards - 1) / shards
	if n < 1 {
		n = 1
	}
	must(flag.Set("rapid.checks", strconv.Itoa(n)))
	must(flag.Set("rapid.seed", strconv.FormatUint(SeedFor(t.Name()), 10)))
	must(flag.Set("rapid.failfile", ""))
	// bound minimisation: a failing case is already a reproduction, shrinking only makes it smaller
	shrink := "20s"
	if Thorough() {
		shrink = "60s"
	}
	must(flag.Set("rapid.shrinktime", shrink))
	if rf := os.Getenv("VERIF_REPLAY_FAIL"); rf != "" {
		if os.Getenv("VERIF_REPLAY_TEST") != t.Name() {
			t.Skip("replay of another test")
		}
		must(flag.Set("rapid.failfile", rf))
	}
	rapid.Check(t, prop)
}

// Steps sets the average number of t.Repeat actions.
func Steps(n int) { must(flag.Set("rapid.steps", strconv.Itoa(n))) }

func must(err error) {
	if err != nil {
		panic(err)
	}
}

// Weighted expands {name: weight} into a t.Repeat action map in which each
// action appears weight times (t.Repeat samples keys uniformly).
func Weighted(actions map[string]func(*rapid.T), weights map[string]int, check func(*rapid.T)) map[string]func(*rapid.T) {
	res := map[string]func(*rapid.T){}
	for name, f := range actions {
		w, ok := weights[name]
		if !ok {
			w = 1
		}
		for i := 0; i < w; i++ {
			res[fmt.Sprintf("%s#%02d", name, i)] = f
		}
	}
	if check != nil {
		res[""] = check
	}
	return res
}

// ---- known findings ----------------------------------------------------------

type knownFile struct {
	Findings []struct {
		Property  string `json:"property"`
		Status    string `json:"status"`
		Signature string `json:"signature"`
		What      string `json:"what"`
	} `json:"findings"`
}

var knownOnce sync.Once
var knownOpen map[string]bool

// KnownOpen reports whether known_findings.json lists (property, signature) as an
// open finding. The file is read once and never written.
func KnownOpen(property, signature string) bool {
	knownOnce.Do(func() {
		knownOpen = map[string]bool{}
		dir := os.Getenv("VERIF_DIR")
		if dir == "" {
			dir = "/verif"
		}
		b, err := os.ReadFile(filepath.Join(dir, "known_findings.json"))
		if err != nil {
			return
		}
		var kf knownFile
		if json.Unmarshal(b, &kf) != nil {
			return
		}
		for _, f := range kf.Findings {
			if f.Status == "open" {
				knownOpen[f.Property+"/"+f.Signature] = true
			}
		}
	})
	return knownOpen[property+"/"+signature]
}

// Scripted runs a fixed scenario once under rapid (the world constructor draws a
// few irrelevant values such as the start offset).
func Scripted(t *testing.T, prop func(*rapid.T)) {
	t.Helper()
	must(flag.Set("rapid.checks", "1"))
	must(flag.Set("rapid.seed", strconv.FormatUint(SeedFor(t.Name()), 10)))
	must(flag.Set("rapid.failfile", ""))
	if os.Getenv("VERIF_REPLAY_FAIL") != "" {
		t.Skip("replay of another test")
	}
	rapid.Check(t, prop)
}

// Abort reports a violation that must not be minimised (every further execution
// would block for the length of a watchdog): it records the case, flushes the
// evidence and ends the process with the exit status of a failed test.
func Abort(msg string) {
	Rec.Violation(msg)
	fmt.Printf("VERIF-VIOLATION %s\n", strings.ReplaceAll(msg, "\n", "\n    "))
	if out := os.Getenv("VERIF_OUT"); out != "" {
		_ = os.WriteFile(filepath.Join(out, "hang.case.json"), []byte(fmt.Sprintf("%q\n", msg)), 0o644)
	}
	Rec.Flush()
	os.Exit(1)
}
