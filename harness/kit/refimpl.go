package kit

// Reference implementation written from docs/DesignAndArchitecture.md,
// docs/Metastore.md and tests/cross-language/features. It shares no code with
// the SDK: JSON is produced and parsed through its own types, AES-256-GCM comes
// straight from crypto/cipher, and rows are read from a snapshot of the store.

import (
	"bytes"
	"crypto/aes"
	"crypto/cipher"
	"crypto/rand"
	"encoding/base64"
	"encoding/json"
	"errors"
	"fmt"
	"sort"
)

// RefKeyMeta is the documented {"KeyId":..., "Created":...}.
type RefKeyMeta struct {
	KeyID   string
	Created int64
}

// RefEKR is a key record as documented: Created, Key (base64), optional Revoked, optional ParentKeyMeta.
type RefEKR struct {
	Created int64
	Key     []byte
	Revoked bool
	Parent  *RefKeyMeta
}

// RefDRR is a data row record: {"Key": EKR, "Data": base64}.
type RefDRR struct {
	Key  *RefEKR
	Data []byte
}

// RefRowKey addresses a metastore row.
type RefRowKey struct {
	ID      string
	Created int64
}

// RefSnapshot is a copy of the key table.
type RefSnapshot map[RefRowKey]RefEKR

// GCMSeal lays out ciphertext || 16-byte tag || 12-byte nonce.
func GCMSeal(key, plaintext []byte) ([]byte, error) {
	if len(key) != 32 {
		return nil, fmt.Errorf("ref: key length %d", len(key))
	}
	blk, err := aes.NewCipher(key)
	if err != nil {
		return nil, err
	}
	g, err := cipher.NewGCMWithNonceSize(blk, 12)
	if err != nil {
		return nil, err
	}
	nonce := make([]byte, 12)
	if _, err := rand.Read(nonce); err != nil {
		return nil, err
	}
	ct := g.Seal(nil, nonce, plaintext, nil) // ciphertext || tag
	return append(ct, nonce...), nil
}

// GCMOpen is the inverse of GCMSeal.
func GCMOpen(key, data []byte) ([]byte, error) {
	if len(key) != 32 {
		return nil, fmt.Errorf("ref: key length %d", len(key))
	}
	if len(data) < 12+16 {
		return nil, errors.New("ref: ciphertext shorter than tag+nonce")
	}
	blk, err := aes.NewCipher(key)
	if err != nil {
		return nil, err
	}
	g, err := cipher.NewGCMWithNonceSize(blk, 12)
	if err != nil {
		return nil, err
	}
	n := len(data) - 12
	pt, err := g.Open(nil, data[n:], data[:n], nil)
	if err != nil {
		return nil, err
	}
	if pt == nil {
		pt = []byte{}
	}
	return pt, nil
}

// ---- strict JSON codec -------------------------------------------------------

// ParseDRRStrict parses the documented JSON shape and rejects anything else:
// unknown fields, wrong types, missing mandatory fields, non-standard base64.
func ParseDRRStrict(b []byte) (*RefDRR, error) {
	var top map[string]json.RawMessage
	if err := json.Unmarshal(b, &top); err != nil {
		return nil, err
	}
	if err := onlyKeys(top, "Key", "Data"); err != nil {
		return nil, fmt.Errorf("DRR: %v", err)
	}
	if _, ok := top["Key"]; !ok {
		return nil, errors.New("DRR: missing Key")
	}
	if _, ok := top["Data"]; !ok {
		return nil, errors.New("DRR: missing Data")
	}
	data, err := b64Field(top["Data"])
	if err != nil {
		return nil, fmt.Errorf("DRR.Data: %v", err)
	}
	k, err := ParseEKRStrict(top["Key"])
	if err != nil {
		return nil, fmt.Errorf("DRR.Key: %v", err)
	}
	return &RefDRR{Key: k, Data: data}, nil
}

// ParseEKRStrict parses {"Created":n,"Key":"b64"[,"Revoked":true][,"ParentKeyMeta":{"KeyId":s,"Created":n}]}.
func ParseEKRStrict(b []byte) (*RefEKR, error) {
	var m map[string]json.RawMessage
	if err := json.Unmarshal(b, &m); err != nil {
		return nil, err
	}
	if err := onlyKeys(m, "Created", "Key", "Revoked", "ParentKeyMeta"); err != nil {
		return nil, err
	}
	res := &RefEKR{}
	c, ok := m["Created"]
	if !ok {
		return nil, errors.New("missing Created")
	}
	if err := strictInt(c, &res.Created); err != nil {
		return nil, fmt.Errorf("Created: %v", err)
	}
	kb, ok := m["Key"]
	if !ok {
		return nil, errors.New("missing Key")
	}
	var err error
	if res.Key, err = b64Field(kb); err != nil {
		return nil, fmt.Errorf("Key: %v", err)
	}
	if r, ok := m["Revoked"]; ok {
		// documented: present only when true
		if string(bytes.TrimSpace(r)) != "true" {
			return nil, fmt.Errorf("Revoked present but %s", r)
		}
		res.Revoked = true
	}
	if p, ok := m["ParentKeyMeta"]; ok {
		var pm map[string]json.RawMessage
		if err := json.Unmarshal(p, &pm); err != nil {
			return nil, fmt.Errorf("ParentKeyMeta: %v", err)
		}
		if err := onlyKeys(pm, "KeyId", "Created"); err != nil {
			return nil, fmt.Errorf("ParentKeyMeta: %v", err)
		}
		meta := &RefKeyMeta{}
		id, ok := pm["KeyId"]
		if !ok {
			return nil, errors.New("ParentKeyMeta: missing KeyId")
		}
		if err := json.Unmarshal(id, &meta.KeyID); err != nil {
			return nil, fmt.Errorf("ParentKeyMeta.KeyId: %v", err)
		}
		pc, ok := pm["Created"]
		if !ok {
			return nil, errors.New("ParentKeyMeta: missing Created")
		}
		if err := strictInt(pc, &meta.Created); err != nil {
			return nil, fmt.Errorf("ParentKeyMeta.Created: %v", err)
		}
		res.Parent = meta
	}
	return res, nil
}

func onlyKeys(m map[string]json.RawMessage, allowed ...string) error {
	ok := map[string]bool{}
	for _, a := range allowed {
		ok[a] = true
	}
	var bad []string
	for k := range m {
		if !ok[k] {
			bad = append(bad, k)
		}
	}
	if len(bad) > 0 {
		sort.Strings(bad)
		return fmt.Errorf("unknown fields %v", bad)
	}
	return nil
}

func strictInt(raw json.RawMessage, dst *int64) error {
	t := bytes.TrimSpace(raw)
	if len(t) == 0 || t[0] == '"' {
		return fmt.Errorf("not a number: %s", raw)
	}
	return json.Unmarshal(t, dst)
}

func b64Field(raw json.RawMessage) ([]byte, error) {
	var s string
	if err := json.Unmarshal(raw, &s); err != nil {
		return nil, err
	}
	return base64.StdEncoding.Strict().DecodeString(s)
}

// MarshalDRR renders the documented JSON by hand.
func MarshalDRR(d *RefDRR) []byte {
	var b bytes.Buffer
	b.WriteString(`{"Key":`)
	b.Write(MarshalEKR(d.Key))
	b.WriteString(`,"Data":`)
	b.Write(jsonStr(base64.StdEncoding.EncodeToString(d.Data)))
	b.WriteString(`}`)
	return b.Bytes()
}

// MarshalEKR renders a key record in the documented shape.
func MarshalEKR(e *RefEKR) []byte {
	var b bytes.Buffer
	b.WriteString(`{`)
	if e.Revoked {
		b.WriteString(`"Revoked":true,`)
	}
	fmt.Fprintf(&b, `"Created":%d,"Key":`, e.Created)
	b.Write(jsonStr(base64.StdEncoding.EncodeToString(e.Key)))
	if e.Parent != nil {
		b.WriteString(`,"ParentKeyMeta":{"KeyId":`)
		b.Write(jsonStr(e.Parent.KeyID))
		fmt.Fprintf(&b, `,"Created":%d}`, e.Parent.Created)
	}
	b.WriteString(`}`)
	return b.Bytes()
}

func jsonStr(s string) []byte {
	b, _ := json.Marshal(s)
	return b
}

// ---- key ids ------------------------------------------------------------------

// RefSKID is _SK_<service>_<product>[_<region>].
func RefSKID(service, product, region string) string {
	id := "_SK_" + service + "_" + product
	if region != "" {
		id += "_" + region
	}
	return id
}

// RefIKID is _IK_<partition>_<service>_<product>[_<region>].
func RefIKID(partition, service, product, region string) string {
	id := "_IK_" + partition + "_" + service + "_" + product
	if region != "" {
		id += "_" + region
	}
	return id
}

// ---- decryptor / encryptor over a snapshot -----------------------------------

// RefKMS unwraps a system key.
type RefKMS func(ct []byte) ([]byte, error)

// RefDecrypt walks DRR -> IK row -> SK row -> KMS using only the snapshot.
func RefDecrypt(snap RefSnapshot, kms RefKMS, d *RefDRR) ([]byte, error) {
	if d == nil || d.Key == nil || d.Key.Parent == nil {
		return nil, errors.New("ref: record without key or parent meta")
	}
	ikRow, ok := snap[RefRowKey{d.Key.Parent.KeyID, d.Key.Parent.Created}]
	if !ok {
		return nil, fmt.Errorf("ref: IK row (%s,%d) not in store", d.Key.Parent.KeyID, d.Key.Parent.Created)
	}
	if ikRow.Parent == nil {
		return nil, errors.New("ref: IK row without parent meta")
	}
	skRow, ok := snap[RefRowKey{ikRow.Parent.KeyID, ikRow.Parent.Created}]
	if !ok {
		return nil, fmt.Errorf("ref: SK row (%s,%d) not in store", ikRow.Parent.KeyID, ikRow.Parent.Created)
	}
	sk, err := kms(skRow.Key)
	if err != nil {
		return nil, fmt.Errorf("ref: kms: %v", err)
	}
	ik, err := GCMOpen(sk, ikRow.Key)
	if err != nil {
		return nil, fmt.Errorf("ref: unwrap IK: %v", err)
	}
	drk, err := GCMOpen(ik, d.Key.Key)
	if err != nil {
		return nil, fmt.Errorf("ref: unwrap DRK: %v", err)
	}
	pt, err := GCMOpen(drk, d.Data)
	if err != nil {
		return nil, fmt.Errorf("ref: decrypt data: %v", err)
	}
	return pt, nil
}

// RefHierarchy is a reference-built SK + IK pair (plaintexts kept for further encrypts).
type RefHierarchy struct {
	SKID, IKID           string
	SKCreated, IKCreated int64
	SK, IK               []byte
	SKRow, IKRow         RefEKR
}

// RefNewSK creates and wraps a fresh system key.
func RefNewSK(wrap func([]byte) []byte, created int64) ([]byte, RefEKR) {
	sk := randBytes(32)
	return sk, RefEKR{Created: created, Key: wrap(sk)}
}

// RefNewIK creates a fresh intermediate key wrapped under sk.
func RefNewIK(sk []byte, skID string, skCreated, created int64) ([]byte, RefEKR, error) {
	ik := randBytes(32)
	enc, err := GCMSeal(sk, ik)
	if err != nil {
		return nil, RefEKR{}, err
	}
	return ik, RefEKR{Created: created, Key: enc, Parent: &RefKeyMeta{KeyID: skID, Created: skCreated}}, nil
}

// RefEncrypt builds a data row record under ik.
func RefEncrypt(ik []byte, ikID string, ikCreated, now int64, payload []byte) (*RefDRR, error) {
	drk := randBytes(32)
	data, err := GCMSeal(drk, payload)
	if err != nil {
		return nil, err
	}
	encDrk, err := GCMSeal(ik, drk)
	if err != nil {
		return nil, err
	}
	return &RefDRR{Key: &RefEKR{Created: now, Key: encDrk, Parent: &RefKeyMeta{KeyID: ikID, Created: ikCreated}}, Data: data}, nil
}

func randBytes(n int) []byte {
	b := make([]byte, n)
	if _, err := rand.Read(b); err != nil {
		panic(err)
	}
	return b
}
