package kit

import (
	"bytes"
	"context"
	"crypto/aes"
	"crypto/cipher"
	"crypto/rand"
	"crypto/sha256"
	"encoding/hex"
	"errors"
	"fmt"
	"sync"

	"github.com/godaddy/asherah/go/appencryption"
	"github.com/godaddy/asherah/go/appencryption/pkg/crypto/aead"
	"verifhook"
)

// Fp is a short fingerprint of a byte string (never the bytes themselves).
func Fp(b []byte) string {
	h := sha256.Sum256(b)
	return hex.EncodeToString(h[:8])
}

// ---- spy KMS ----------------------------------------------------------------

// Retained is a buffer handed out by a spy that may hold plaintext key material.
type Retained struct {
	Buf    []byte // the very slice handed to the SDK
	Origin string // e.g. "kms.DecryptKey", "aead.Decrypt(key)"
	Seq    int
	KeyFp  string // fingerprint of the content when handed out
}

// SpyKMS wraps keys with AES-256-GCM under a harness master key
// (layout: 12-byte nonce || ciphertext+tag) so the reference implementation can
// unwrap on its own.
type SpyKMS struct {
	Master []byte
	Log    *CallLog
	Actor  string

	mu       sync.Mutex
	Retained []*Retained     // plaintexts returned by DecryptKey
	SeenSK   map[string]bool // fingerprints of plaintext system keys seen (EncryptKey args, DecryptKey results)
	SKBytes  [][]byte        // copies of those plaintexts for leak scanning
	Requests [][]byte        // copies of every ciphertext request to DecryptKey
}

// NewSpyKMS returns a KMS with a random master key.
func NewSpyKMS(log *CallLog) *SpyKMS {
	m := make([]byte, 32)
	if _, err := rand.Read(m); err != nil {
		panic(err)
	}
	return &SpyKMS{Master: m, Log: log, SeenSK: map[string]bool{}}
}

// For returns a KMS view attributed to actor (shares all state).
func (k *SpyKMS) For(actor string) appencryption.KeyManagementService { return actorKMS{k, actor} }

type actorKMS struct {
	k     *SpyKMS
	actor string
}

func (a actorKMS) EncryptKey(ctx context.Context, b []byte) ([]byte, error) {
	return a.k.encrypt(a.actor, b)
}
func (a actorKMS) DecryptKey(ctx context.Context, b []byte) ([]byte, error) {
	return a.k.decrypt(a.actor, b)
}

// EncryptKey implements KeyManagementService.
func (k *SpyKMS) EncryptKey(ctx context.Context, b []byte) ([]byte, error) {
	return k.encrypt(k.Actor, b)
}

// DecryptKey implements KeyManagementService.
func (k *SpyKMS) DecryptKey(ctx context.Context, b []byte) ([]byte, error) {
	return k.decrypt(k.Actor, b)
}

func (k *SpyKMS) note(pt []byte) {
	fp := Fp(pt)
	if !k.SeenSK[fp] {
		k.SeenSK[fp] = true
		k.SKBytes = append(k.SKBytes, append([]byte(nil), pt...))
	}
}

func (k *SpyKMS) encrypt(actor string, key []byte) ([]byte, error) {
	idx, f := k.Log.begin(Call{Target: "kms", Op: "EncryptKey", Actor: actor, ID: Fp(key)})
	if f != NoFault {
		k.Log.end(idx, false, 0, ErrInjected)
		return nil, ErrInjected
	}
	k.mu.Lock()
	k.note(key)
	k.mu.Unlock()
	ct := KMSWrap(k.Master, key)
	k.Log.end(idx, true, 0, nil)
	return ct, nil
}

func (k *SpyKMS) decrypt(actor string, ct []byte) ([]byte, error) {
	idx, f := k.Log.begin(Call{Target: "kms", Op: "DecryptKey", Actor: actor, ID: Fp(ct)})
	if f != NoFault {
		k.Log.end(idx, false, 0, ErrInjected)
		return nil, ErrInjected
	}
	k.mu.Lock()
	k.Requests = append(k.Requests, append([]byte(nil), ct...))
	k.mu.Unlock()
	pt, err := KMSUnwrap(k.Master, ct)
	if err != nil {
		k.Log.end(idx, false, 0, err)
		return nil, err
	}
	k.mu.Lock()
	k.note(pt)
	k.Retained = append(k.Retained, &Retained{Buf: pt, Origin: "kms.DecryptKey", Seq: idx, KeyFp: Fp(pt)})
	k.mu.Unlock()
	k.Log.end(idx, true, 0, nil)
	return pt, nil
}

// KMSWrap is the harness KMS wrap function.
func KMSWrap(master, key []byte) []byte {
	blk, _ := aes.NewCipher(master)
	g, _ := cipher.NewGCM(blk)
	nonce := make([]byte, 12)
	if _, err := rand.Read(nonce); err != nil {
		panic(err)
	}
	return g.Seal(nonce, nonce, key, []byte("verif-kms"))
}

// KMSUnwrap is the inverse of KMSWrap.
func KMSUnwrap(master, ct []byte) ([]byte, error) {
	if len(ct) < 12+16 {
		return nil, errors.New("verif kms: ciphertext too short")
	}
	blk, _ := aes.NewCipher(master)
	g, _ := cipher.NewGCM(blk)
	return g.Open(nil, ct[:12], ct[12:], []byte("verif-kms"))
}

// ---- spy AEAD -----------------------------------------------------------------

// AEADCall is one call seen by the spy AEAD.
type AEADCall struct {
	Seq      int
	Op       string // Encrypt / Decrypt
	KeyFp    string
	KeyLen   int
	Nonce    string // hex of the last 12 bytes of the output (Encrypt) or input (Decrypt)
	PlainFp  string
	PlainLen int
	OutLen   int
	Err      string
	At       int64
	Fault    bool
}

// SpyAEAD wraps the SDK's AES-256-GCM.
type SpyAEAD struct {
	Inner appencryption.AEAD

	mu       sync.Mutex
	Calls    []AEADCall
	Retained []*Retained                     // plaintexts returned by Decrypt
	KeyBytes map[string][]byte               // fp -> copy of every key byte string used (for leak scanning)
	Plain    map[string][]byte               // fp -> copy of plaintexts of length 32 given to Encrypt (candidate keys)
	Plan     func(idx int, c *AEADCall) bool // true = fail this call
	// NoRetain disables retention of returned plaintexts (saves memory in long runs).
	NoRetain bool
}

// NewSpyAEAD wraps aead.NewAES256GCM().
func NewSpyAEAD() *SpyAEAD {
	return &SpyAEAD{Inner: aead.NewAES256GCM(), KeyBytes: map[string][]byte{}, Plain: map[string][]byte{}}
}

func (a *SpyAEAD) begin(c AEADCall, key []byte) (int, bool) {
	a.mu.Lock()
	defer a.mu.Unlock()
	c.Seq = len(a.Calls)
	c.At = verifhook.Now().UnixNano()
	c.KeyFp = Fp(key)
	c.KeyLen = len(key)
	if _, ok := a.KeyBytes[c.KeyFp]; !ok {
		a.KeyBytes[c.KeyFp] = append([]byte(nil), key...)
	}
	if a.Plan != nil && a.Plan(c.Seq, &c) {
		c.Fault = true
	}
	a.Calls = append(a.Calls, c)
	return c.Seq, c.Fault
}

// Encrypt implements AEAD.
func (a *SpyAEAD) Encrypt(data, key []byte) ([]byte, error) {
	c := AEADCall{Op: "Encrypt", PlainFp: Fp(data), PlainLen: len(data)}
	if len(data) == 32 {
		a.mu.Lock()
		if _, ok := a.Plain[c.PlainFp]; !ok {
			a.Plain[c.PlainFp] = append([]byte(nil), data...)
		}
		a.mu.Unlock()
	}
	idx, fault := a.begin(c, key)
	if fault {
		a.finish(idx, nil, ErrInjected)
		return nil, ErrInjected
	}
	out, err := a.Inner.Encrypt(data, key)
	a.finish(idx, out, err)
	return out, err
}

// Decrypt implements AEAD.
func (a *SpyAEAD) Decrypt(data, key []byte) ([]byte, error) {
	c := AEADCall{Op: "Decrypt"}
	if len(data) >= 12 {
		c.Nonce = hex.EncodeToString(data[len(data)-12:])
	}
	idx, fault := a.begin(c, key)
	if fault {
		a.finish(idx, nil, ErrInjected)
		return nil, ErrInjected
	}
	out, err := a.Inner.Decrypt(data, key)
	a.mu.Lock()
	a.Calls[idx].PlainFp = Fp(out)
	a.Calls[idx].PlainLen = len(out)
	if err == nil && !a.NoRetain {
		a.Retained = append(a.Retained, &Retained{Buf: out, Origin: "aead.Decrypt", Seq: idx, KeyFp: Fp(out)})
	}
	a.mu.Unlock()
	a.finish(idx, out, err)
	return out, err
}

func (a *SpyAEAD) finish(idx int, out []byte, err error) {
	a.mu.Lock()
	defer a.mu.Unlock()
	c := &a.Calls[idx]
	c.OutLen = len(out)
	if err != nil {
		c.Err = err.Error()
	}
	if c.Op == "Encrypt" && err == nil && len(out) >= 12 {
		c.Nonce = hex.EncodeToString(out[len(out)-12:])
	}
}

// Len returns the number of calls so far.
func (a *SpyAEAD) Len() int { a.mu.Lock(); defer a.mu.Unlock(); return len(a.Calls) }

// Since returns a copy of the calls from index i on.
func (a *SpyAEAD) Since(i int) []AEADCall {
	a.mu.Lock()
	defer a.mu.Unlock()
	return append([]AEADCall(nil), a.Calls[i:]...)
}

// RetainedSince returns retained plaintexts of calls with index >= i.
func (a *SpyAEAD) RetainedSince(i int) []*Retained {
	a.mu.Lock()
	defer a.mu.Unlock()
	var res []*Retained
	for _, r := range a.Retained {
		if r.Seq >= i {
			res = append(res, r)
		}
	}
	return res
}

// AllZero reports whether b contains only zero bytes.
func AllZero(b []byte) bool {
	for _, x := range b {
		if x != 0 {
			return false
		}
	}
	return true
}

// SameBacking reports whether two slices share their first element's address.
func SameBacking(a, b []byte) bool {
	if cap(a) == 0 || cap(b) == 0 {
		return false
	}
	return &a[:1][0] == &b[:1][0]
}

// ContainsAnyEncoding reports whether needle occurs in hay raw, base64 (std, any alignment is not attempted) or hex.
func ContainsAnyEncoding(hay, needle []byte) string {
	if len(needle) == 0 {
		return ""
	}
	if bytes.Contains(hay, needle) {
		return "raw"
	}
	if bytes.Contains(hay, []byte(hex.EncodeToString(needle))) {
		return "hex"
	}
	for _, enc := range b64Variants(needle) {
		if bytes.Contains(hay, enc) {
			return "base64"
		}
	}
	return ""
}

var _ = fmt.Sprintf

// RetainedAll returns the plaintexts DecryptKey has handed out so far.
func (k *SpyKMS) RetainedAll() []*Retained {
	k.mu.Lock()
	defer k.mu.Unlock()
	return append([]*Retained(nil), k.Retained...)
}
