package kit

import (
	"sort"
	"strings"
	"sync"
	"sync/atomic"
	"time"

	"pgregory.net/rapid"
	"verifhook"
)

// PlanEntry pauses the goroutine that makes the Hit-th (0-based) visit of a yield site.
type PlanEntry struct {
	Site  string
	Hit   int
	Pause time.Duration
}

// Sched is the delay-plan engine over the statement-level yield points injected by
// the overlay: preemption-bounded schedule sampling. Full control of the Go
// scheduler is not available, so the harness owns the part that matters: where a
// goroutine is held back while the others run.
type Sched struct {
	counters sync.Map // site -> *atomic.Int64
	plan     map[string]map[int]time.Duration
	fired    atomic.Int64
	record   bool
	filter   func(site string) bool
}

// NewSched creates an engine with the given plan. filter (optional) limits which
// sites are counted at all.
func NewSched(plan []PlanEntry, filter func(string) bool) *Sched {
	s := &Sched{plan: map[string]map[int]time.Duration{}, filter: filter}
	for _, e := range plan {
		if s.plan[e.Site] == nil {
			s.plan[e.Site] = map[int]time.Duration{}
		}
		s.plan[e.Site][e.Hit] = e.Pause
	}
	return s
}

func (s *Sched) handle(site string) {
	if s.filter != nil && !s.filter(site) {
		return
	}
	v, ok := s.counters.Load(site)
	if !ok {
		v, _ = s.counters.LoadOrStore(site, new(atomic.Int64))
	}
	n := int(v.(*atomic.Int64).Add(1)) - 1
	if m := s.plan[site]; m != nil {
		if d, ok := m[n]; ok {
			s.fired.Add(1)
			time.Sleep(d)
		}
	}
}

// Install makes this engine the yield handler.
func (s *Sched) Install() { verifhook.InstallYield(s.handle) }

// Remove uninstalls the yield handler.
func (s *Sched) Remove() { verifhook.InstallYield(nil) }

// Fired returns how many planned pauses were reached.
func (s *Sched) Fired() int { return int(s.fired.Load()) }

// Sites returns the sites visited so far with their hit counts, sorted.
func (s *Sched) Sites() ([]string, map[string]int) {
	hits := map[string]int{}
	var names []string
	s.counters.Range(func(k, v any) bool {
		names = append(names, k.(string))
		hits[k.(string)] = int(v.(*atomic.Int64).Load())
		return true
	})
	sort.Strings(names)
	return names, hits
}

// SiteFilter returns a filter accepting sites whose file path contains one of the fragments.
func SiteFilter(fragments ...string) func(string) bool {
	return func(site string) bool {
		for _, f := range fragments {
			if strings.Contains(site, f) {
				return true
			}
		}
		return false
	}
}

// DrawPlan draws a plan of 1..max pauses over the profiled sites (only reachable sites are drawn).
func DrawPlan(t *rapid.T, sites []string, hits map[string]int, max int, pauses []time.Duration) []PlanEntry {
	if len(sites) == 0 {
		return nil
	}
	n := rapid.IntRange(1, max).Draw(t, "pauses")
	var plan []PlanEntry
	for i := 0; i < n; i++ {
		site := rapid.SampledFrom(sites).Draw(t, "site")
		h := hits[site]
		if h < 1 {
			h = 1
		}
		if h > 12 {
			h = 12
		}
		plan = append(plan, PlanEntry{Site: site, Hit: rapid.IntRange(0, h-1).Draw(t, "hit"), Pause: rapid.SampledFrom(pauses).Draw(t, "pause")})
	}
	return plan
}
