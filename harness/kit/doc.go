// Package kit holds the shared spies, models and the reference implementation.
package kit
