package kit

import (
	"crypto/rand"
	"encoding/base64"
	"errors"
	"fmt"
	"io"
	"sort"
	"sync"

	"github.com/godaddy/asherah/go/securememory"
)

// b64Variants returns the standard-base64 encodings of needle at the three
// possible alignments inside a longer encoded string, with the characters that
// depend on neighbouring bytes removed.
func b64Variants(needle []byte) [][]byte {
	var res [][]byte
	for off := 0; off < 3; off++ {
		padded := append(make([]byte, off), needle...)
		enc := base64.StdEncoding.EncodeToString(padded)
		// characters fully determined by needle: skip those touched by the padding in front
		start := (off*8 + 5) / 6
		// and those touched by what follows (or '=' padding)
		total := (len(padded) * 8) / 6 // fully determined sextets
		if start >= total || total-start < 8 {
			continue
		}
		res = append(res, []byte(enc[start:total]))
	}
	return res
}

// SecretInfo is what the tracking factory knows about one secret.
type SecretInfo struct {
	ID              int
	Fp              string // content fingerprint
	Size            int
	Origin          string // "New" or "CreateRandom"
	Tag             string // value of Factory.Tag when created (operation attribution)
	Closed          int    // number of Close calls that found it open (should end at 1)
	CloseCalls      int
	Reads           int
	ReadsAfterClose int
	CreatedSeq      int
	ClosedSeq       int
}

// Tracker is a heap-backed securememory.SecretFactory that mirrors the real
// contract (copy-and-wipe on New, error after Close, Close waits for readers)
// and accounts for every secret.
type Tracker struct {
	mu             sync.Mutex
	secrets        []*trackedSecret
	live           map[int]*trackedSecret
	readAfterClose []*trackedSecret
	seq            int
	Tag            string
	// FailAt: the k-th creation call (0-based over New+CreateRandom) fails when FailAt[k] is set.
	FailAt                map[int]bool
	calls                 int
	failRel               map[int]func()
	failRelWiped          map[int]bool   // the planned creation failure consumes (wipes) its input first
	reads                 int            // WithBytes / WithBytesFunc calls so far
	failOpen, failRelease map[int]func() // by absolute read index
	fps                   map[string]bool
	fpScanned, srcScanned int
	// Inner, when set, delegates storage to a real factory (real wipe/alloc behaviour).
	Inner securememory.SecretFactory
	// SourceBufs retains the caller's slice given to New (to check it is wiped).
	SourceBufs []*Retained
}

type trackedSecret struct {
	t               *Tracker
	info            *SecretInfo
	mu              sync.Mutex
	cond            *sync.Cond
	bytes           []byte
	inner           securememory.Secret
	closing, closed bool
	readers         int
}

// NewTracker returns an empty tracking factory.
func NewTracker() *Tracker { return &Tracker{FailAt: map[int]bool{}, live: map[int]*trackedSecret{}} }

// ErrAlloc is returned by injected allocation failures.
var ErrAlloc = errors.New("verif: injected secret allocation failure")

func (t *Tracker) create(origin string, content []byte, inner securememory.Secret) *trackedSecret {
	t.mu.Lock()
	defer t.mu.Unlock()
	t.seq++
	info := &SecretInfo{ID: len(t.secrets), Fp: Fp(content), Size: len(content), Origin: origin, Tag: t.Tag, CreatedSeq: t.seq}
	s := &trackedSecret{t: t, info: info, inner: inner}
	if inner == nil {
		s.bytes = append([]byte(nil), content...)
	}
	s.cond = sync.NewCond(&s.mu)
	t.secrets = append(t.secrets, s)
	t.live[info.ID] = s
	return s
}

func (t *Tracker) failNow() (fail, wiped bool) {
	t.mu.Lock()
	k := t.calls
	t.calls++
	fire := t.failRel[k]
	fail = t.FailAt[k] || fire != nil
	wiped = t.failRelWiped[k]
	t.mu.Unlock()
	if fire != nil {
		fire()
	}
	return fail, wiped
}

// FailRelWiped is FailRel for a failure that strikes AFTER the factory copied and wiped its input
// (the real factories fail like this when protecting the new pages fails): New returns an error
// and the caller's buffer is already zero.
func (t *Tracker) FailRelWiped(rel int, onFire func()) {
	t.FailRel(rel, onFire)
	t.mu.Lock()
	defer t.mu.Unlock()
	if t.failRelWiped == nil {
		t.failRelWiped = map[int]bool{}
	}
	t.failRelWiped[t.calls+rel] = true
}

// FailRel makes the rel-th creation call from now on (0 = the next one) fail;
// onFire is called when that happens.
func (t *Tracker) FailRel(rel int, onFire func()) {
	t.mu.Lock()
	defer t.mu.Unlock()
	if t.failRel == nil {
		t.failRel = map[int]func(){}
	}
	t.failRel[t.calls+rel] = onFire
}

// ClearFail removes all planned relative failures.
func (t *Tracker) ClearFail() {
	t.mu.Lock()
	t.failRel, t.failOpen, t.failRelease, t.failRelWiped = nil, nil, nil, nil
	t.mu.Unlock()
}

// ErrProtect is returned by injected failures to make a secret readable / unreadable again.
var ErrProtect = errors.New("verif: injected failure changing the protection of secret memory")

// Reads returns the number of WithBytes / WithBytesFunc calls made so far on any secret.
func (t *Tracker) Reads() int { t.mu.Lock(); defer t.mu.Unlock(); return t.reads }

// FailOpenRel makes the rel-th read from now on fail BEFORE its action runs (the pages could not
// be made readable), as the real implementations do: an error, no callback.
func (t *Tracker) FailOpenRel(rel int, onFire func()) {
	t.mu.Lock()
	defer t.mu.Unlock()
	if t.failOpen == nil {
		t.failOpen = map[int]func(){}
	}
	t.failOpen[t.reads+rel] = onFire
}

// FailReleaseRel makes the rel-th read from now on fail AFTER its action ran (the pages could not
// be made inaccessible again): like the real implementations, WithBytesFunc then returns the
// action's result TOGETHER with an error.
func (t *Tracker) FailReleaseRel(rel int, onFire func()) {
	t.mu.Lock()
	defer t.mu.Unlock()
	if t.failRelease == nil {
		t.failRelease = map[int]func(){}
	}
	t.failRelease[t.reads+rel] = onFire
}

// nextRead numbers a read and returns the planned failures for it.
func (t *Tracker) nextRead() (open, release func()) {
	t.mu.Lock()
	defer t.mu.Unlock()
	k := t.reads
	t.reads++
	return t.failOpen[k], t.failRelease[k]
}

// New implements SecretFactory: copies b, wipes b.
func (t *Tracker) New(b []byte) (securememory.Secret, error) {
	t.mu.Lock()
	t.SourceBufs = append(t.SourceBufs, &Retained{Buf: b, Origin: "SecretFactory.New(source)", KeyFp: Fp(b)})
	t.mu.Unlock()
	if fail, wiped := t.failNow(); fail {
		// like the real factories: an allocation failure leaves the source as is, a failure to protect
		// the new pages strikes after the source was copied and wiped
		if wiped {
			for i := range b {
				b[i] = 0
			}
		}
		return nil, ErrAlloc
	}
	if t.Inner != nil {
		content := append([]byte(nil), b...)
		in, err := t.Inner.New(b)
		if err != nil {
			return nil, err
		}
		return t.create("New", content, in), nil
	}
	if len(b) < 1 {
		return nil, errors.New("invalid secret length")
	}
	s := t.create("New", b, nil)
	for i := range b {
		b[i] = 0
	}
	return s, nil
}

// CreateRandom implements SecretFactory.
func (t *Tracker) CreateRandom(size int) (securememory.Secret, error) {
	if fail, _ := t.failNow(); fail {
		return nil, ErrAlloc
	}
	if t.Inner != nil {
		in, err := t.Inner.CreateRandom(size)
		if err != nil {
			return nil, err
		}
		var content []byte
		_ = in.WithBytes(func(b []byte) error { content = append([]byte(nil), b...); return nil })
		return t.create("CreateRandom", content, in), nil
	}
	if size < 1 {
		return nil, errors.New("invalid secret length")
	}
	b := make([]byte, size)
	if _, err := rand.Read(b); err != nil {
		return nil, err
	}
	return t.create("CreateRandom", b, nil), nil
}

var errClosed = errors.New("secret has already been destroyed")

func (s *trackedSecret) access() error {
	s.mu.Lock()
	defer s.mu.Unlock()
	s.t.mu.Lock()
	if s.closing || s.closed {
		s.info.ReadsAfterClose++
		s.t.readAfterClose = append(s.t.readAfterClose, s)
		s.t.mu.Unlock()
		return errClosed
	}
	s.info.Reads++
	s.t.mu.Unlock()
	s.readers++
	return nil
}

func (s *trackedSecret) release() {
	s.mu.Lock()
	s.readers--
	s.cond.Broadcast()
	s.mu.Unlock()
}

func (s *trackedSecret) WithBytes(action func([]byte) error) error {
	_, err := s.WithBytesFunc(func(b []byte) ([]byte, error) { return nil, action(b) })
	return err
}

func (s *trackedSecret) WithBytesFunc(action func([]byte) ([]byte, error)) (ret []byte, err error) {
	failOpen, failRelease := s.t.nextRead()
	if err := s.access(); err != nil {
		return nil, err
	}
	defer s.release()
	if failOpen != nil {
		failOpen()
		return nil, fmt.Errorf("unable to mark memory as read-only: %w", ErrProtect)
	}
	if s.inner != nil {
		ret, err = s.inner.WithBytesFunc(action)
	} else {
		ret, err = action(s.bytes)
	}
	if failRelease != nil {
		failRelease()
		// mirrors protectedmemory / memguard: the result is returned together with the error
		if err == nil {
			err = fmt.Errorf("unable to mark memory as no-access: %w", ErrProtect)
		} else {
			err = fmt.Errorf("%w: unable to mark memory as no-access", err)
		}
	}
	return ret, err
}

func (s *trackedSecret) IsClosed() bool {
	s.mu.Lock()
	defer s.mu.Unlock()
	return s.closed
}

func (s *trackedSecret) Close() error {
	s.mu.Lock()
	defer s.mu.Unlock()
	s.t.mu.Lock()
	s.info.CloseCalls++
	s.t.mu.Unlock()
	s.closing = true
	for {
		if s.closed {
			return nil
		}
		if s.readers == 0 {
			break
		}
		s.cond.Wait()
	}
	var err error
	if s.inner != nil {
		err = s.inner.Close()
	} else {
		for i := range s.bytes {
			s.bytes[i] = 0
		}
	}
	s.closed = true
	s.t.mu.Lock()
	s.info.Closed++
	delete(s.t.live, s.info.ID)
	s.t.seq++
	s.info.ClosedSeq = s.t.seq
	s.t.mu.Unlock()
	return err
}

type secretReader struct {
	s *trackedSecret
	i int
}

func (r *secretReader) Read(p []byte) (n int, err error) {
	err = r.s.WithBytes(func(b []byte) error {
		if r.i >= len(b) {
			return io.EOF
		}
		n = copy(p, b[r.i:])
		r.i += n
		if r.i >= len(b) {
			return io.EOF
		}
		return nil
	})
	return
}

func (s *trackedSecret) NewReader() io.Reader { return &secretReader{s: s} }

// Infos returns a copy of the accounting records.
func (t *Tracker) Infos() []SecretInfo {
	t.mu.Lock()
	defer t.mu.Unlock()
	res := make([]SecretInfo, len(t.secrets))
	for i, s := range t.secrets {
		res[i] = *s.info
	}
	return res
}

// Count returns the number of secrets ever created.
func (t *Tracker) Count() int { t.mu.Lock(); defer t.mu.Unlock(); return len(t.secrets) }

// Live returns the infos of secrets not yet closed (ordered by id).
func (t *Tracker) Live() []SecretInfo {
	t.mu.Lock()
	defer t.mu.Unlock()
	res := make([]SecretInfo, 0, len(t.live))
	for _, s := range t.live {
		res = append(res, *s.info)
	}
	sort.Slice(res, func(i, j int) bool { return res[i].ID < res[j].ID })
	return res
}

// LiveCount returns the number of live secrets.
func (t *Tracker) LiveCount() int { t.mu.Lock(); defer t.mu.Unlock(); return len(t.live) }

// InfosRange returns a copy of the accounting records with ids in [from, to).
func (t *Tracker) InfosRange(from, to int) []SecretInfo {
	t.mu.Lock()
	defer t.mu.Unlock()
	if to > len(t.secrets) {
		to = len(t.secrets)
	}
	res := make([]SecretInfo, 0, to-from)
	for _, s := range t.secrets[from:to] {
		res = append(res, *s.info)
	}
	return res
}

// ReadsAfterClose returns the infos of secrets that were accessed after Close.
func (t *Tracker) ReadsAfterClose() []SecretInfo {
	t.mu.Lock()
	defer t.mu.Unlock()
	var res []SecretInfo
	for _, s := range t.readAfterClose {
		res = append(res, *s.info)
	}
	return res
}

// SetTag sets the attribution tag for secrets created from now on.
func (t *Tracker) SetTag(tag string) { t.mu.Lock(); t.Tag = tag; t.mu.Unlock() }

func (i SecretInfo) String() string {
	return fmt.Sprintf("secret#%d{%s %dB fp=%s tag=%q closed=%d reads=%d readsAfterClose=%d}", i.ID, i.Origin, i.Size, i.Fp, i.Tag, i.Closed, i.Reads, i.ReadsAfterClose)
}

// HasFp reports whether a secret with this content fingerprint was ever created, or
// a buffer with this fingerprint was ever passed to New.
func (t *Tracker) HasFp(fp string) bool {
	t.mu.Lock()
	defer t.mu.Unlock()
	if t.fps == nil {
		t.fps = map[string]bool{}
	}
	for ; t.fpScanned < len(t.secrets); t.fpScanned++ {
		t.fps[t.secrets[t.fpScanned].info.Fp] = true
	}
	for ; t.srcScanned < len(t.SourceBufs); t.srcScanned++ {
		t.fps[t.SourceBufs[t.srcScanned].KeyFp] = true
	}
	return t.fps[fp]
}

// Sources returns the buffers passed to New so far.
func (t *Tracker) Sources() []*Retained {
	t.mu.Lock()
	defer t.mu.Unlock()
	return append([]*Retained(nil), t.SourceBufs...)
}
