package kit

import (
	"encoding/binary"
	"time"
)

// WobblyZone returns a time zone whose UTC offset alternates between 0 and +1 h every seven hours
// from shortly before the virtual epoch for about thirteen years: wall-clock arithmetic and
// elapsed-time arithmetic disagree across almost any interval, as they do across a daylight saving
// transition. Nothing in the properties depends on the host's zone, so running a check in this one is sound.
func WobblyZone() *time.Location {
	const n = 17000
	const first = int64(1_699_000_000)
	const period = int64(7 * 3600)
	var b []byte
	b = append(b, 'T', 'Z', 'i', 'f', 0)
	b = append(b, make([]byte, 15)...)
	for _, c := range []uint32{0, 0, 0, n, 2, 8} { // isut, isstd, leap, time, type, char
		b = binary.BigEndian.AppendUint32(b, c)
	}
	for i := int64(0); i < n; i++ {
		b = binary.BigEndian.AppendUint32(b, uint32(int32(first+i*period)))
	}
	for i := 0; i < n; i++ {
		b = append(b, byte((i+1)%2)) // first transition switches to +1 h
	}
	b = binary.BigEndian.AppendUint32(b, 0)
	b = append(b, 0, 0) // type 0: +0, not dst, "WBA"
	b = binary.BigEndian.AppendUint32(b, 3600)
	b = append(b, 1, 4) // type 1: +1 h, dst, "WBB"
	b = append(b, 'W', 'B', 'A', 0, 'W', 'B', 'B', 0)
	loc, err := time.LoadLocationFromTZData("Verif/Wobbly", b)
	if err != nil {
		panic("verif: synthetic zone: " + err.Error())
	}
	return loc
}
