package kit

import (
	"bytes"
	"encoding/binary"
	"encoding/hex"
	"strconv"
)

// Scanner finds any of many registered secrets (raw, hex, or standard base64 at
// any alignment) in a haystack in one pass.
type Scanner struct {
	first [65536]bool
	pre4  []bool // second-level filter on the first four bytes (2^22 slots)
	byPre map[uint64][]scanPat
	n     int
	seen  map[string]bool
}

type scanPat struct {
	pat   []byte
	label string
	enc   string
}

// NewScanner returns an empty scanner.
func NewScanner() *Scanner {
	return &Scanner{byPre: map[uint64][]scanPat{}, seen: map[string]bool{}, pre4: make([]bool, 1<<22)}
}

func slot4(b []byte) uint32 { return (binary.LittleEndian.Uint32(b) * 2654435761) >> 10 }

// Add registers a secret (at least 12 bytes) under a label; duplicates are ignored.
func (s *Scanner) Add(secret []byte, label string) {
	if len(secret) < 12 || s.seen[string(secret)] {
		return
	}
	s.seen[string(secret)] = true
	s.n++
	s.addPat(append([]byte(nil), secret...), label, "raw")
	s.addPat([]byte(hex.EncodeToString(secret)), label, "hex")
	s.addPat(bytes.ToUpper([]byte(hex.EncodeToString(secret))), label, "HEX")
	for _, v := range b64Variants(secret) {
		s.addPat(v, label, "base64")
	}
	// fmt's %v / %d of a byte slice: decimal numbers separated by single blanks
	var dec []byte
	for i, b := range secret {
		if i > 0 {
			dec = append(dec, ' ')
		}
		dec = strconv.AppendInt(dec, int64(b), 10)
	}
	s.addPat(dec, label, "decimal list")
}

func (s *Scanner) addPat(p []byte, label, enc string) {
	if len(p) < 8 {
		return
	}
	s.first[binary.LittleEndian.Uint16(p)] = true
	s.pre4[slot4(p)] = true
	k := binary.LittleEndian.Uint64(p)
	s.byPre[k] = append(s.byPre[k], scanPat{p, label, enc})
}

// Len returns the number of registered secrets.
func (s *Scanner) Len() int { return s.n }

// Find returns (label, encoding) of the first registered secret found in hay, or "", "".
func (s *Scanner) Find(hay []byte) (string, string) {
	for i := 0; i+8 <= len(hay); i++ {
		if !s.first[binary.LittleEndian.Uint16(hay[i:])] || !s.pre4[slot4(hay[i:])] {
			continue
		}
		ps, ok := s.byPre[binary.LittleEndian.Uint64(hay[i:])]
		if !ok {
			continue
		}
		for _, p := range ps {
			if bytes.HasPrefix(hay[i:], p.pat) {
				return p.label, p.enc
			}
		}
	}
	return "", ""
}
