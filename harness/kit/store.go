package kit

import (
	"context"
	"encoding/json"
	"errors"
	"fmt"
	"sort"
	"sync"

	"github.com/godaddy/asherah/go/appencryption"
	"verifhook"
)

// FaultKind is what an injected fault does to one external call.
type FaultKind int

const (
	NoFault       FaultKind = iota
	FaultError              // error before any effect
	FaultDup                // Store only: report (false, nil) without writing
	FaultAfter              // Store only: write, then report an error
	FaultDupError           // Store only: report (false, err) without writing
	FaultSlow               // the call succeeds, but time passes while it runs (CallLog.OnSlow advances the clock)
	FaultCancel             // the call succeeds, but the caller's context is cancelled while it runs (CallLog.OnCancel)
)

func (k FaultKind) String() string {
	return [...]string{"none", "error", "false-duplicate", "error-after-write", "false+error", "slow", "ctx-cancelled"}[k]
}

// Call is one entry of the external-call log shared by the spy store and KMS.
type Call struct {
	Seq     int
	Target  string // "store" or "kms"
	Op      string // Load, LoadLatest, Store, EncryptKey, DecryptKey
	ID      string
	Created int64
	At      int64 // virtual unix nanos
	Actor   string
	Fault   FaultKind
	OK      bool  // Store: true if inserted; Load*: true if found; KMS: true if no error
	Found   int64 // Load*: created of the row returned
	Err     string
}

func (c Call) String() string {
	s := fmt.Sprintf("%s.%s(%s,%d)", c.Target, c.Op, c.ID, c.Created)
	if c.Fault != NoFault {
		s += "!" + c.Fault.String()
	}
	return s
}

// CallLog is an append-only log with a fault plan addressed by call index.
type CallLog struct {
	mu    sync.Mutex
	Calls []Call
	// Plan decides the fault for the call about to be made (nil = none). It is
	// given the index the call will have in Calls.
	Plan func(idx int, c *Call) FaultKind
	// OnSlow / OnCancel implement the two non-failing "faults".
	OnSlow   func()
	OnCancel func()
}

func (l *CallLog) begin(c Call) (int, FaultKind) {
	l.mu.Lock()
	defer l.mu.Unlock()
	c.Seq = len(l.Calls)
	c.At = verifhook.Now().UnixNano()
	if l.Plan != nil {
		c.Fault = l.Plan(c.Seq, &c)
	}
	l.Calls = append(l.Calls, c)
	f := c.Fault
	switch f {
	case FaultSlow:
		if l.OnSlow != nil {
			l.OnSlow()
		}
		f = NoFault
	case FaultCancel:
		if l.OnCancel != nil {
			l.OnCancel()
		}
		f = NoFault
	}
	return c.Seq, f
}

func (l *CallLog) end(idx int, ok bool, found int64, err error) {
	l.mu.Lock()
	defer l.mu.Unlock()
	l.Calls[idx].OK = ok
	l.Calls[idx].Found = found
	if err != nil {
		l.Calls[idx].Err = err.Error()
	}
}

// Len returns the number of calls logged so far.
func (l *CallLog) Len() int { l.mu.Lock(); defer l.mu.Unlock(); return len(l.Calls) }

// Since returns a copy of the calls from index i on.
func (l *CallLog) Since(i int) []Call {
	l.mu.Lock()
	defer l.mu.Unlock()
	return append([]Call(nil), l.Calls[i:]...)
}

// ErrInjected is the error returned by injected faults.
var ErrInjected = errors.New("verif: injected fault")

// Row is one stored key record.
type Row struct {
	ID        string
	Created   int64
	Rec       *appencryption.EnvelopeKeyRecord // the pointer handed to readers (as MemoryMetastore does)
	Snapshot  string                           // canonical JSON of the record when inserted / last changed out of band
	Seq       int                              // insertion order
	At        int64                            // virtual time of insertion
	By        string                           // actor that inserted it
	RevokedAt int64                            // virtual unix nanos of out-of-band revocation, 0 if never
}

// Store is the harness-owned insert-only key table.
type Store struct {
	mu     sync.Mutex
	rows   map[string]map[int64]*Row
	order  []*Row
	Log    *CallLog
	Suffix string // GetRegionSuffix
	// SuffixFor overrides Suffix for single actors (processes of one deployment that run in different regions
	// and share a global table)
	SuffixFor map[string]string
	Actor     string // label attached to logged calls (see As)
	// Gate, when set, is called before every call takes effect (schedule control).
	Gate func(actor, op string)
	// Backing, when set, is a real Metastore implementation (over a semantic fake of its
	// database) that holds the rows: Load / LoadLatest / Store are delegated to it after gate,
	// logging and fault injection. The rows kept here then are a SHADOW (deep copies taken when
	// the insert was acknowledged) used to detect overwritten / modified / lost rows.
	Backing StoreBacking
	// Overwritten lists acknowledged Stores of an (id, created) that was already stored.
	Overwritten []string
}

// StoreBacking is a real metastore plus raw access to its database.
type StoreBacking interface {
	Metastore() appencryption.Metastore
	// RawRows parses what the database holds, independently of the metastore's own Load.
	RawRows() (RefSnapshot, error)
	// RevokeRow flags a row revoked the way an operator would (an UPDATE on the database).
	RevokeRow(id string, created int64) error
}

func cloneEKR(e *appencryption.EnvelopeKeyRecord) *appencryption.EnvelopeKeyRecord {
	cp := *e
	cp.EncryptedKey = append([]byte(nil), e.EncryptedKey...)
	if e.ParentKeyMeta != nil {
		pm := *e.ParentKeyMeta
		cp.ParentKeyMeta = &pm
	}
	return &cp
}

// NewStore returns an empty store logging into log.
func NewStore(log *CallLog) *Store {
	return &Store{rows: map[string]map[int64]*Row{}, Log: log}
}

// GetRegionSuffix makes the SDK use suffixed partitions when Suffix is non-empty.
func (s *Store) GetRegionSuffix() string { return s.Suffix }

// actorStore attributes calls to one actor (a "process").
type actorStore struct {
	s     *Store
	actor string
}

func (a actorStore) Load(ctx context.Context, id string, created int64) (*appencryption.EnvelopeKeyRecord, error) {
	return a.s.load(ctx, a.actor, id, created)
}
func (a actorStore) LoadLatest(ctx context.Context, id string) (*appencryption.EnvelopeKeyRecord, error) {
	return a.s.loadLatest(ctx, a.actor, id)
}
func (a actorStore) Store(ctx context.Context, id string, created int64, e *appencryption.EnvelopeKeyRecord) (bool, error) {
	return a.s.store(ctx, a.actor, id, created, e)
}
func (a actorStore) GetRegionSuffix() string {
	if sfx, ok := a.s.SuffixFor[a.actor]; ok {
		return sfx
	}
	return a.s.Suffix
}

// For returns a Metastore whose calls are attributed to actor.
func (s *Store) For(actor string) appencryption.Metastore { return actorStore{s, actor} }

// Load implements Metastore.
func (s *Store) Load(ctx context.Context, id string, created int64) (*appencryption.EnvelopeKeyRecord, error) {
	return s.load(ctx, s.Actor, id, created)
}

// LoadLatest implements Metastore.
func (s *Store) LoadLatest(ctx context.Context, id string) (*appencryption.EnvelopeKeyRecord, error) {
	return s.loadLatest(ctx, s.Actor, id)
}

// Store implements Metastore.
func (s *Store) Store(ctx context.Context, id string, created int64, e *appencryption.EnvelopeKeyRecord) (bool, error) {
	return s.store(ctx, s.Actor, id, created, e)
}

func (s *Store) load(ctx context.Context, actor, id string, created int64) (*appencryption.EnvelopeKeyRecord, error) {
	if s.Gate != nil {
		s.Gate(actor, "Load")
	}
	idx, f := s.Log.begin(Call{Target: "store", Op: "Load", ID: id, Created: created, Actor: actor})
	if f == FaultError {
		s.Log.end(idx, false, 0, ErrInjected)
		return nil, ErrInjected
	}
	if s.Backing != nil {
		rec, err := s.Backing.Metastore().Load(ctx, id, created)
		if rec == nil || err != nil {
			s.Log.end(idx, false, 0, err)
			return rec, err
		}
		s.Log.end(idx, true, rec.Created, nil)
		return rec, nil
	}
	s.mu.Lock()
	r := s.rows[id][created]
	s.mu.Unlock()
	if r == nil {
		s.Log.end(idx, false, 0, nil)
		return nil, nil
	}
	s.Log.end(idx, true, r.Created, nil)
	return r.Rec, nil
}

func (s *Store) loadLatest(ctx context.Context, actor, id string) (*appencryption.EnvelopeKeyRecord, error) {
	if s.Gate != nil {
		s.Gate(actor, "LoadLatest")
	}
	idx, f := s.Log.begin(Call{Target: "store", Op: "LoadLatest", ID: id, Actor: actor})
	if f == FaultError {
		s.Log.end(idx, false, 0, ErrInjected)
		return nil, ErrInjected
	}
	if s.Backing != nil {
		rec, err := s.Backing.Metastore().LoadLatest(ctx, id)
		if rec == nil || err != nil {
			s.Log.end(idx, false, 0, err)
			return rec, err
		}
		s.Log.end(idx, true, rec.Created, nil)
		return rec, nil
	}
	s.mu.Lock()
	r := s.latestLocked(id)
	s.mu.Unlock()
	if r == nil {
		s.Log.end(idx, false, 0, nil)
		return nil, nil
	}
	s.Log.end(idx, true, r.Created, nil)
	return r.Rec, nil
}

func (s *Store) latestLocked(id string) *Row {
	var best *Row
	for _, r := range s.rows[id] {
		if best == nil || r.Created > best.Created {
			best = r
		}
	}
	return best
}

func (s *Store) store(ctx context.Context, actor, id string, created int64, e *appencryption.EnvelopeKeyRecord) (bool, error) {
	if s.Gate != nil {
		s.Gate(actor, "Store")
	}
	idx, f := s.Log.begin(Call{Target: "store", Op: "Store", ID: id, Created: created, Actor: actor})
	switch f {
	case FaultError, FaultDupError:
		s.Log.end(idx, false, 0, ErrInjected)
		return false, ErrInjected
	case FaultDup:
		s.Log.end(idx, false, 0, nil)
		return false, nil
	}
	if s.Backing != nil {
		shadow := cloneEKR(e)
		ok, err := s.Backing.Metastore().Store(ctx, id, created, e)
		if ok {
			s.mu.Lock()
			if _, exists := s.rows[id][created]; exists {
				s.Overwritten = append(s.Overwritten, fmt.Sprintf("(%s,%d) by %s", id, created, actor))
			} else {
				s.insertLocked(actor, id, created, shadow)
			}
			s.mu.Unlock()
		}
		if f == FaultAfter {
			s.Log.end(idx, ok, 0, ErrInjected)
			return false, ErrInjected
		}
		s.Log.end(idx, ok, 0, err)
		return ok, err
	}
	s.mu.Lock()
	_, exists := s.rows[id][created]
	if !exists {
		s.insertLocked(actor, id, created, e)
	}
	s.mu.Unlock()
	if f == FaultAfter {
		s.Log.end(idx, !exists, 0, ErrInjected)
		return false, ErrInjected
	}
	s.Log.end(idx, !exists, 0, nil)
	return !exists, nil
}

func (s *Store) insertLocked(actor, id string, created int64, e *appencryption.EnvelopeKeyRecord) *Row {
	if s.rows[id] == nil {
		s.rows[id] = map[int64]*Row{}
	}
	r := &Row{ID: id, Created: created, Rec: e, Snapshot: SnapshotEKR(e), Seq: len(s.order), At: verifhook.Now().UnixNano(), By: actor}
	s.rows[id][created] = r
	s.order = append(s.order, r)
	return r
}

// Insert adds a row out of band (written by "another process"); false if present.
func (s *Store) Insert(actor, id string, created int64, e *appencryption.EnvelopeKeyRecord) bool {
	s.mu.Lock()
	defer s.mu.Unlock()
	if _, ok := s.rows[id][created]; ok {
		return false
	}
	if s.Backing != nil {
		shadow := cloneEKR(e)
		if ok, _ := s.Backing.Metastore().Store(context.Background(), id, created, e); !ok {
			return false
		}
		e = shadow
	}
	s.insertLocked(actor, id, created, e)
	return true
}

// Revoke flags a row revoked out of band, copy-on-write (readers that already
// hold the old pointer are unaffected, as with a real database).
func (s *Store) Revoke(id string, created int64) bool {
	s.mu.Lock()
	defer s.mu.Unlock()
	r := s.rows[id][created]
	if r == nil || r.Rec.Revoked {
		return false
	}
	cp := *r.Rec
	if r.Rec.ParentKeyMeta != nil {
		pm := *r.Rec.ParentKeyMeta
		cp.ParentKeyMeta = &pm
	}
	cp.EncryptedKey = append([]byte(nil), r.Rec.EncryptedKey...)
	cp.Revoked = true
	if s.Backing != nil {
		if err := s.Backing.RevokeRow(id, created); err != nil {
			panic("verif harness: out-of-band revocation failed: " + err.Error())
		}
	}
	r.Rec = &cp
	r.Snapshot = SnapshotEKR(&cp)
	r.RevokedAt = verifhook.Now().UnixNano()
	return true
}

// Corrupt flips one bit of a stored row's encrypted key out of band (copy-on-write): the row
// can still be loaded but no longer unwraps.
func (s *Store) Corrupt(id string, created int64) bool {
	s.mu.Lock()
	defer s.mu.Unlock()
	r := s.rows[id][created]
	if r == nil || s.Backing != nil {
		return false
	}
	cp := *cloneEKR(r.Rec)
	cp.EncryptedKey[len(cp.EncryptedKey)/2] ^= 0x10
	r.Rec = &cp
	r.Snapshot = SnapshotEKR(&cp)
	return true
}

// Get returns the row (or nil) without logging.
func (s *Store) Get(id string, created int64) *Row {
	s.mu.Lock()
	defer s.mu.Unlock()
	return s.rows[id][created]
}

// Latest returns the latest row for id (or nil) without logging.
func (s *Store) Latest(id string) *Row {
	s.mu.Lock()
	defer s.mu.Unlock()
	return s.latestLocked(id)
}

// Rows returns all rows in insertion order.
func (s *Store) Rows() []*Row {
	s.mu.Lock()
	defer s.mu.Unlock()
	return append([]*Row(nil), s.order...)
}

// RowsFor returns the rows of one id sorted by created.
func (s *Store) RowsFor(id string) []*Row {
	s.mu.Lock()
	defer s.mu.Unlock()
	var res []*Row
	for _, r := range s.rows[id] {
		res = append(res, r)
	}
	sort.Slice(res, func(i, j int) bool { return res[i].Created < res[j].Created })
	return res
}

// IDs returns the sorted key ids present.
func (s *Store) IDs() []string {
	s.mu.Lock()
	defer s.mu.Unlock()
	var ids []string
	for id := range s.rows {
		ids = append(ids, id)
	}
	sort.Strings(ids)
	return ids
}

// CheckImmutable verifies that no row differs from its snapshot (the SDK must
// never modify a stored record in place). It returns a description or "".
func (s *Store) CheckImmutable() string {
	s.mu.Lock()
	defer s.mu.Unlock()
	if len(s.Overwritten) > 0 {
		return fmt.Sprintf("the metastore acknowledged a Store of %s although that (id, created) was already stored: the existing record was replaced", s.Overwritten[0])
	}
	if s.Backing != nil {
		raw, err := s.Backing.RawRows()
		if err != nil {
			return "the rows in the database are not in the documented shape: " + err.Error()
		}
		for _, r := range s.order {
			cur, ok := raw[RefRowKey{ID: r.ID, Created: r.Created}]
			if !ok {
				return fmt.Sprintf("row (%s,%d) was removed from the database", r.ID, r.Created)
			}
			want := RefEKR{Created: r.Rec.Created, Key: r.Rec.EncryptedKey, Revoked: r.Rec.Revoked}
			if r.Rec.ParentKeyMeta != nil {
				want.Parent = &RefKeyMeta{KeyID: r.Rec.ParentKeyMeta.ID, Created: r.Rec.ParentKeyMeta.Created}
			}
			if cur.Created != want.Created || string(cur.Key) != string(want.Key) || cur.Revoked != want.Revoked || (cur.Parent == nil) != (want.Parent == nil) || (cur.Parent != nil && *cur.Parent != *want.Parent) {
				return fmt.Sprintf("row (%s,%d) in the database differs from the record whose insert was acknowledged: was %s", r.ID, r.Created, r.Snapshot)
			}
		}
		return ""
	}
	for _, r := range s.order {
		if cur := s.rows[r.ID][r.Created]; cur != r {
			return fmt.Sprintf("row (%s,%d) was replaced or removed", r.ID, r.Created)
		}
		if got := SnapshotEKR(r.Rec); got != r.Snapshot {
			return fmt.Sprintf("row (%s,%d) modified in place: was %s now %s", r.ID, r.Created, r.Snapshot, got)
		}
	}
	return ""
}

// SnapshotEKR is a canonical rendering of a key record including the id.
func SnapshotEKR(e *appencryption.EnvelopeKeyRecord) string {
	if e == nil {
		return "null"
	}
	type pm struct {
		ID      string
		Created int64
	}
	type snap struct {
		ID      string
		Created int64
		Key     []byte
		Revoked bool
		Parent  *pm
	}
	sn := snap{ID: e.ID, Created: e.Created, Key: e.EncryptedKey, Revoked: e.Revoked}
	if e.ParentKeyMeta != nil {
		sn.Parent = &pm{e.ParentKeyMeta.ID, e.ParentKeyMeta.Created}
	}
	b, _ := json.Marshal(sn)
	return string(b)
}

// CopyRows returns deep copies of all stored records, in insertion order.
func (s *Store) CopyRows() []*appencryption.EnvelopeKeyRecord {
	s.mu.Lock()
	defer s.mu.Unlock()
	var res []*appencryption.EnvelopeKeyRecord
	for _, r := range s.order {
		cp := *r.Rec
		cp.ID = r.ID
		cp.EncryptedKey = append([]byte(nil), r.Rec.EncryptedKey...)
		if r.Rec.ParentKeyMeta != nil {
			pm := *r.Rec.ParentKeyMeta
			cp.ParentKeyMeta = &pm
		}
		res = append(res, &cp)
	}
	return res
}

// RefSnapshot returns the key table as the reference implementation sees it: the raw database
// rows when a real metastore backs the store, the harness rows otherwise.
func (s *Store) RefSnapshot() (RefSnapshot, error) {
	if s.Backing != nil {
		return s.Backing.RawRows()
	}
	snap := RefSnapshot{}
	for _, r := range s.Rows() {
		e := RefEKR{Created: r.Rec.Created, Key: append([]byte(nil), r.Rec.EncryptedKey...), Revoked: r.Rec.Revoked}
		if r.Rec.ParentKeyMeta != nil {
			e.Parent = &RefKeyMeta{KeyID: r.Rec.ParentKeyMeta.ID, Created: r.Rec.ParentKeyMeta.Created}
		}
		snap[RefRowKey{ID: r.ID, Created: r.Created}] = e
	}
	return snap, nil
}
