package c01

import "context"

var ctxBg = context.Background()
