// Package c01: anything encrypted decrypts back, across time, rotation, caches and processes.
package c01

import (
	"bytes"
	"encoding/json"
	"fmt"
	"sort"
	"strings"
	"sync"
	"testing"
	"time"

	"github.com/godaddy/asherah/go/appencryption"
	"github.com/godaddy/asherah/go/securememory"
	"pgregory.net/rapid"
	"verif/backing"
	"verif/kit"
	"verif/world"
)

func TestMain(m *testing.M) {
	kit.Main(m, "C01", "exploration",
		"rapid state machine over the real SDK (1-3 factories (with a region-suffixing metastore possibly in different regions over one global key table) with drawn policies sharing one store+KMS, virtual clock): "+
			"encrypt/store, decrypt/load, open/close, restart, clock advance past interval/expiry, out-of-band revoke, rotation by a reference writer, eviction pressure. "+
			"One evaluation = one history. Non-trivial = the history contains a decrypt of a record whose IK/SK was expired, rotated, revoked, whose writer restarted, or that is read by another process; "+
			"distinct = distinct sets of (decrypt-condition flags, cache class) occurring in a history",
		"virtual clock and idle yield hooks injected by build overlay", "reference decryptor written from the docs is correct", "schedules: sequential histories only (concurrency is C08/C16)")
}

var weights = map[string]int{"encrypt": 6, "decrypt": 8, "open": 1, "close": 2, "restart": 1, "advance": 4, "revoke": 2, "rotate": 1, "pressure": 1}

func TestWorld(t *testing.T) {
	kit.Steps(kit.Pick(40, 60))
	kit.Check(t, 1500, 48000, func(t *rapid.T) { runHistory(t, false) })
}

// TestWorldReal uses the real memguard factory behind the tracker.
func TestWorldReal(t *testing.T) {
	kit.Steps(30)
	kit.Check(t, 100, 3200, func(t *rapid.T) { runHistory(t, true) })
}

func runHistory(t *rapid.T, real bool) {
	opts := world.Options{RealSecrets: real, NoRetainAEAD: true, PerProcRegion: true}
	// a third of the histories run over a real Metastore implementation (over its fake database)
	defer backing.Use(t, &opts, 33)()
	w := world.New(t, opts)
	defer w.Teardown()
	shapes := map[string]bool{}
	w.OnOp = func(ev *world.Event) { monitor(t, w, ev, shapes) }
	t.Repeat(kit.Weighted(w.Actions(), weights, nil))
	epilogue(t, w)
	final(t, w)
	var ss []string
	for s := range shapes {
		ss = append(ss, s)
	}
	sort.Strings(ss)
	kit.Rec.Case(strings.Join(ss, ";"), len(ss) > 0, func() any {
		return map[string]any{"procs": procDesc(w), "history": w.History(), "nontrivial_decrypts": ss}
	})
	for k, v := range w.Labels {
		kit.Rec.LabelN("op:"+k, int64(v))
	}
}

func procDesc(w *world.World) []string {
	var r []string
	for _, p := range w.Procs {
		r = append(r, p.Name+": "+world.PolicyString(p.Policy))
	}
	return r
}

func fail(t *rapid.T, w *world.World, format string, args ...any) {
	msg := fmt.Sprintf(format, args...)
	kit.Rec.Violation(msg)
	t.Fatalf("C01 violated: %s\n%s", msg, w.Describe())
}

func monitor(t *rapid.T, w *world.World, ev *world.Event, shapes map[string]bool) {
	if ev.Changed != "" {
		// the caller holds the returned object and may persist it any time later: what it decrypts to must not drift
		fail(t, w, "a record object returned by an earlier encrypt was changed during %s: %s", ev.Kind, ev.Changed)
	}
	switch ev.Kind {
	case "open", "close":
		if ev.Err != nil {
			fail(t, w, "%s returned an error in a fault-free history: %v", ev.Kind, ev.Err)
		}
	case "encrypt":
		if ev.Err != nil {
			fail(t, w, "encrypt returned an error in a fault-free history: %v", ev.Err)
		}
		if ev.Rec == nil {
			fail(t, w, "encrypt returned neither record nor error")
		}
		if ev.Detail == "PAYLOAD-MODIFIED" {
			fail(t, w, "encrypt modified the caller's payload slice")
		}
	case "decrypt":
		if ev.Err != nil {
			fail(t, w, "decrypt of rec%d (written by %s at +%.1fs) failed: %v", ev.Rec.ID, ev.Rec.Proc, float64(ev.Rec.BornAt-w.Start.UnixNano())/1e9, ev.Err)
		}
		if !bytes.Equal(ev.Out, ev.Rec.Payload) {
			fail(t, w, "decrypt of rec%d returned %d bytes that differ from the %d-byte payload", ev.Rec.ID, len(ev.Out), len(ev.Rec.Payload))
		}
		if ev.Detail == "RECORD-MODIFIED" {
			fail(t, w, "decrypt modified the caller's record")
		}
		if f := decryptFlags(w, ev); f != "" {
			kit.Rec.Label("decrypt:nontrivial")
			for _, x := range strings.Split(f, ",") {
				kit.Rec.Label("decrypt:" + x)
			}
			shapes[f+"|"+world.CacheClass(ev.Proc.Policy)] = true
		} else {
			kit.Rec.Label("decrypt:plain")
		}
	}
}

// decryptFlags classifies what happened to the record's keys since it was written.
func decryptFlags(w *world.World, ev *world.Event) string {
	rec := ev.Rec
	var f []string
	pol := ev.Proc.Policy
	now := time.Unix(0, ev.At)
	ik := w.Store.Get(rec.IKID, rec.IKCreated)
	if ik != nil {
		if now.After(time.Unix(ik.Created, 0).Add(pol.ExpireKeyAfter)) {
			f = append(f, "ik-expired")
		}
		if ik.Rec.Revoked {
			f = append(f, "ik-revoked")
		}
		if l := w.Store.Latest(rec.IKID); l != nil && l.Created > ik.Created {
			f = append(f, "ik-rotated")
		}
		if pm := ik.Rec.ParentKeyMeta; pm != nil {
			if sk := w.Store.Get(pm.ID, pm.Created); sk != nil {
				if now.After(time.Unix(sk.Created, 0).Add(pol.ExpireKeyAfter)) {
					f = append(f, "sk-expired")
				}
				if sk.Rec.Revoked {
					f = append(f, "sk-revoked")
				}
				if l := w.Store.Latest(pm.ID); l != nil && l.Created > sk.Created {
					f = append(f, "sk-rotated")
				}
			}
		}
	}
	if rec.Proc != ev.Proc.Name {
		f = append(f, "cross-proc")
	} else if ev.Proc.StartedAt > rec.BornAt {
		f = append(f, "after-restart")
	}
	return strings.Join(f, ",")
}

// final: every record ever produced decrypts in a brand-new factory and in the
// reference implementation working from a store snapshot.
func final(t *rapid.T, w *world.World) {
	if len(w.Recs) == 0 {
		return
	}
	snap := w.Snapshot()
	pol := appencryption.NewCryptoPolicy()
	f := appencryption.NewSessionFactory(&appencryption.Config{Service: w.Service, Product: w.Product, Policy: pol},
		w.Store.For("final"), w.KMS.For("final"), w.AEAD, appencryption.WithSecretFactory(securememory.SecretFactory(w.Secrets)))
	defer f.Close()
	sessions := map[string]*appencryption.Session{}
	defer func() {
		for _, s := range sessions {
			s.Close()
		}
	}()
	for _, rec := range w.Recs {
		s := sessions[rec.Partition]
		if s == nil {
			var err error
			s, err = f.GetSession(rec.Partition)
			if err != nil {
				fail(t, w, "final: GetSession(%q): %v", rec.Partition, err)
			}
			sessions[rec.Partition] = s
		}
		out, err := s.Decrypt(ctxBg, world.CloneDRR(rec.DRR))
		if err != nil {
			fail(t, w, "final: a brand-new factory cannot decrypt rec%d: %v", rec.ID, err)
		}
		if !bytes.Equal(out, rec.Payload) {
			fail(t, w, "final: a brand-new factory decrypts rec%d to different bytes", rec.ID)
		}
		out, err = w.RefDecryptRec(rec, snap)
		if err != nil {
			fail(t, w, "final: the reference decryptor cannot decrypt rec%d from the store snapshot: %v", rec.ID, err)
		}
		if !bytes.Equal(out, rec.Payload) {
			fail(t, w, "final: the reference decryptor decrypts rec%d to different bytes", rec.ID)
		}
	}
	if msg := w.Store.CheckImmutable(); msg != "" {
		fail(t, w, "store rows changed: %s", msg)
	}
}

// epilogue: a short concurrent round-trip burst on one factory (4 goroutines, each with
// its own sessions) touches the "schedules" part of the quantifier; systematic schedule
// search is the job of C08 / C16.
func epilogue(t *rapid.T, w *world.World) {
	p := w.Procs[rapid.IntRange(0, len(w.Procs)-1).Draw(t, "epilogueProc")]
	if p.Closed {
		return
	}
	var mu sync.Mutex
	var viol string
	var recs []*world.Rec
	var wg sync.WaitGroup
	for g := 0; g < 4; g++ {
		wg.Add(1)
		go func(g int) {
			defer wg.Done()
			defer func() {
				if x := recover(); x != nil {
					mu.Lock()
					viol = fmt.Sprintf("concurrent epilogue: goroutine %d panicked: %v", g, x)
					mu.Unlock()
				}
			}()
			for i := 0; i < 4; i++ {
				part := w.Parts[(g+i)%len(w.Parts)]
				s, err := p.Factory.GetSession(part)
				if err != nil {
					mu.Lock()
					viol = fmt.Sprintf("concurrent epilogue: GetSession(%q) failed: %v", part, err)
					mu.Unlock()
					return
				}
				payload := []byte(fmt.Sprintf("epilogue-%d-%d", g, i))
				drr, err := s.Encrypt(ctxBg, payload)
				var out []byte
				if err == nil {
					out, err = s.Decrypt(ctxBg, world.CloneDRR(*drr))
				}
				s.Close()
				mu.Lock()
				switch {
				case err != nil:
					viol = fmt.Sprintf("concurrent epilogue: round trip on %q failed: %v", part, err)
				case !bytes.Equal(out, payload):
					viol = fmt.Sprintf("concurrent epilogue: round trip on %q returned other bytes", part)
				default:
					r := &world.Rec{ID: -1, Partition: part, Payload: payload, DRR: world.CloneDRR(*drr), Proc: p.Name}
					r.JSON, _ = json.Marshal(drr)
					r.IKID, r.IKCreated = drr.Key.ParentKeyMeta.ID, drr.Key.ParentKeyMeta.Created
					recs = append(recs, r)
				}
				mu.Unlock()
			}
		}(g)
	}
	wg.Wait()
	if viol != "" {
		fail(t, w, "%s", viol)
	}
	for _, r := range recs {
		r.ID = len(w.Recs)
		w.Recs = append(w.Recs, r)
	}
	kit.Rec.Label("concurrent-epilogue")
}
