package fakes

import (
	"context"
	"errors"

	"github.com/aws/aws-sdk-go-v2/aws"
	"github.com/aws/aws-sdk-go-v2/service/dynamodb"
	"github.com/aws/aws-sdk-go-v2/service/dynamodb/types"
	"github.com/aws/smithy-go"
)

// DynamoV2 adapts Dynamo to the aws-sdk-go-v2 client subset used by the metastore.
type DynamoV2 struct{ D *Dynamo }

func v2ToAV(a types.AttributeValue) AV {
	switch v := a.(type) {
	case *types.AttributeValueMemberS:
		s := v.Value
		return AV{S: &s}
	case *types.AttributeValueMemberN:
		s := v.Value
		return AV{N: &s}
	case *types.AttributeValueMemberBOOL:
		b := v.Value
		return AV{BOOL: &b}
	case *types.AttributeValueMemberB:
		return AV{B: v.Value}
	case *types.AttributeValueMemberNULL:
		return AV{NULL: true}
	case *types.AttributeValueMemberM:
		r := AV{M: map[string]AV{}}
		for k, x := range v.Value {
			r.M[k] = v2ToAV(x)
		}
		return r
	case *types.AttributeValueMemberL:
		r := AV{L: []AV{}}
		for _, x := range v.Value {
			r.L = append(r.L, v2ToAV(x))
		}
		return r
	}
	return AV{NULL: true}
}

func avToV2(a AV) types.AttributeValue {
	switch {
	case a.S != nil:
		return &types.AttributeValueMemberS{Value: *a.S}
	case a.N != nil:
		return &types.AttributeValueMemberN{Value: *a.N}
	case a.BOOL != nil:
		return &types.AttributeValueMemberBOOL{Value: *a.BOOL}
	case a.B != nil:
		return &types.AttributeValueMemberB{Value: a.B}
	case a.M != nil:
		m := map[string]types.AttributeValue{}
		for k, v := range a.M {
			m[k] = avToV2(v)
		}
		return &types.AttributeValueMemberM{Value: m}
	case a.L != nil:
		var l []types.AttributeValue
		for _, v := range a.L {
			l = append(l, avToV2(v))
		}
		return &types.AttributeValueMemberL{Value: l}
	}
	return &types.AttributeValueMemberNULL{Value: true}
}

func v2Map(m map[string]types.AttributeValue) map[string]AV {
	r := map[string]AV{}
	for k, v := range m {
		r[k] = v2ToAV(v)
	}
	return r
}

func toV2Map(m map[string]AV) map[string]types.AttributeValue {
	if m == nil {
		return nil
	}
	r := map[string]types.AttributeValue{}
	for k, v := range m {
		r[k] = avToV2(v)
	}
	return r
}

func v2Err(err error) error {
	var val *ErrValidation
	switch {
	case err == nil:
		return nil
	case errors.Is(err, ErrConditionalCheckFailed):
		return &smithy.OperationError{ServiceID: "DynamoDB", OperationName: "PutItem", Err: &types.ConditionalCheckFailedException{Message: aws.String("The conditional request failed")}}
	case errors.Is(err, ErrResourceNotFound):
		return &smithy.OperationError{ServiceID: "DynamoDB", Err: &types.ResourceNotFoundException{Message: aws.String("Requested resource not found")}}
	case errors.As(err, &val):
		return &smithy.OperationError{ServiceID: "DynamoDB", Err: &smithy.GenericAPIError{Code: "ValidationException", Message: val.Msg}}
	}
	return err
}

func (c DynamoV2) Options() dynamodb.Options { return dynamodb.Options{Region: c.D.Region} }

func (c DynamoV2) GetItem(_ context.Context, in *dynamodb.GetItemInput, _ ...func(*dynamodb.Options)) (*dynamodb.GetItemOutput, error) {
	it, err := c.D.GetItem(aws.ToString(in.TableName), v2Map(in.Key), in.ProjectionExpression, in.ExpressionAttributeNames, aws.ToBool(in.ConsistentRead))
	if err != nil {
		return nil, v2Err(err)
	}
	return &dynamodb.GetItemOutput{Item: toV2Map(it)}, nil
}

func (c DynamoV2) PutItem(_ context.Context, in *dynamodb.PutItemInput, _ ...func(*dynamodb.Options)) (*dynamodb.PutItemOutput, error) {
	err := c.D.PutItem(aws.ToString(in.TableName), v2Map(in.Item), in.ConditionExpression, in.ExpressionAttributeNames)
	if err != nil {
		return nil, v2Err(err)
	}
	return &dynamodb.PutItemOutput{}, nil
}

func (c DynamoV2) Query(_ context.Context, in *dynamodb.QueryInput, _ ...func(*dynamodb.Options)) (*dynamodb.QueryOutput, error) {
	forward := true
	if in.ScanIndexForward != nil {
		forward = *in.ScanIndexForward
	}
	items, err := c.D.Query(aws.ToString(in.TableName), in.KeyConditionExpression, in.ExpressionAttributeNames, v2Map(in.ExpressionAttributeValues),
		in.ProjectionExpression, forward, int(aws.ToInt32(in.Limit)), aws.ToBool(in.ConsistentRead))
	if err != nil {
		return nil, v2Err(err)
	}
	out := &dynamodb.QueryOutput{}
	for _, it := range items {
		out.Items = append(out.Items, toV2Map(it))
	}
	out.Count = int32(len(items))
	return out, nil
}
