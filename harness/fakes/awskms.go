package fakes

import (
	"context"
	"crypto/aes"
	"crypto/cipher"
	"crypto/rand"
	"errors"
	"fmt"
	"runtime"
	"sync"
	"time"

	kmsv2 "github.com/aws/aws-sdk-go-v2/service/kms"
	awsv1 "github.com/aws/aws-sdk-go/aws"
	reqv1 "github.com/aws/aws-sdk-go/aws/request"
	kmsv1 "github.com/aws/aws-sdk-go/service/kms"
)

// KMSWorld is a set of fake regional AWS KMS endpoints sharing one call log.
type KMSWorld struct {
	// FailErr, when set, is what failing regions return instead of ErrKMSDown (e.g. an error that
	// wraps context.DeadlineExceeded, as the AWS SDKs produce for per-call timeouts).
	FailErr  error
	mu       sync.Mutex
	Regions  map[string]*KMSRegion
	Calls    []KMSCall
	Retained []KMSRetained // every Plaintext slice handed to a caller
}

// KMSCall is one request seen by a regional endpoint.
type KMSCall struct {
	Region string
	Op     string // GenerateDataKey, Encrypt, Decrypt
	OK     bool
}

// KMSRetained is a plaintext slice the fake returned.
type KMSRetained struct {
	Region string
	Op     string
	Buf    []byte // the very slice handed out (the plugin is expected to wipe it)
	Value  []byte // a private copy of its content at that moment (for leak scanning)
}

// KMSRegion is one regional endpoint with its own master key and fault switches.
type KMSRegion struct {
	w            *KMSWorld
	Region, ARN  string
	Alias        string // alias ARN, another name for the same key (see UseAliases)
	master       []byte
	FailGenerate bool
	FailEncrypt  bool
	FailDecrypt  bool
	WrongDecrypt bool          // Decrypt "succeeds" with bytes that are not the data key
	Delay        time.Duration // real time every call to this region takes (a slow but healthy region)
}

// failErr is the error an injected regional failure returns (FailErr, or ErrKMSDown).
func (w *KMSWorld) failErr() error {
	if w.FailErr != nil {
		return w.FailErr
	}
	return ErrKMSDown
}

// ErrKMSDown is the injected regional failure.
var ErrKMSDown = errors.New("KMSInternalException: injected regional failure")

// NewKMSWorld creates endpoints for the given regions.
func NewKMSWorld(regions []string) *KMSWorld {
	w := &KMSWorld{Regions: map[string]*KMSRegion{}}
	for _, r := range regions {
		m := make([]byte, 32)
		rand.Read(m)
		w.Regions[r] = &KMSRegion{w: w, Region: r, ARN: "arn:aws:kms:" + r + ":123456789012:key/" + r + "-key", master: m}
	}
	return w
}

// ARNMap returns region -> the key identifier an application configures (the alias ARN after UseAliases, else the key ARN).
func (w *KMSWorld) ARNMap() map[string]string {
	m := map[string]string{}
	for r, k := range w.Regions {
		m[r] = k.ARN
		if k.Alias != "" {
			m[r] = k.Alias
		}
	}
	return m
}

// UseAliases gives every region's key an alias ARN and makes ARNMap return it. As with the real service a request
// may name the key by either identifier, and every response names it by its key ARN.
func (w *KMSWorld) UseAliases() {
	for r, k := range w.Regions {
		k.Alias = "arn:aws:kms:" + r + ":123456789012:alias/asherah-" + r
	}
}

func (k *KMSRegion) names(keyID string) bool {
	return keyID == k.ARN || (k.Alias != "" && keyID == k.Alias)
}

// Reset clears the call log and the retained buffers.
func (w *KMSWorld) Reset() {
	w.mu.Lock()
	w.Calls, w.Retained = nil, nil
	w.mu.Unlock()
}

func (k *KMSRegion) log(op string, ok bool) {
	k.w.mu.Lock()
	k.w.Calls = append(k.w.Calls, KMSCall{k.Region, op, ok})
	k.w.mu.Unlock()
}

func (k *KMSRegion) retain(op string, b []byte) {
	k.w.mu.Lock()
	k.w.Retained = append(k.w.Retained, KMSRetained{k.Region, op, b, append([]byte(nil), b...)})
	k.w.mu.Unlock()
}

func (k *KMSRegion) wrap(pt []byte) []byte {
	blk, _ := aes.NewCipher(k.master)
	g, _ := cipher.NewGCM(blk)
	nonce := make([]byte, 12)
	rand.Read(nonce)
	return g.Seal(nonce, nonce, pt, []byte(k.ARN))
}

func (k *KMSRegion) unwrap(ct []byte) ([]byte, error) {
	if len(ct) < 28 {
		return nil, errors.New("InvalidCiphertextException")
	}
	blk, _ := aes.NewCipher(k.master)
	g, _ := cipher.NewGCM(blk)
	pt, err := g.Open(nil, ct[:12], ct[12:], []byte(k.ARN))
	if err != nil {
		return nil, errors.New("InvalidCiphertextException: ciphertext was not produced by this region's key")
	}
	return pt, nil
}

func (k *KMSRegion) generate(keyID string) (pt, ct []byte, err error) {
	time.Sleep(k.Delay)
	if k.FailGenerate {
		k.log("GenerateDataKey", false)
		return nil, nil, k.w.failErr()
	}
	if !k.names(keyID) {
		k.log("GenerateDataKey", false)
		return nil, nil, errors.New("NotFoundException: key " + keyID + " does not exist in " + k.Region)
	}
	pt = make([]byte, 32)
	rand.Read(pt)
	ct = k.wrap(pt)
	k.retain("GenerateDataKey", pt)
	k.log("GenerateDataKey", true)
	return pt, ct, nil
}

func (k *KMSRegion) encrypt(keyID string, pt []byte) ([]byte, error) {
	// the very slice the plugin passed in: if it is a private copy of the data key, the
	// plugin is responsible for wiping it too
	k.retain("Encrypt(input)", pt)
	time.Sleep(k.Delay)
	if k.FailEncrypt {
		k.log("Encrypt", false)
		return nil, k.w.failErr()
	}
	if !k.names(keyID) {
		k.log("Encrypt", false)
		return nil, errors.New("NotFoundException: key " + keyID + " does not exist in " + k.Region)
	}
	k.log("Encrypt", true)
	return k.wrap(pt), nil
}

func (k *KMSRegion) decrypt(ct []byte) ([]byte, error) {
	time.Sleep(k.Delay)
	if k.FailDecrypt {
		k.log("Decrypt", false)
		return nil, k.w.failErr()
	}
	pt, err := k.unwrap(ct)
	if err != nil {
		k.log("Decrypt", false)
		return nil, err
	}
	if k.WrongDecrypt {
		for i := range pt {
			pt[i] ^= 0x5a
		}
	}
	k.retain("Decrypt", pt)
	k.log("Decrypt", true)
	return pt, nil
}

// ctxGone mirrors what the real clients do with a context that is already cancelled when the
// request is about to be sent: the request fails with an error wrapping the context's error.
func ctxGone(cx interface{ Err() error }) error {
	runtime.Gosched() // requests are sent from goroutines: let whoever started them get on first
	if err := cx.Err(); err != nil {
		return fmt.Errorf("RequestCanceled: request context canceled: %w", err)
	}
	return nil
}

// ---- SDK v1 adapter ---------------------------------------------------------------

// KMSV1 implements the aws-sdk-go (v1) client subset the plugin uses.
type KMSV1 struct{ R *KMSRegion }

func (c KMSV1) EncryptWithContext(cx awsv1.Context, in *kmsv1.EncryptInput, _ ...reqv1.Option) (*kmsv1.EncryptOutput, error) {
	if err := ctxGone(cx); err != nil {
		return nil, err
	}
	ct, err := c.R.encrypt(awsv1.StringValue(in.KeyId), in.Plaintext)
	if err != nil {
		return nil, err
	}
	return &kmsv1.EncryptOutput{CiphertextBlob: ct, KeyId: awsv1.String(c.R.ARN)}, nil
}

func (c KMSV1) GenerateDataKeyWithContext(cx awsv1.Context, in *kmsv1.GenerateDataKeyInput, _ ...reqv1.Option) (*kmsv1.GenerateDataKeyOutput, error) {
	if err := ctxGone(cx); err != nil {
		return nil, err
	}
	pt, ct, err := c.R.generate(awsv1.StringValue(in.KeyId))
	if err != nil {
		return nil, err
	}
	return &kmsv1.GenerateDataKeyOutput{Plaintext: pt, CiphertextBlob: ct, KeyId: awsv1.String(c.R.ARN)}, nil
}

func (c KMSV1) DecryptWithContext(cx awsv1.Context, in *kmsv1.DecryptInput, _ ...reqv1.Option) (*kmsv1.DecryptOutput, error) {
	if err := ctxGone(cx); err != nil {
		return nil, err
	}
	pt, err := c.R.decrypt(in.CiphertextBlob)
	if err != nil {
		return nil, err
	}
	return &kmsv1.DecryptOutput{Plaintext: pt, KeyId: awsv1.String(c.R.ARN)}, nil
}

// ---- SDK v2 adapter ---------------------------------------------------------------

// KMSV2 implements the aws-sdk-go-v2 client subset the plugin uses.
type KMSV2 struct{ R *KMSRegion }

func (c KMSV2) Encrypt(cx context.Context, in *kmsv2.EncryptInput, _ ...func(*kmsv2.Options)) (*kmsv2.EncryptOutput, error) {
	if err := ctxGone(cx); err != nil {
		return nil, err
	}
	id := ""
	if in.KeyId != nil {
		id = *in.KeyId
	}
	ct, err := c.R.encrypt(id, in.Plaintext)
	if err != nil {
		return nil, err
	}
	arn := c.R.ARN
	return &kmsv2.EncryptOutput{CiphertextBlob: ct, KeyId: &arn}, nil
}

func (c KMSV2) GenerateDataKey(cx context.Context, in *kmsv2.GenerateDataKeyInput, _ ...func(*kmsv2.Options)) (*kmsv2.GenerateDataKeyOutput, error) {
	if err := ctxGone(cx); err != nil {
		return nil, err
	}
	id := ""
	if in.KeyId != nil {
		id = *in.KeyId
	}
	pt, ct, err := c.R.generate(id)
	if err != nil {
		return nil, err
	}
	arn := c.R.ARN
	return &kmsv2.GenerateDataKeyOutput{Plaintext: pt, CiphertextBlob: ct, KeyId: &arn}, nil
}

func (c KMSV2) Decrypt(cx context.Context, in *kmsv2.DecryptInput, _ ...func(*kmsv2.Options)) (*kmsv2.DecryptOutput, error) {
	if err := ctxGone(cx); err != nil {
		return nil, err
	}
	pt, err := c.R.decrypt(in.CiphertextBlob)
	if err != nil {
		return nil, err
	}
	arn := c.R.ARN
	return &kmsv2.DecryptOutput{Plaintext: pt, KeyId: &arn}, nil
}
