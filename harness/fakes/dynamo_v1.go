package fakes

import (
	"errors"

	"github.com/aws/aws-sdk-go/aws"
	"github.com/aws/aws-sdk-go/aws/awserr"
	"github.com/aws/aws-sdk-go/aws/request"
	"github.com/aws/aws-sdk-go/service/dynamodb"
)

// DynamoV1 adapts Dynamo to the aws-sdk-go (v1) client subset used by the metastore.
type DynamoV1 struct{ D *Dynamo }

func v1ToAV(a *dynamodb.AttributeValue) AV {
	if a == nil {
		return AV{NULL: true}
	}
	r := AV{S: a.S, N: a.N, BOOL: a.BOOL, B: a.B}
	if a.NULL != nil && *a.NULL {
		r.NULL = true
	}
	if a.M != nil {
		r.M = map[string]AV{}
		for k, v := range a.M {
			r.M[k] = v1ToAV(v)
		}
	}
	for _, v := range a.L {
		r.L = append(r.L, v1ToAV(v))
	}
	return r
}

func avToV1(a AV) *dynamodb.AttributeValue {
	r := &dynamodb.AttributeValue{S: a.S, N: a.N, BOOL: a.BOOL, B: a.B}
	if a.NULL {
		r.NULL = aws.Bool(true)
	}
	if a.M != nil {
		r.M = map[string]*dynamodb.AttributeValue{}
		for k, v := range a.M {
			r.M[k] = avToV1(v)
		}
	}
	for _, v := range a.L {
		r.L = append(r.L, avToV1(v))
	}
	return r
}

func v1Map(m map[string]*dynamodb.AttributeValue) map[string]AV {
	r := map[string]AV{}
	for k, v := range m {
		r[k] = v1ToAV(v)
	}
	return r
}

func toV1Map(m map[string]AV) map[string]*dynamodb.AttributeValue {
	if m == nil {
		return nil
	}
	r := map[string]*dynamodb.AttributeValue{}
	for k, v := range m {
		r[k] = avToV1(v)
	}
	return r
}

func names1(m map[string]*string) map[string]string {
	r := map[string]string{}
	for k, v := range m {
		if v != nil {
			r[k] = *v
		}
	}
	return r
}

func v1Err(err error) error {
	var val *ErrValidation
	switch {
	case err == nil:
		return nil
	case errors.Is(err, ErrConditionalCheckFailed):
		return awserr.New(dynamodb.ErrCodeConditionalCheckFailedException, "The conditional request failed", nil)
	case errors.Is(err, ErrResourceNotFound):
		return awserr.New(dynamodb.ErrCodeResourceNotFoundException, "Requested resource not found", nil)
	case errors.As(err, &val):
		return awserr.New("ValidationException", val.Msg, nil)
	}
	return err
}

func (c DynamoV1) GetItemWithContext(_ aws.Context, in *dynamodb.GetItemInput, _ ...request.Option) (*dynamodb.GetItemOutput, error) {
	it, err := c.D.GetItem(aws.StringValue(in.TableName), v1Map(in.Key), in.ProjectionExpression, names1(in.ExpressionAttributeNames), aws.BoolValue(in.ConsistentRead))
	if err != nil {
		return nil, v1Err(err)
	}
	return &dynamodb.GetItemOutput{Item: toV1Map(it)}, nil
}

func (c DynamoV1) PutItemWithContext(_ aws.Context, in *dynamodb.PutItemInput, _ ...request.Option) (*dynamodb.PutItemOutput, error) {
	err := c.D.PutItem(aws.StringValue(in.TableName), v1Map(in.Item), in.ConditionExpression, names1(in.ExpressionAttributeNames))
	if err != nil {
		return nil, v1Err(err)
	}
	return &dynamodb.PutItemOutput{}, nil
}

func (c DynamoV1) QueryWithContext(_ aws.Context, in *dynamodb.QueryInput, _ ...request.Option) (*dynamodb.QueryOutput, error) {
	forward := true
	if in.ScanIndexForward != nil {
		forward = *in.ScanIndexForward
	}
	items, err := c.D.Query(aws.StringValue(in.TableName), in.KeyConditionExpression, names1(in.ExpressionAttributeNames), v1Map(in.ExpressionAttributeValues),
		in.ProjectionExpression, forward, int(aws.Int64Value(in.Limit)), aws.BoolValue(in.ConsistentRead))
	if err != nil {
		return nil, v1Err(err)
	}
	out := &dynamodb.QueryOutput{}
	for _, it := range items {
		out.Items = append(out.Items, toV1Map(it))
	}
	out.Count = aws.Int64(int64(len(items)))
	return out, nil
}
