package fakes

import (
	"context"
	"database/sql"
	"database/sql/driver"
	"fmt"
	"io"
	"regexp"
	"sort"
	"strconv"
	"strings"
	"sync"
	"time"
)

// SQLDB is a tiny relational engine that interprets the SQL subset the SQL
// metastore needs against the documented schema
//
//	CREATE TABLE encryption_key (id VARCHAR(255) NOT NULL, created TIMESTAMP NOT NULL,
//	                             key_record TEXT NOT NULL, PRIMARY KEY (id, created))
//
// One flavour per dialect: it only accepts that dialect's placeholders
// (mysql "?", postgres "$n", oracle ":n"). TIMESTAMP has second resolution.
type SQLDB struct {
	mu          sync.Mutex
	Flavor      string
	rows        []sqlRow
	Statements  []string
	Unsupported []string
	failFetch   bool
}

type sqlRow struct {
	id        string
	created   int64
	keyRecord string
	seq       int
}

var sqlSeq int
var sqlMu sync.Mutex
var sqlDBs = map[string]*SQLDB{}

type sqlDriver struct{}

func init() { sql.Register("veriffake", sqlDriver{}) }

// OpenSQL returns a *sql.DB backed by a fresh fake database of the given flavour.
func OpenSQL(flavor string) (*sql.DB, *SQLDB) {
	sqlMu.Lock()
	sqlSeq++
	name := fmt.Sprintf("db%d", sqlSeq)
	d := &SQLDB{Flavor: flavor}
	sqlDBs[name] = d
	sqlMu.Unlock()
	db, err := sql.Open("veriffake", name)
	if err != nil {
		panic(err)
	}
	return db, d
}

// Forget releases the registry entry.
func (d *SQLDB) Forget() {
	sqlMu.Lock()
	for k, v := range sqlDBs {
		if v == d {
			delete(sqlDBs, k)
		}
	}
	sqlMu.Unlock()
}

func (sqlDriver) Open(name string) (driver.Conn, error) {
	sqlMu.Lock()
	defer sqlMu.Unlock()
	d, ok := sqlDBs[name]
	if !ok {
		return nil, fmt.Errorf("unknown fake database %q", name)
	}
	return &sqlConn{d}, nil
}

type sqlConn struct{ d *SQLDB }

func (c *sqlConn) Prepare(q string) (driver.Stmt, error) { return &sqlStmt{c, q}, nil }
func (c *sqlConn) Close() error                          { return nil }
func (c *sqlConn) Begin() (driver.Tx, error) {
	return nil, fmt.Errorf("transactions not supported by the fake")
}

type sqlStmt struct {
	c *sqlConn
	q string
}

func (s *sqlStmt) Close() error  { return nil }
func (s *sqlStmt) NumInput() int { return -1 }
func (s *sqlStmt) Exec(args []driver.Value) (driver.Result, error) {
	return s.c.d.exec(s.q, args)
}
func (s *sqlStmt) Query(args []driver.Value) (driver.Rows, error) {
	return s.c.d.query(s.q, args)
}

func named(nv []driver.NamedValue) []driver.Value {
	r := make([]driver.Value, len(nv))
	for i, v := range nv {
		r[i] = v.Value
	}
	return r
}

func (c *sqlConn) ExecContext(_ context.Context, q string, args []driver.NamedValue) (driver.Result, error) {
	return c.d.exec(q, named(args))
}

func (c *sqlConn) QueryContext(_ context.Context, q string, args []driver.NamedValue) (driver.Rows, error) {
	return c.d.query(q, named(args))
}

// SQLUnsupported marks statements the fake cannot interpret (inconclusive, not a violation).
type SQLUnsupported struct{ Msg string }

func (e *SQLUnsupported) Error() string { return "verif fake cannot interpret: " + e.Msg }

var (
	insertRx  = regexp.MustCompile(`(?is)^\s*INSERT\s+INTO\s+(\w+)\s*\(([^)]*)\)\s*VALUES\s*\(([^)]*)\)\s*;?\s*$`)
	selectRx  = regexp.MustCompile(`(?is)^\s*SELECT\s+(\w+)\s+FROM\s+(\w+)\s+WHERE\s+(.+?)(?:\s+ORDER\s+BY\s+(\w+)(?:\s+(ASC|DESC))?)?(?:\s+LIMIT\s+(\d+))?\s*;?\s*$`)
	condRxSQL = regexp.MustCompile(`(?is)^\s*(\w+)\s*=\s*(\S+)\s*$`)
)

// placeholder resolves a placeholder token to an argument index for this flavour.
func (d *SQLDB) placeholder(tok string, ordinal *int) (int, error) {
	switch d.Flavor {
	case "mysql":
		if tok != "?" {
			return 0, fmt.Errorf("syntax error near %q (mysql placeholders are '?')", tok)
		}
		i := *ordinal
		*ordinal++
		return i, nil
	case "postgres":
		if !strings.HasPrefix(tok, "$") {
			return 0, fmt.Errorf("syntax error near %q (postgres placeholders are $n)", tok)
		}
		n, err := strconv.Atoi(tok[1:])
		if err != nil || n < 1 {
			return 0, fmt.Errorf("syntax error near %q", tok)
		}
		return n - 1, nil
	case "oracle":
		if !strings.HasPrefix(tok, ":") {
			return 0, fmt.Errorf("ORA-00911: invalid character near %q (oracle placeholders are :n)", tok)
		}
		n, err := strconv.Atoi(tok[1:])
		if err != nil || n < 1 {
			return 0, fmt.Errorf("syntax error near %q", tok)
		}
		return n - 1, nil
	}
	return 0, fmt.Errorf("unknown flavour %q", d.Flavor)
}

func (d *SQLDB) unsupported(q string) error {
	d.Unsupported = append(d.Unsupported, q)
	return &SQLUnsupported{q}
}

func toUnix(v driver.Value) (int64, error) {
	switch x := v.(type) {
	case time.Time:
		return x.Unix(), nil // TIMESTAMP: second resolution
	case int64:
		return x, nil
	case string:
		t, err := time.Parse("2006-01-02 15:04:05", x)
		if err != nil {
			return 0, fmt.Errorf("incorrect datetime value %q", x)
		}
		return t.Unix(), nil
	}
	return 0, fmt.Errorf("incorrect datetime value %v", v)
}

var onConflictRx = regexp.MustCompile(`(?i)\s+ON\s+CONFLICT(\s*\([^)]*\))?\s+DO\s+NOTHING\s*;?\s*$`)
var insertIgnoreRx = regexp.MustCompile(`(?i)^\s*INSERT\s+IGNORE\s+`)

func (d *SQLDB) exec(q string, args []driver.Value) (driver.Result, error) {
	d.mu.Lock()
	defer d.mu.Unlock()
	d.Statements = append(d.Statements, q)
	// the dialects' "skip duplicates" forms: no error and zero rows affected for an existing primary key
	skipDup := false
	if d.Flavor == "postgres" {
		if loc := onConflictRx.FindStringIndex(q); loc != nil {
			q, skipDup = q[:loc[0]], true
		}
	}
	if d.Flavor == "mysql" {
		if loc := insertIgnoreRx.FindStringIndex(q); loc != nil {
			q, skipDup = "INSERT "+q[loc[1]:], true
		}
	}
	m := insertRx.FindStringSubmatch(q)
	if m == nil {
		return nil, d.unsupported(q)
	}
	if !strings.EqualFold(m[1], "encryption_key") {
		return nil, fmt.Errorf("table %q doesn't exist", m[1])
	}
	cols := splitTrim(m[2])
	vals := splitTrim(m[3])
	if len(cols) != len(vals) {
		return nil, fmt.Errorf("column count doesn't match value count")
	}
	row := sqlRow{}
	seen := map[string]bool{}
	ord := 0
	for i, c := range cols {
		idx, err := d.placeholder(vals[i], &ord)
		if err != nil {
			return nil, err
		}
		if idx >= len(args) {
			return nil, fmt.Errorf("not enough arguments for placeholder %s", vals[i])
		}
		a := args[idx]
		switch strings.ToLower(c) {
		case "id":
			s, ok := a.(string)
			if !ok {
				return nil, fmt.Errorf("id: expected string, got %T", a)
			}
			if len([]rune(s)) > 255 {
				return nil, fmt.Errorf("data too long for column 'id'")
			}
			row.id = s
		case "created":
			u, err := toUnix(a)
			if err != nil {
				return nil, err
			}
			row.created = u
		case "key_record":
			switch s := a.(type) {
			case string:
				row.keyRecord = s
			case []byte:
				row.keyRecord = string(s)
			default:
				return nil, fmt.Errorf("key_record: expected text, got %T", a)
			}
		default:
			return nil, fmt.Errorf("unknown column %q", c)
		}
		seen[strings.ToLower(c)] = true
	}
	for _, c := range []string{"id", "created", "key_record"} {
		if !seen[c] {
			return nil, fmt.Errorf("field %q doesn't have a default value", c)
		}
	}
	for _, r := range d.rows {
		if r.id == row.id && r.created == row.created && skipDup {
			return driver.RowsAffected(0), nil
		}
		if r.id == row.id && r.created == row.created {
			return nil, fmt.Errorf("Error 1062: Duplicate entry '%s-%d' for key 'PRIMARY'", row.id, row.created)
		}
	}
	row.seq = len(d.rows)
	d.rows = append(d.rows, row)
	return driver.RowsAffected(1), nil
}

func splitTrim(s string) []string {
	var r []string
	for _, p := range strings.Split(s, ",") {
		r = append(r, strings.TrimSpace(p))
	}
	return r
}

func (d *SQLDB) query(q string, args []driver.Value) (driver.Rows, error) {
	d.mu.Lock()
	defer d.mu.Unlock()
	d.Statements = append(d.Statements, q)
	m := selectRx.FindStringSubmatch(q)
	if m == nil {
		return nil, d.unsupported(q)
	}
	col, table, where, orderBy, dir, limit := strings.ToLower(m[1]), m[2], m[3], strings.ToLower(m[4]), strings.ToUpper(m[5]), m[6]
	if !strings.EqualFold(table, "encryption_key") {
		return nil, fmt.Errorf("table %q doesn't exist", table)
	}
	if col != "key_record" && col != "id" && col != "created" {
		return nil, fmt.Errorf("unknown column %q", col)
	}
	type cond struct {
		col string
		val driver.Value
	}
	var conds []cond
	ord := 0
	for _, part := range regexp.MustCompile(`(?i)\s+AND\s+`).Split(where, -1) {
		cm := condRxSQL.FindStringSubmatch(part)
		if cm == nil {
			return nil, d.unsupported(q)
		}
		idx, err := d.placeholder(cm[2], &ord)
		if err != nil {
			return nil, err
		}
		if idx >= len(args) {
			return nil, fmt.Errorf("not enough arguments")
		}
		conds = append(conds, cond{strings.ToLower(cm[1]), args[idx]})
	}
	var hits []sqlRow
	for _, r := range d.rows {
		ok := true
		for _, c := range conds {
			switch c.col {
			case "id":
				s, isS := c.val.(string)
				ok = ok && isS && s == r.id
			case "created":
				u, err := toUnix(c.val)
				if err != nil {
					return nil, err
				}
				ok = ok && u == r.created
			default:
				return nil, fmt.Errorf("unknown column %q in where clause", c.col)
			}
		}
		if ok {
			hits = append(hits, r)
		}
	}
	switch orderBy {
	case "":
		// no ORDER BY: the order is unspecified; be adversarial and return the oldest insert first
	case "created":
		sort.SliceStable(hits, func(i, j int) bool {
			if dir == "DESC" {
				return hits[i].created > hits[j].created
			}
			return hits[i].created < hits[j].created
		})
	case "id":
		sort.SliceStable(hits, func(i, j int) bool {
			if dir == "DESC" {
				return hits[i].id > hits[j].id
			}
			return hits[i].id < hits[j].id
		})
	default:
		return nil, fmt.Errorf("unknown column %q in order clause", orderBy)
	}
	if limit != "" {
		n, _ := strconv.Atoi(limit)
		if len(hits) > n {
			hits = hits[:n]
		}
	}
	fail := d.failFetch
	d.failFetch = false
	return &sqlRows{col: col, rows: hits, fail: fail}, nil
}

// FailNextFetch makes the first row fetch of the next query fail (the query itself is accepted).
func (d *SQLDB) FailNextFetch() {
	d.mu.Lock()
	d.failFetch = true
	d.mu.Unlock()
}

type sqlRows struct {
	col  string
	rows []sqlRow
	i    int
	fail bool // the first fetch fails
}

func (r *sqlRows) Columns() []string { return []string{r.col} }
func (r *sqlRows) Close() error      { return nil }
func (r *sqlRows) Next(dest []driver.Value) error {
	if r.fail {
		r.fail = false
		return fmt.Errorf("driver: bad connection (injected: the row fetch failed)")
	}
	if r.i >= len(r.rows) {
		return io.EOF
	}
	row := r.rows[r.i]
	r.i++
	switch r.col {
	case "key_record":
		dest[0] = row.keyRecord
	case "id":
		dest[0] = row.id
	case "created":
		dest[0] = time.Unix(row.created, 0)
	}
	return nil
}

// RawRow returns the stored key_record text (or "", false).
func (d *SQLDB) RawRow(id string, created int64) (string, bool) {
	d.mu.Lock()
	defer d.mu.Unlock()
	for _, r := range d.rows {
		if r.id == id && r.created == created {
			return r.keyRecord, true
		}
	}
	return "", false
}

// SQLRawRow is one stored row as the database holds it.
type SQLRawRow struct {
	ID        string
	Created   int64
	KeyRecord string
}

// Rows lists all rows in insertion order.
func (d *SQLDB) Rows() []SQLRawRow {
	d.mu.Lock()
	defer d.mu.Unlock()
	var res []SQLRawRow
	for _, r := range d.rows {
		res = append(res, SQLRawRow{r.id, r.created, r.keyRecord})
	}
	return res
}

// Put inserts a row written by "another implementation"; false if the primary key exists.
func (d *SQLDB) Put(id string, created int64, keyRecord string) bool {
	d.mu.Lock()
	defer d.mu.Unlock()
	for _, r := range d.rows {
		if r.id == id && r.created == created {
			return false
		}
	}
	d.rows = append(d.rows, sqlRow{id, created, keyRecord, len(d.rows)})
	return true
}

// Update replaces the key_record of an existing row (an operator's UPDATE); false if absent.
func (d *SQLDB) Update(id string, created int64, keyRecord string) bool {
	d.mu.Lock()
	defer d.mu.Unlock()
	for i, r := range d.rows {
		if r.id == id && r.created == created {
			d.rows[i].keyRecord = keyRecord
			return true
		}
	}
	return false
}
