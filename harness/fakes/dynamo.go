// Package fakes holds semantic fakes of external services, written from their
// public documentation: they interpret the request instead of matching it.
package fakes

import (
	"errors"
	"fmt"
	"regexp"
	"sort"
	"strconv"
	"strings"
	"sync"
)

// AV is a neutral DynamoDB attribute value.
type AV struct {
	S    *string
	N    *string
	BOOL *bool
	B    []byte
	NULL bool
	M    map[string]AV
	L    []AV
}

// Errors the fake can return (adapters translate them to SDK error types).
var (
	ErrConditionalCheckFailed = errors.New("ConditionalCheckFailedException: The conditional request failed")
	ErrResourceNotFound       = errors.New("ResourceNotFoundException: Requested resource not found")
)

// ErrValidation is a ValidationException.
type ErrValidation struct{ Msg string }

func (e *ErrValidation) Error() string { return "ValidationException: " + e.Msg }

// ErrUnsupported means the fake cannot interpret the request: the check is inconclusive.
type ErrUnsupported struct{ Msg string }

func (e *ErrUnsupported) Error() string { return "verif fake cannot interpret: " + e.Msg }

// Dynamo is an in-memory table service with DynamoDB semantics for the subset of
// the API the metastores use: conditional PutItem, GetItem and Query on a table
// with partition key Id (S) and sort key Created (N). Reads are eventually
// consistent unless ConsistentRead is set: a plain read does not see the most
// recent write.
type Dynamo struct {
	mu          sync.Mutex
	Table       string
	Region      string
	items       map[string]map[int64]map[string]AV // Id -> Created -> item
	last        *[2]string                         // primary key of the most recent write (invisible to plain reads)
	Log         []string
	Unsupported []string
}

// NewDynamo creates the service with one table.
func NewDynamo(table, region string) *Dynamo {
	return &Dynamo{Table: table, Region: region, items: map[string]map[int64]map[string]AV{}}
}

func (d *Dynamo) unsupported(format string, args ...any) error {
	e := &ErrUnsupported{fmt.Sprintf(format, args...)}
	d.Unsupported = append(d.Unsupported, e.Msg)
	return e
}

func (d *Dynamo) keyOf(m map[string]AV, what string) (string, int64, error) {
	id, ok := m["Id"]
	if !ok || id.S == nil {
		return "", 0, &ErrValidation{what + ": missing or mistyped partition key Id (S)"}
	}
	c, ok := m["Created"]
	if !ok || c.N == nil {
		return "", 0, &ErrValidation{what + ": missing or mistyped sort key Created (N)"}
	}
	n, err := strconv.ParseInt(*c.N, 10, 64)
	if err != nil {
		return "", 0, &ErrValidation{what + ": Created is not a number: " + *c.N}
	}
	return *id.S, n, nil
}

func resolveName(tok string, names map[string]string) (string, error) {
	tok = strings.TrimSpace(tok)
	if strings.HasPrefix(tok, "#") {
		n, ok := names[tok]
		if !ok {
			return "", &ErrValidation{"expression attribute name " + tok + " is not defined"}
		}
		return n, nil
	}
	return tok, nil
}

var condRx = regexp.MustCompile(`^\s*attribute_not_exists\s*\(\s*([#\w]+)\s*\)\s*$`)

// evalCondition evaluates a ConditionExpression against the existing item (nil if none).
func (d *Dynamo) evalCondition(expr string, names map[string]string, existing map[string]AV) (bool, error) {
	ok := true
	for _, part := range regexp.MustCompile(`(?i)\s+AND\s+`).Split(expr, -1) {
		m := condRx.FindStringSubmatch(part)
		if m == nil {
			return false, d.unsupported("condition expression %q", expr)
		}
		name, err := resolveName(m[1], names)
		if err != nil {
			return false, err
		}
		if existing != nil {
			if _, has := existing[name]; has {
				ok = false
			}
		}
	}
	return ok, nil
}

// PutItem implements conditional put.
func (d *Dynamo) PutItem(table string, item map[string]AV, cond *string, names map[string]string) error {
	d.mu.Lock()
	defer d.mu.Unlock()
	d.Log = append(d.Log, "PutItem")
	if table != d.Table {
		return ErrResourceNotFound
	}
	id, created, err := d.keyOf(item, "PutItem")
	if err != nil {
		return err
	}
	existing := d.items[id][created]
	if cond != nil {
		ok, err := d.evalCondition(*cond, names, existing)
		if err != nil {
			return err
		}
		if !ok {
			return ErrConditionalCheckFailed
		}
	}
	if d.items[id] == nil {
		d.items[id] = map[int64]map[string]AV{}
	}
	d.items[id][created] = cloneItem(item) // unconditional puts overwrite, as DynamoDB does
	d.last = &[2]string{id, strconv.FormatInt(created, 10)}
	return nil
}

func cloneAV(a AV) AV {
	r := AV{NULL: a.NULL}
	if a.S != nil {
		s := *a.S
		r.S = &s
	}
	if a.N != nil {
		s := *a.N
		r.N = &s
	}
	if a.BOOL != nil {
		b := *a.BOOL
		r.BOOL = &b
	}
	if a.B != nil {
		r.B = append([]byte(nil), a.B...)
	}
	if a.M != nil {
		r.M = cloneItem(a.M)
	}
	if a.L != nil {
		for _, x := range a.L {
			r.L = append(r.L, cloneAV(x))
		}
	}
	return r
}

func cloneItem(m map[string]AV) map[string]AV {
	r := make(map[string]AV, len(m))
	for k, v := range m {
		r[k] = cloneAV(v)
	}
	return r
}

func (d *Dynamo) visible(id string, created int64, consistent bool) bool {
	if consistent || d.last == nil {
		return true
	}
	return !(d.last[0] == id && d.last[1] == strconv.FormatInt(created, 10))
}

func (d *Dynamo) project(item map[string]AV, projection *string, names map[string]string) (map[string]AV, error) {
	if projection == nil || strings.TrimSpace(*projection) == "" {
		return cloneItem(item), nil
	}
	res := map[string]AV{}
	for _, tok := range strings.Split(*projection, ",") {
		n, err := resolveName(tok, names)
		if err != nil {
			return nil, err
		}
		if strings.ContainsAny(n, ".[") {
			return nil, d.unsupported("nested projection %q", *projection)
		}
		if v, ok := item[n]; ok {
			res[n] = cloneAV(v)
		}
	}
	return res, nil
}

// GetItem returns the item or nil.
func (d *Dynamo) GetItem(table string, key map[string]AV, projection *string, names map[string]string, consistent bool) (map[string]AV, error) {
	d.mu.Lock()
	defer d.mu.Unlock()
	d.Log = append(d.Log, fmt.Sprintf("GetItem consistent=%v", consistent))
	if table != d.Table {
		return nil, ErrResourceNotFound
	}
	if len(key) != 2 {
		return nil, &ErrValidation{"GetItem: the key must have exactly the partition and sort key"}
	}
	id, created, err := d.keyOf(key, "GetItem")
	if err != nil {
		return nil, err
	}
	it, ok := d.items[id][created]
	if !ok || !d.visible(id, created, consistent) {
		return nil, nil
	}
	return d.project(it, projection, names)
}

var keyCondRx = regexp.MustCompile(`^\s*([#\w]+)\s*=\s*(:\w+)\s*$`)
var sortCondRx = regexp.MustCompile(`^\s*([#\w]+)\s*(=|<=|>=|<|>)\s*(:\w+)\s*$`)

// Query evaluates a key condition on the partition key (optionally AND a comparison on the sort key).
func (d *Dynamo) Query(table string, keyCond *string, names map[string]string, values map[string]AV, projection *string, forward bool, limit int, consistent bool) ([]map[string]AV, error) {
	d.mu.Lock()
	defer d.mu.Unlock()
	d.Log = append(d.Log, fmt.Sprintf("Query consistent=%v forward=%v limit=%d", consistent, forward, limit))
	if table != d.Table {
		return nil, ErrResourceNotFound
	}
	if keyCond == nil {
		return nil, &ErrValidation{"Query: KeyConditionExpression is required"}
	}
	parts := regexp.MustCompile(`(?i)\s+AND\s+`).Split(strings.Trim(strings.TrimSpace(*keyCond), "()"), -1)
	var pk *string
	type sortCond struct {
		op string
		v  int64
	}
	var sc []sortCond
	for _, p := range parts {
		p = strings.Trim(strings.TrimSpace(p), "()")
		m := sortCondRx.FindStringSubmatch(p)
		if m == nil {
			return nil, d.unsupported("key condition %q", *keyCond)
		}
		name, err := resolveName(m[1], names)
		if err != nil {
			return nil, err
		}
		val, ok := values[m[3]]
		if !ok {
			return nil, &ErrValidation{"expression attribute value " + m[3] + " is not defined"}
		}
		switch name {
		case "Id":
			if m[2] != "=" || val.S == nil {
				return nil, &ErrValidation{"Query: the partition key needs an equality condition with an S value"}
			}
			pk = val.S
		case "Created":
			if val.N == nil {
				return nil, &ErrValidation{"Query: sort key condition needs an N value"}
			}
			n, err := strconv.ParseInt(*val.N, 10, 64)
			if err != nil {
				return nil, &ErrValidation{"Query: bad number"}
			}
			sc = append(sc, sortCond{m[2], n})
		default:
			return nil, &ErrValidation{"Query: key condition on non-key attribute " + name}
		}
	}
	if pk == nil {
		return nil, &ErrValidation{"Query: no condition on the partition key"}
	}
	var createds []int64
	for c := range d.items[*pk] {
		if !d.visible(*pk, c, consistent) {
			continue
		}
		ok := true
		for _, s := range sc {
			switch s.op {
			case "=":
				ok = ok && c == s.v
			case "<":
				ok = ok && c < s.v
			case "<=":
				ok = ok && c <= s.v
			case ">":
				ok = ok && c > s.v
			case ">=":
				ok = ok && c >= s.v
			}
		}
		if ok {
			createds = append(createds, c)
		}
	}
	sort.Slice(createds, func(i, j int) bool {
		if forward {
			return createds[i] < createds[j]
		}
		return createds[i] > createds[j]
	})
	if limit > 0 && len(createds) > limit {
		createds = createds[:limit]
	}
	var res []map[string]AV
	for _, c := range createds {
		it, err := d.project(d.items[*pk][c], projection, names)
		if err != nil {
			return nil, err
		}
		res = append(res, it)
	}
	return res, nil
}

// Raw returns a copy of the stored item (or nil), bypassing consistency.
func (d *Dynamo) Raw(id string, created int64) map[string]AV {
	d.mu.Lock()
	defer d.mu.Unlock()
	if it, ok := d.items[id][created]; ok {
		return cloneItem(it)
	}
	return nil
}

// Count returns the number of items.
func (d *Dynamo) Count() int {
	d.mu.Lock()
	defer d.mu.Unlock()
	n := 0
	for _, m := range d.items {
		n += len(m)
	}
	return n
}

var _ = keyCondRx

// Items lists all stored items (deep copies).
func (d *Dynamo) Items() []map[string]AV {
	d.mu.Lock()
	defer d.mu.Unlock()
	var res []map[string]AV
	var ids []string
	for id := range d.items {
		ids = append(ids, id)
	}
	sort.Strings(ids)
	for _, id := range ids {
		var cs []int64
		for c := range d.items[id] {
			cs = append(cs, c)
		}
		sort.Slice(cs, func(i, j int) bool { return cs[i] < cs[j] })
		for _, c := range cs {
			res = append(res, cloneItem(d.items[id][c]))
		}
	}
	return res
}

// Str and Num are helpers for building attribute values.
func Str(s string) AV { return AV{S: &s} }

// Num builds an N attribute.
func Num(n int64) AV { s := strconv.FormatInt(n, 10); return AV{N: &s} }

// Bool builds a BOOL attribute.
func Bool(b bool) AV { return AV{BOOL: &b} }

// Replace overwrites a stored item out of band (an operator's UpdateItem, long settled:
// every read sees it); false if absent.
func (d *Dynamo) Replace(id string, created int64, item map[string]AV) bool {
	d.mu.Lock()
	defer d.mu.Unlock()
	if _, ok := d.items[id][created]; !ok {
		return false
	}
	d.items[id][created] = cloneItem(item)
	return true
}
