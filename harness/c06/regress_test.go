package c06

import (
	"testing"

	"github.com/godaddy/asherah/go/appencryption"
	"github.com/godaddy/asherah/go/appencryption/pkg/crypto/aead"
	"github.com/godaddy/asherah/go/appencryption/pkg/kms"
	"verif/kit"
)

// TestRegressSuffixPrefixCollision: the shrunk pair of the fixed defect "suffix-prefix-collision".
func TestRegressSuffixPrefixCollision(t *testing.T) {
	st := kit.NewStore(&kit.CallLog{})
	st.Suffix = "us-west-2"
	k, _ := kms.NewStatic("thisIsAStaticMasterKeyForTesting", aead.NewAES256GCM())
	defer k.Close()
	f := appencryption.NewSessionFactory(&appencryption.Config{Service: "a", Product: "a", Policy: appencryption.NewCryptoPolicy()}, st, k, aead.NewAES256GCM(), appencryption.WithSecretFactory(kit.NewTracker()))
	defer f.Close()
	for _, pair := range [][2]string{{"a", "a_a_a"}, {"a", "a_a_a_x"}, {"p", "p_a_a_a_a"}} {
		q, _ := f.GetSession(pair[1])
		rec, err := q.Encrypt(ctx, []byte("secret of "+pair[1]))
		q.Close()
		if err != nil {
			t.Fatal(err)
		}
		p, _ := f.GetSession(pair[0])
		out, err := p.Decrypt(ctx, *rec)
		p.Close()
		if err == nil {
			kit.Rec.Violation("regression: suffixed partition prefix collision")
			t.Fatalf("C06 violated: with a region-suffixing metastore a session for %q decrypted a record of %q (key id %q) to %q", pair[0], pair[1], rec.Key.ParentKeyMeta.ID, out)
		}
	}
	kit.Rec.Enumerated(3, 3)
}
