// Package c06: partition isolation - a session never decrypts another partition's records.
package c06

import (
	"bytes"
	"context"
	"fmt"
	"strings"
	"testing"

	"github.com/aws/aws-sdk-go/aws"
	"github.com/aws/aws-sdk-go/aws/session"
	"github.com/godaddy/asherah/go/appencryption"
	"github.com/godaddy/asherah/go/appencryption/pkg/crypto/aead"
	"github.com/godaddy/asherah/go/appencryption/pkg/kms"
	v1persistence "github.com/godaddy/asherah/go/appencryption/plugins/aws-v1/persistence"
	v2metastore "github.com/godaddy/asherah/go/appencryption/plugins/aws-v2/dynamodb/metastore"
	"pgregory.net/rapid"
	"verif/fakes"
	"verif/kit"
)

func TestMain(m *testing.M) {
	kit.Main(m, "C06", "exploration",
		"rapid-drawn (service, product, region suffix) and PAIRS of distinct partition ids constructed adversarially rather than filtered: Q = P + '_' + service + '_' + product (+ anything), Q = P + '_' + anything, prefixes/suffixes of each other, ids equal up to letter case / surrounding blanks / Unicode composition, ids that differ only in bytes that are not valid UTF-8, ids embedding _IK_ / _SK_ / the region / underscores at every boundary, non-ASCII, plus uniform pairs; "+
			"with a plain store, a region-suffixing harness store, and both DynamoDB metastores over the semantic fake with region suffix on; cache states: P cold / warm, Q's key already in a shared IK cache, session cache, no cache. "+
			"Oracle: a session for P given a record produced for Q must return an error (any non-error result is a violation, reported with whether the bytes equal Q's payload); both directions are tried, with one session open at a time and with both partitions' sessions open together, sessions closed once or twice (explicit + deferred Close); GetSession(\"\") is refused; a record of P itself still decrypts (no vacuous rejection). "+
			"One evaluation = one pair. Non-trivial = the key id of Q's record and P's own key id share a prefix of at least len(\"_IK_\"+P) bytes, or suffixing is on; distinct = (store kind, construction class, cache state, ids)",
		"region suffixes are AWS region names (no underscore)", "that P can read its own records written under another region's suffix is not asserted")
}

var ctx = context.Background()

type env struct {
	kind   string
	store  func() appencryption.Metastore
	suffix string
	// legacy: the same key table as seen by a deployment that does not suffix its key ids (the state a
	// deployment is in while it moves to region suffixes: its older records name un-suffixed keys)
	legacy func() appencryption.Metastore
}

func regions() []string { return []string{"us-west-2", "eu-central-1", "ap-southeast-2"} }

func drawEnv(t *rapid.T) env {
	kind := rapid.SampledFrom([]string{"plain", "suffixed-store", "suffixed-store", "suffixed-store-with-unsuffixed-records", "dynamodb-v1-suffix", "dynamodb-v2-suffix", "dynamodb-v2-plain"}).Draw(t, "store")
	region := rapid.SampledFrom(regions()).Draw(t, "region")
	switch kind {
	case "plain":
		st := kit.NewStore(&kit.CallLog{})
		return env{kind, func() appencryption.Metastore { return st }, "", nil}
	case "suffixed-store":
		st := kit.NewStore(&kit.CallLog{})
		st.Suffix = region
		return env{kind, func() appencryption.Metastore { return st }, region, nil}
	case "suffixed-store-with-unsuffixed-records":
		st := kit.NewStore(&kit.CallLog{})
		st.Suffix = region
		st.SuffixFor = map[string]string{"legacy": ""}
		return env{kind, func() appencryption.Metastore { return st }, region, func() appencryption.Metastore { return st.For("legacy") }}
	case "dynamodb-v1-suffix":
		d := fakes.NewDynamo("EncryptionKey", region)
		sess := session.Must(session.NewSession(&aws.Config{Region: aws.String(region)}))
		ms := v1persistence.NewDynamoDBMetastore(sess, v1persistence.WithClient(fakes.DynamoV1{D: d}), v1persistence.WithDynamoDBRegionSuffix(true))
		return env{kind, func() appencryption.Metastore { return ms }, region, nil}
	default:
		d := fakes.NewDynamo("EncryptionKey", region)
		on := kind == "dynamodb-v2-suffix"
		ms, err := v2metastore.NewDynamoDB(v2metastore.WithDynamoDBClient(fakes.DynamoV2{D: d}), v2metastore.WithRegionSuffix(on))
		if err != nil {
			t.Fatalf("NewDynamoDB: %v", err)
		}
		s := ""
		if on {
			s = region
		}
		return env{kind, func() appencryption.Metastore { return ms }, s, nil}
	}
}

var atoms = []string{strings.Repeat("L", 250), strings.Repeat("L", 251), "a", "b", "ab", "_", "__", "IK", "SK", "_IK_", "_SK_", "é", "0", "A", "a", " ", "-", "us-west-2", "part"}

func drawWord(t *rapid.T, label string, extra ...string) string {
	pool := append(append([]string{}, atoms...), extra...)
	n := rapid.IntRange(1, 3).Draw(t, label+"N")
	var sb strings.Builder
	for i := 0; i < n; i++ {
		sb.WriteString(rapid.SampledFrom(pool).Draw(t, label))
	}
	return sb.String()
}

// drawPair constructs two distinct partition ids and names the construction.
func drawPair(t *rapid.T, service, product, region string, byteIDs bool) (p, q, class string) {
	p = drawWord(t, "p", service, product)
	sp := "_" + service + "_" + product
	switch rapid.IntRange(0, 14).Draw(t, "class") {
	case 13, 14:
		// ids that differ only in something a formatting function would interpret (ids are data, never formats)
		v := rapid.SampledFrom([][2]string{{"%s", "%v"}, {"%v", "%s"}, {"%[1]s", "%[1]v"}, {"%%", "%"}, {"%d", "%x"}, {"%s%s", "%s%v"}}).Draw(t, "verbs")
		tail := rapid.SampledFrom([]string{"", "b", "_" + region}).Draw(t, "verbTail")
		p, q, class = p+v[0]+tail, p+v[1]+tail, "differ-in-format-verb"
	case 0:
		q, class = p+sp, "P+_service_product"
	case 1:
		q, class = p+sp+"_"+drawWord(t, "tail", region), "P+_service_product_+tail"
	case 2:
		q, class = p+sp+"_"+region, "P+_service_product_region"
	case 3:
		q, class = p+"_"+drawWord(t, "tail", service, product, region), "P+_+tail"
	case 4:
		q, class = p+drawWord(t, "tail", service, product), "P+tail"
	case 5:
		q, class = drawWord(t, "head", service, product)+p, "head+P"
	case 6:
		q, class = p+"_"+region, "P+_region"
	case 7:
		q, class = strings.TrimSuffix(p, sp), "P-without-suffix"
	case 12:
		// ids are byte strings: two ids that differ only in bytes that are not valid UTF-8 are different ids
		// (only with stores that take arbitrary byte strings as ids)
		if !byteIDs {
			q, class = p+sp, "P+_service_product"
			break
		}
		p += rapid.SampledFrom([]string{"\xe9", "\x80", "\xff\xfe"}).Draw(t, "badByte")
		q = p[:len(p)-1] + string([]byte{p[len(p)-1] ^ 0x01})
		class = "differ-in-invalid-utf8-byte"
	case 10, 11:
		// ids that a careless normalisation (case folding, trimming, Unicode composition) would identify
		if !strings.ContainsAny(p, "abLIKSAé") {
			p += "aB"
		}
		switch rapid.IntRange(0, 5).Draw(t, "norm") {
		case 0:
			q = strings.ToLower(p)
		case 1:
			q = strings.ToUpper(p)
		case 2:
			q = p + " "
		case 3:
			q = " " + p
		case 4:
			q = strings.ReplaceAll(p, "é", "e\u0301")
		default:
			q = strings.Map(func(r rune) rune {
				if r >= 'a' && r <= 'z' {
					return r - 32
				}
				if r >= 'A' && r <= 'Z' {
					return r + 32
				}
				return r
			}, p)
		}
		class = "normalisation-variant"
	default:
		q, class = drawWord(t, "q", service, product), "uniform"
	}
	if q == p || q == "" {
		q, class = p+"x", "P+x"
	}
	return
}

func TestPairs(t *testing.T) {
	kit.Check(t, 8000, 320000, func(t *rapid.T) {
		e := drawEnv(t)
		// service and product are fixed per deployment; names ending in the region string make the
		// underscore-joined key-id scheme itself ambiguous and are not generated
		service := strings.ReplaceAll(drawWord(t, "service"), "us-west-2", "svc")
		product := strings.ReplaceAll(drawWord(t, "product"), "us-west-2", "prod")
		p, q, class := drawPair(t, service, product, e.suffix, !strings.HasPrefix(e.kind, "dynamodb"))
		cache := rapid.SampledFrom([]string{"default", "shared-ik", "shared-ik-lru1", "session-cache", "no-cache"}).Draw(t, "cache")
		warm := rapid.Bool().Draw(t, "warmP")
		pol := appencryption.NewCryptoPolicy()
		switch cache {
		case "shared-ik":
			pol.SharedIntermediateKeyCache = true
		case "shared-ik-lru1":
			pol.SharedIntermediateKeyCache, pol.IntermediateKeyCacheEvictionPolicy, pol.IntermediateKeyCacheMaxSize = true, "lru", 1
		case "session-cache":
			pol.CacheSessions, pol.SessionCacheMaxSize = true, 4
		case "no-cache":
			pol.CacheSystemKeys, pol.CacheIntermediateKeys = false, false
		}
		k, err := kms.NewStatic("thisIsAStaticMasterKeyForTesting", aead.NewAES256GCM())
		if err != nil {
			t.Fatalf("kms: %v", err)
		}
		defer k.Close()
		secrets := kit.NewTracker()
		f := appencryption.NewSessionFactory(&appencryption.Config{Service: service, Product: product, Policy: pol}, e.store(), k, aead.NewAES256GCM(), appencryption.WithSecretFactory(secrets))
		defer f.Close()
		desc := fmt.Sprintf("store=%s suffix=%q service=%q product=%q P=%q Q=%q class=%s cache=%s warmP=%v", e.kind, e.suffix, service, product, p, q, class, cache, warm)
		bad := func(format string, args ...any) {
			msg := fmt.Sprintf(format, args...)
			kit.Rec.Violation(msg)
			t.Fatalf("C06 violated: %s\n  %s", msg, desc)
		}
		if s, err := f.GetSession(""); err == nil {
			s.Close()
			bad("GetSession(\"\") was not refused")
		}
		// callers commonly close a session both explicitly and through a defer: harmless, and it must stay so
		doubleClose := rapid.IntRange(0, 3).Draw(t, "doubleClose") == 0
		enc := func(part string, payload []byte) *appencryption.DataRowRecord {
			s, err := f.GetSession(part)
			if err != nil {
				t.Fatalf("GetSession(%q): %v", part, err)
			}
			defer s.Close()
			if doubleClose {
				defer s.Close()
			}
			r, err := s.Encrypt(ctx, payload)
			if err != nil {
				t.Fatalf("encrypt for %q: %v", part, err)
			}
			return r
		}
		payQ, payP := []byte("secret of Q: "+q), []byte("secret of P: "+p)
		recQ := enc(q, payQ)
		var recP *appencryption.DataRowRecord
		if warm {
			recP = enc(p, payP)
		}
		cross := func(reader string, rec *appencryption.DataRowRecord, owner string, ownerPayload []byte) {
			s, err := f.GetSession(reader)
			if err != nil {
				t.Fatalf("GetSession(%q): %v", reader, err)
			}
			defer s.Close()
			out, err := s.Decrypt(ctx, *rec)
			if err == nil {
				bad("a session for partition %q decrypted a record produced for partition %q (key id %q) without error; returned bytes equal %q's payload: %v",
					reader, owner, rec.Key.ParentKeyMeta.ID, owner, bytes.Equal(out, ownerPayload))
			}
		}
		cross(p, recQ, q, payQ)
		if recP == nil {
			recP = enc(p, payP)
		}
		cross(q, recP, p, payP)
		// both partitions' sessions open at the same time (two requests in flight): each still is its own partition's session
		{
			sP, errP := f.GetSession(p)
			sQ, errQ := f.GetSession(q)
			if errP != nil || errQ != nil {
				t.Fatalf("GetSession: %v %v", errP, errQ)
			}
			recQ2, err := sQ.Encrypt(ctx, payQ)
			if err != nil {
				bad("encrypt for %q while a session for %q is open failed: %v", q, p, err)
			}
			if out, err := sP.Decrypt(ctx, *recQ2); err == nil {
				bad("with both sessions open, the session for %q decrypted a record just produced for %q (key id %q); bytes equal its payload: %v", p, q, recQ2.Key.ParentKeyMeta.ID, bytes.Equal(out, payQ))
			}
			if out, err := sQ.Decrypt(ctx, *recP); err == nil {
				bad("with both sessions open, the session for %q decrypted a record produced for %q (key id %q); bytes equal its payload: %v", q, p, recP.Key.ParentKeyMeta.ID, bytes.Equal(out, payP))
			}
			if out, err := sP.Decrypt(ctx, *recP); err != nil || !bytes.Equal(out, payP) {
				bad("with both sessions open, partition %q cannot decrypt its own record: %v", p, err)
			}
			sP.Close()
			sQ.Close()
		}
		// sanity: isolation is not vacuous - each partition still reads its own record
		for _, c := range []struct {
			part string
			rec  *appencryption.DataRowRecord
			pay  []byte
		}{{p, recP, payP}, {q, recQ, payQ}} {
			s, _ := f.GetSession(c.part)
			out, err := s.Decrypt(ctx, *c.rec)
			s.Close()
			if err != nil || !bytes.Equal(out, c.pay) {
				bad("partition %q cannot decrypt its own record: %v", c.part, err)
			}
		}
		if e.legacy != nil {
			// records both partitions wrote before the deployment turned region suffixes on: they name un-suffixed keys,
			// which a suffixed session accepts for ITS OWN partition only
			fl := appencryption.NewSessionFactory(&appencryption.Config{Service: service, Product: product, Policy: appencryption.NewCryptoPolicy()}, e.legacy(), k, aead.NewAES256GCM(), appencryption.WithSecretFactory(secrets))
			defer fl.Close()
			encL := func(part string, payload []byte) *appencryption.DataRowRecord {
				s, err := fl.GetSession(part)
				if err != nil {
					t.Fatalf("GetSession(%q) without suffix: %v", part, err)
				}
				defer s.Close()
				r, err := s.Encrypt(ctx, payload)
				if err != nil {
					t.Fatalf("encrypt for %q without suffix: %v", part, err)
				}
				return r
			}
			// the underscore-joined scheme itself cannot tell "reader's key in region T" from "owner's un-suffixed key"
			// when the latter reads <reader's un-suffixed id>_T: such pairs are not judged (see DESIGN 7.5)
			ambiguous := func(reader, owner string) bool {
				tail, ok := strings.CutPrefix(kit.RefIKID(owner, service, product, ""), kit.RefIKID(reader, service, product, "")+"_")
				return ok && tail != "" && !strings.Contains(tail, "_")
			}
			for _, c := range []struct {
				reader, owner string
				rec           *appencryption.DataRowRecord
				pay           []byte
			}{{p, q, encL(q, payQ), payQ}, {q, p, encL(p, payP), payP}} {
				if ambiguous(c.reader, c.owner) {
					kit.Rec.Label("unsuffixed-record:format-ambiguous-pair-skipped")
					continue
				}
				s, err := f.GetSession(c.reader)
				if err != nil {
					t.Fatalf("GetSession(%q): %v", c.reader, err)
				}
				out, err := s.Decrypt(ctx, *c.rec)
				s.Close()
				if err == nil {
					bad("a region-suffixed session for partition %q decrypted a record that partition %q wrote before suffixes were turned on (key id %q); returned bytes equal %q's payload: %v",
						c.reader, c.owner, c.rec.Key.ParentKeyMeta.ID, c.owner, bytes.Equal(out, c.pay))
				}
				// not vacuous: the owner's suffixed session does read it
				if so, err := f.GetSession(c.owner); err == nil {
					if out, err := so.Decrypt(ctx, *c.rec); err == nil && bytes.Equal(out, c.pay) {
						kit.Rec.Label("unsuffixed-record:owner-reads-it")
					}
					so.Close()
				}
			}
		}
		idP, idQ := recP.Key.ParentKeyMeta.ID, recQ.Key.ParentKeyMeta.ID
		common := 0
		for common < len(idP) && common < len(idQ) && idP[common] == idQ[common] {
			common++
		}
		nt := e.suffix != "" || common >= len("_IK_"+p) || common >= len("_IK_"+q)
		kit.Rec.Case(desc, nt, func() any {
			return map[string]any{"store": e.kind, "suffix": e.suffix, "service": service, "product": product, "P": p, "Q": q, "class": class, "cache": cache, "key_id_P": idP, "key_id_Q": idQ}
		})
		kit.Rec.Label("class:" + class)
		kit.Rec.Label("store:" + e.kind)
	})
}
