package c10

import (
	"fmt"
	"testing"

	"pgregory.net/rapid"
	"verif/kit"
	"verif/world"
)

// TestFaultsAfterPlaintextExists fails, in turn, every metastore/KMS call, every AEAD
// call, every secret allocation and every open / re-protect of a key secret of an encrypt and of a decrypt in the cold, warm
// and rotating scenarios, and then inspects the retained buffers.
func TestFaultsAfterPlaintextExists(t *testing.T) {
	kit.Check(t, 120, 1600, func(t *rapid.T) {
		op := rapid.SampledFrom([]string{"encrypt", "decrypt"}).Draw(t, "op")
		states := world.KeyStates
		if op == "decrypt" {
			states = []string{"warm-held", "warm-fresh", "stale", "expired", "ik-revoked", "sk-revoked", "ext-rotated", "ext-rotated-sk"}
		}
		sc := world.DrawScenario(t, states)
		clone := func(faults ...world.FaultAt) *world.FaultScenario {
			c := *sc
			c.Faults = faults
			return &c
		}
		seq, aeadN, allocN, readsN := runChecked(t, clone(), op)
		for i, c := range seq {
			for _, k := range world.ApplicableFaults(c) {
				runChecked(t, clone(world.FaultAt{Target: "ext", Rel: i, Kind: k}), op)
			}
		}
		for i := 0; i < aeadN; i++ {
			runChecked(t, clone(world.FaultAt{Target: "aead", Rel: i}), op)
		}
		for i := 0; i < allocN; i++ {
			runChecked(t, clone(world.FaultAt{Target: "alloc", Rel: i}), op)
			runChecked(t, clone(world.FaultAt{Target: "alloc-consumed", Rel: i}), op)
		}
		// a key secret cannot be made readable, or cannot be made inaccessible again after its
		// callback ran (the accessor then returns the callback's result together with an error)
		for i := 0; i < readsN; i++ {
			runChecked(t, clone(world.FaultAt{Target: "sec-open", Rel: i}), op)
			runChecked(t, clone(world.FaultAt{Target: "sec-release", Rel: i}), op)
		}
	})
}

func runChecked(t *rapid.T, sc *world.FaultScenario, op string) ([]kit.Call, int, int, int) {
	var c *checker
	ev := sc.Exec(t, func(sc *world.FaultScenario) *world.Event {
		// buffers handed out during setup were checked by the fault-free histories; start after them
		c = &checker{w: sc.W, paths: map[string]bool{}, kmsSeen: len(sc.W.KMS.RetainedAll()), srcSeen: len(sc.W.Secrets.Sources())}
		if op == "decrypt" {
			e, _ := sc.W.Decrypt(sc.Sess, sc.Rec0, false, false)
			return e
		}
		e, _ := sc.W.Encrypt(sc.Sess, []byte("payload-under-faults"), false, false)
		return e
	})
	w := sc.W
	defer w.Teardown()
	if msg := c.check(ev); msg != "" {
		kit.Rec.Violation(msg)
		t.Fatalf("C10 violated: %s\n  scenario: %s op=%s\n  calls of the operation: %v\n%s", msg, sc.Describe(), op, sc.OpCalls(), w.Describe())
	}
	outcome := "error"
	if ev.Err == nil {
		outcome = "ok"
	}
	kit.Rec.Case(fmt.Sprintf("fault|%s|%s|%s|%v|%s", op, sc.State, world.CacheClass(sc.Fixed.Policies[0]), sc.Faults, outcome), c.inspected > 0 && (len(sc.Faults) == 0 || sc.AnyFired()), func() any {
		return map[string]any{"op": op, "state": sc.State, "faults": fmt.Sprint(sc.Faults), "outcome": outcome, "key_buffers_inspected": c.inspected}
	})
	if len(sc.Faults) > 0 {
		kit.Rec.Label("fault:" + sc.Faults[0].Target + ":" + outcome)
	}
	return sc.OpCalls(), w.AEAD.Len() - sc.ABase, w.Secrets.Count() - sc.SBase, w.Secrets.Reads() - sc.RBase
}
