// Package c10: transient plaintext key copies on the Go heap are wiped before the call returns.
package c10

import (
	"fmt"
	"sort"
	"strings"
	"testing"
	"time"

	"github.com/godaddy/asherah/go/securememory/memguard"
	"github.com/godaddy/asherah/go/securememory/protectedmemory"
	"pgregory.net/rapid"
	"verif/kit"
	"verif/world"
)

func TestMain(m *testing.M) {
	kit.Main(m, "C10", "exploration",
		"(1) rapid state machine over the real SDK with the REAL memguard / protectedmemory factories behind a delegating tracker; the spy AEAD and spy KMS retain every slice they hand out. "+
			"Histories cover every unwrap path (cache hit and miss, rotation, duplicate-key fallback, decrypt of old records, restarts). Oracle after every public call: every retained slice whose content was key material "+
			"(its fingerprint was later used as an AEAD key or given to the secret factory) is all zero, except the call's own result (identified by backing array). "+
			"(2) the same check under every single injected fault position (metastore/KMS call, AEAD call, secret allocation, a key secret that cannot be opened for reading, a key secret that cannot be re-protected after its callback ran) of the cold/warm/rotating encrypt and decrypt scenarios - in particular failures after the plaintext exists. "+
			"(3) both AWS KMS plugins over fake regional clients that retain the data-key Plaintext slices they return, for EncryptKey and DecryptKey, with per-region failures, the keys named by key ARN and by alias ARN (responses always name the key ARN); plus a healthy but slow preferred region (1.3 s real time): once the call has returned and everything it started has finished, only the copy returned to the caller is left; a context cancelled while a region is still wrapping; with a debug logger installed nothing the plugins log contains data-key plaintext (raw / hex / base64 / decimal list), also when another region has to serve; an AEAD that panics while the system key is sealed (the caller recovers). "+
			"One evaluation = one history / fault run / plugin case. Non-trivial = at least one retained key buffer was inspected; distinct = distinct (path class set, cache class) or (scenario, fault) or plugin case",
		"retention happens at the AEAD/KMS/SecretFactory interfaces: buffers the SDK allocates and never passes through them are out of sight", "wipe = every byte zero when the public call has returned")
}

var weights = map[string]int{"encrypt": 8, "decrypt": 8, "open": 1, "close": 2, "restart": 1, "advance": 4, "revoke": 2, "rotate": 2, "pressure": 1}

func TestWorldMemguard(t *testing.T) {
	kit.Steps(30)
	kit.Check(t, 150, 4800, func(t *rapid.T) { runHistory(t, "memguard") })
}

func TestWorldProtectedMemory(t *testing.T) {
	kit.Steps(30)
	kit.Check(t, 150, 4800, func(t *rapid.T) { runHistory(t, "protectedmemory") })
}

func TestWorldTracker(t *testing.T) {
	kit.Steps(40)
	kit.Check(t, 500, 16000, func(t *rapid.T) { runHistory(t, "tracker") })
}

func runHistory(t *rapid.T, factory string) {
	w := world.New(t, world.Options{SmallPayloads: false})
	switch factory {
	case "memguard":
		w.Secrets.Inner = new(memguard.SecretFactory)
	case "protectedmemory":
		w.Secrets.Inner = new(protectedmemory.SecretFactory)
	}
	defer w.Teardown()
	c := &checker{w: w, paths: map[string]bool{}}
	w.OnOp = func(ev *world.Event) {
		if ev.Kind == "encrypt" || ev.Kind == "decrypt" {
			if ev.Err != nil {
				fail(t, w, "%s failed in a fault-free history: %v", ev.Kind, ev.Err)
			}
			if msg := c.check(ev); msg != "" {
				fail(t, w, "%s", msg)
			}
		}
	}
	acts := w.Actions()
	// another process whose host clock runs two hours ahead rotates the keys: its rows are dated in
	// our future, and we have to unwrap them like any others
	acts["rotateFromFastClock"] = func(t *rapid.T) {
		w.ExtClockAhead = 2 * time.Hour
		w.ExternalRotate(w.PickPart("part"), rapid.Bool().Draw(t, "newSK"))
		w.ExtClockAhead = 0
	}
	t.Repeat(kit.Weighted(acts, weights, nil))
	var ps []string
	for p := range c.paths {
		ps = append(ps, p)
	}
	sort.Strings(ps)
	classes := map[string]bool{}
	for _, p := range w.Procs {
		classes[world.CacheClass(p.Policy)] = true
	}
	var cs []string
	for k := range classes {
		cs = append(cs, k)
	}
	sort.Strings(cs)
	kit.Rec.Case(factory+"|"+strings.Join(ps, ",")+"|"+strings.Join(cs, "+"), c.inspected > 0, func() any {
		return map[string]any{"factory": factory, "paths": ps, "key_buffers_inspected": c.inspected, "history": head(w.History(), 50)}
	})
	kit.Rec.LabelN("key-buffers-inspected:"+factory, int64(c.inspected))
}

func head(s []string, n int) []string {
	if len(s) > n {
		return append(s[:n:n], fmt.Sprintf("... %d more", len(s)-n))
	}
	return s
}

func fail(t *rapid.T, w *world.World, format string, args ...any) {
	msg := fmt.Sprintf(format, args...)
	kit.Rec.Violation(msg)
	t.Fatalf("C10 violated: %s\n%s", msg, w.Describe())
}

// checker inspects, after a public call, the buffers the spies handed out during it.
type checker struct {
	w         *world.World
	kmsSeen   int
	srcSeen   int
	inspected int
	paths     map[string]bool
}

func (c *checker) check(ev *world.Event) string {
	w := c.w
	// fingerprints that are key material: AEAD keys, secret contents, buffers given to SecretFactory.New
	isKey := func(fp string) bool {
		if _, ok := w.AEAD.KeyBytes[fp]; ok {
			return true
		}
		return w.Secrets.HasFp(fp)
	}
	for _, r := range w.AEAD.RetainedSince(ev.AEADFrom) {
		if kit.SameBacking(r.Buf, ev.Out) {
			continue // the call's own result
		}
		if !isKey(r.KeyFp) {
			continue
		}
		c.inspected++
		c.paths[ev.Kind+":aead-unwrap"] = true
		if !kit.AllZero(r.Buf) {
			return fmt.Sprintf("after %s returned (err=%v), a %d-byte buffer returned by AEAD.Decrypt (call #%d) that held plaintext key %s still holds non-zero bytes", ev.Kind, ev.Err, len(r.Buf), r.Seq, r.KeyFp)
		}
	}
	kr := w.KMS.RetainedAll()
	for _, r := range kr[c.kmsSeen:] {
		c.inspected++
		c.paths[ev.Kind+":kms-unwrap"] = true
		if !kit.AllZero(r.Buf) {
			return fmt.Sprintf("after %s returned (err=%v), the %d-byte system key plaintext returned by KMS.DecryptKey (call #%d) still holds non-zero bytes", ev.Kind, ev.Err, len(r.Buf), r.Seq)
		}
	}
	c.kmsSeen = len(kr)
	src := w.Secrets.Sources()
	for _, r := range src[c.srcSeen:] {
		c.inspected++
		c.paths[ev.Kind+":factory-source"] = true
		if !kit.AllZero(r.Buf) {
			return fmt.Sprintf("after %s returned (err=%v), a %d-byte buffer that was passed to SecretFactory.New (key %s) still holds non-zero bytes", ev.Kind, ev.Err, len(r.Buf), r.KeyFp)
		}
	}
	c.srcSeen = len(src)
	return ""
}
