package c10

import (
	"context"
	"fmt"
	"testing"

	awsv2 "github.com/aws/aws-sdk-go-v2/aws"
	kmsv2svc "github.com/aws/aws-sdk-go-v2/service/kms"
	"github.com/godaddy/asherah/go/appencryption"
	"github.com/godaddy/asherah/go/appencryption/pkg/crypto/aead"
	v1kms "github.com/godaddy/asherah/go/appencryption/plugins/aws-v1/kms"
	v2kms "github.com/godaddy/asherah/go/appencryption/plugins/aws-v2/kms"
	"verif/fakes"
	"verif/kit"
)

func buildPlugin(kind string, w *fakes.KMSWorld, regions []string, pref string) (appencryption.KeyManagementService, error) {
	arn := map[string]string{}
	for _, r := range regions {
		arn[r] = w.Regions[r].ARN
	}
	if kind == "v1" {
		k, err := v1kms.NewAWS(aead.NewAES256GCM(), pref, arn)
		if err != nil {
			return nil, err
		}
		for i := range k.Clients {
			k.Clients[i].KMS = fakes.KMSV1{R: w.Regions[k.Clients[i].Region]}
		}
		return k, nil
	}
	return v2kms.NewBuilder(aead.NewAES256GCM(), arn).WithPreferredRegion(pref).WithAWSConfig(awsv2.Config{}).
		WithKMSFactory(func(cfg awsv2.Config, _ ...func(*kmsv2svc.Options)) v2kms.AWSClient {
			return fakes.KMSV2{R: w.Regions[cfg.Region]}
		}).Build()
}

// TestAWSPluginsWipeDataKey: both AWS KMS plugins over fake regional endpoints that
// retain every Plaintext slice they hand out, for EncryptKey and DecryptKey, with
// every subset of regions failing (enumerated, 1..3 regions).
func TestAWSPluginsWipeDataKey(t *testing.T) {
	ctx := context.Background()
	regionsAll := []string{"us-west-2", "us-east-1", "eu-west-1"}
	var total, nontrivial int64
	for n := 1; n <= 3; n++ {
		regions := regionsAll[:n]
		w := fakes.NewKMSWorld(regions)
		for _, kind := range []string{"v1", "v2"} {
			for _, pref := range regions {
				p, err := buildPlugin(kind, w, regions, pref)
				if err != nil {
					t.Fatalf("build %s: %v", kind, err)
				}
				for genMask := 0; genMask < 1<<n; genMask++ {
					for encMask := 0; encMask < 1<<n; encMask++ {
						w.Reset()
						for i, r := range regions {
							k := w.Regions[r]
							k.FailGenerate, k.FailEncrypt, k.FailDecrypt, k.WrongDecrypt = genMask&(1<<i) != 0, encMask&(1<<i) != 0, false, false
						}
						sk := make([]byte, 32)
						for i := range sk {
							sk[i] = byte(i + 1)
						}
						env, err := p.EncryptKey(ctx, sk)
						total++
						bad := func(when string) {
							for _, ret := range w.Retained {
								if !kit.AllZero(ret.Buf) {
									msg := fmt.Sprintf("%s plugin: the data-key plaintext returned by %s.%s still holds key bytes when %s returns", kind, ret.Region, ret.Op, when)
									kit.Rec.Violation(msg)
									t.Fatalf("C10 violated: %s (regions=%d pref=%s failGenerate=%b failEncrypt=%b)", msg, n, pref, genMask, encMask)
								}
							}
						}
						bad("EncryptKey")
						if len(w.Retained) > 0 {
							nontrivial++
						}
						if err != nil {
							continue
						}
						for decMask := 0; decMask < 1<<n; decMask++ {
							for wrongMask := 0; wrongMask < 1<<n; wrongMask++ {
								if decMask&wrongMask != 0 {
									continue
								}
								w.Reset()
								for i, r := range regions {
									k := w.Regions[r]
									k.FailDecrypt, k.WrongDecrypt = decMask&(1<<i) != 0, wrongMask&(1<<i) != 0
								}
								_, derr := p.DecryptKey(ctx, env)
								total++
								if len(w.Retained) > 0 {
									nontrivial++
								}
								bad(fmt.Sprintf("DecryptKey (err=%v, failDecrypt=%b wrongBytes=%b)", derr, decMask, wrongMask))
							}
						}
					}
				}
			}
		}
	}
	kit.Rec.Enumerated(total, nontrivial)
	kit.Rec.LabelN("aws-plugin-cases", total)
}
