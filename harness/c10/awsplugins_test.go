package c10

import (
	"context"
	"fmt"
	"sync"
	"testing"
	"time"

	awsv2 "github.com/aws/aws-sdk-go-v2/aws"
	kmsv2svc "github.com/aws/aws-sdk-go-v2/service/kms"
	"github.com/godaddy/asherah/go/appencryption"
	"github.com/godaddy/asherah/go/appencryption/pkg/crypto/aead"
	applog "github.com/godaddy/asherah/go/appencryption/pkg/log"
	v1kms "github.com/godaddy/asherah/go/appencryption/plugins/aws-v1/kms"
	v2kms "github.com/godaddy/asherah/go/appencryption/plugins/aws-v2/kms"
	"verif/fakes"
	"verif/kit"
)

func buildPlugin(kind string, w *fakes.KMSWorld, regions []string, pref string) (appencryption.KeyManagementService, error) {
	arn := map[string]string{}
	for r, id := range w.ARNMap() {
		arn[r] = id
	}
	for r := range arn {
		keep := false
		for _, x := range regions {
			keep = keep || x == r
		}
		if !keep {
			delete(arn, r)
		}
	}
	if kind == "v1" {
		k, err := v1kms.NewAWS(aead.NewAES256GCM(), pref, arn)
		if err != nil {
			return nil, err
		}
		for i := range k.Clients {
			k.Clients[i].KMS = fakes.KMSV1{R: w.Regions[k.Clients[i].Region]}
		}
		return k, nil
	}
	return v2kms.NewBuilder(aead.NewAES256GCM(), arn).WithPreferredRegion(pref).WithAWSConfig(awsv2.Config{}).
		WithKMSFactory(func(cfg awsv2.Config, _ ...func(*kmsv2svc.Options)) v2kms.AWSClient {
			return fakes.KMSV2{R: w.Regions[cfg.Region]}
		}).Build()
}

// TestAWSPluginsWipeDataKey: both AWS KMS plugins over fake regional endpoints that
// retain every Plaintext slice they hand out, for EncryptKey and DecryptKey, with
// every subset of regions failing (enumerated, 1..3 regions).
func TestAWSPluginsWipeDataKey(t *testing.T) {
	ctx := context.Background()
	regionsAll := []string{"us-west-2", "us-east-1", "eu-west-1"}
	var total, nontrivial int64
	for n := 1; n <= 4; n++ {
		// the fourth pass: three regions again, the application names its keys by alias ARN (a response names the key by its key ARN)
		regions := regionsAll[:min(n, 3)]
		w := fakes.NewKMSWorld(regions)
		if n == 4 {
			w.UseAliases()
		}
		n := len(regions)
		for _, kind := range []string{"v1", "v2"} {
			for _, pref := range regions {
				p, err := buildPlugin(kind, w, regions, pref)
				if err != nil {
					t.Fatalf("build %s: %v", kind, err)
				}
				for genMask := 0; genMask < 1<<n; genMask++ {
					for encMask := 0; encMask < 1<<n; encMask++ {
						w.Reset()
						for i, r := range regions {
							k := w.Regions[r]
							k.FailGenerate, k.FailEncrypt, k.FailDecrypt, k.WrongDecrypt = genMask&(1<<i) != 0, encMask&(1<<i) != 0, false, false
						}
						sk := make([]byte, 32)
						for i := range sk {
							sk[i] = byte(i + 1)
						}
						env, err := p.EncryptKey(ctx, sk)
						total++
						bad := func(when string) {
							for _, ret := range w.Retained {
								if !kit.AllZero(ret.Buf) {
									msg := fmt.Sprintf("%s plugin: the data-key plaintext returned by %s.%s still holds key bytes when %s returns", kind, ret.Region, ret.Op, when)
									kit.Rec.Violation(msg)
									t.Fatalf("C10 violated: %s (regions=%d pref=%s failGenerate=%b failEncrypt=%b)", msg, n, pref, genMask, encMask)
								}
							}
						}
						bad("EncryptKey")
						if len(w.Retained) > 0 {
							nontrivial++
						}
						if err != nil {
							continue
						}
						for decMask := 0; decMask < 1<<n; decMask++ {
							for wrongMask := 0; wrongMask < 1<<n; wrongMask++ {
								if decMask&wrongMask != 0 {
									continue
								}
								w.Reset()
								for i, r := range regions {
									k := w.Regions[r]
									k.FailDecrypt, k.WrongDecrypt = decMask&(1<<i) != 0, wrongMask&(1<<i) != 0
								}
								_, derr := p.DecryptKey(ctx, env)
								total++
								if len(w.Retained) > 0 {
									nontrivial++
								}
								bad(fmt.Sprintf("DecryptKey (err=%v, failDecrypt=%b wrongBytes=%b)", derr, decMask, wrongMask))
							}
						}
					}
				}
			}
		}
	}
	kit.Rec.Enumerated(total, nontrivial)
	kit.Rec.LabelN("aws-plugin-cases", total)
}

// retainingAEAD keeps every plaintext the plugin's AEAD hands out.
type retainingAEAD struct {
	appencryption.AEAD
	mu  sync.Mutex
	out [][]byte
}

func (a *retainingAEAD) Decrypt(data, key []byte) ([]byte, error) {
	out, err := a.AEAD.Decrypt(data, key)
	if err == nil {
		a.mu.Lock()
		a.out = append(a.out, out)
		a.mu.Unlock()
	}
	return out, err
}

// TestAWSPluginsSlowRegion: a region that is healthy but slow (1.3 s of real time per call).
// Whatever the plugin does meanwhile, once the call has returned and everything it started has
// had time to finish, the only key plaintext left is the one returned to the caller.
func TestAWSPluginsSlowRegion(t *testing.T) {
	ctx := context.Background()
	regions := []string{"us-west-2", "us-east-1"}
	var total int64
	for _, kind := range []string{"v1", "v2"} {
		w := fakes.NewKMSWorld(regions)
		spy := &retainingAEAD{AEAD: aead.NewAES256GCM()}
		arn := w.ARNMap()
		var p appencryption.KeyManagementService
		var err error
		if kind == "v1" {
			k, e := v1kms.NewAWS(spy, regions[0], arn)
			if e == nil {
				for i := range k.Clients {
					k.Clients[i].KMS = fakes.KMSV1{R: w.Regions[k.Clients[i].Region]}
				}
			}
			p, err = k, e
		} else {
			p, err = v2kms.NewBuilder(spy, arn).WithPreferredRegion(regions[0]).WithAWSConfig(awsv2.Config{}).
				WithKMSFactory(func(cfg awsv2.Config, _ ...func(*kmsv2svc.Options)) v2kms.AWSClient {
					return fakes.KMSV2{R: w.Regions[cfg.Region]}
				}).Build()
		}
		if err != nil {
			t.Fatalf("build %s: %v", kind, err)
		}
		sk := []byte("0123456789abcdef0123456789abcdef")
		env, err := p.EncryptKey(ctx, append([]byte(nil), sk...))
		if err != nil {
			t.Fatalf("EncryptKey: %v", err)
		}
		w.Reset()
		w.Regions[regions[0]].Delay = 1300 * time.Millisecond
		got, derr := p.DecryptKey(ctx, env)
		time.Sleep(1700 * time.Millisecond) // anything still in flight finishes
		total++
		if derr != nil || string(got) != string(sk) {
			msg := fmt.Sprintf("%s plugin: DecryptKey with a slow preferred region failed: %v", kind, derr)
			kit.Rec.Violation(msg)
			t.Fatalf("C10 violated: %s", msg)
		}
		for _, ret := range w.Retained {
			if !kit.AllZero(ret.Buf) {
				msg := fmt.Sprintf("%s plugin: the data-key plaintext returned by %s.%s still holds key bytes after DecryptKey returned and all regional calls finished", kind, ret.Region, ret.Op)
				kit.Rec.Violation(msg)
				t.Fatalf("C10 violated: %s", msg)
			}
		}
		spy.mu.Lock()
		for i, o := range spy.out {
			if len(o) > 0 && len(got) > 0 && &o[0] == &got[0] {
				continue // the copy handed to the caller
			}
			if !kit.AllZero(o) {
				msg := fmt.Sprintf("%s plugin: decrypted system key #%d produced by the AEAD (not the one returned to the caller) is still on the heap after DecryptKey returned and all regional calls finished", kind, i)
				kit.Rec.Violation(msg)
				spy.mu.Unlock()
				t.Fatalf("C10 violated: %s", msg)
			}
		}
		spy.mu.Unlock()
		// the caller gives up (context cancelled) while a non-preferred region is still busy wrapping
		// the data key: whenever EncryptKey returns, with whatever result, the data key is gone
		w.Reset()
		w.Regions[regions[0]].Delay = 0
		w.Regions[regions[1]].Delay = 600 * time.Millisecond
		cctx, cancel := context.WithCancel(ctx)
		go func() { time.Sleep(150 * time.Millisecond); cancel() }()
		_, eerr := p.EncryptKey(cctx, append([]byte(nil), sk...))
		total++
		for _, ret := range w.Retained {
			if !kit.AllZero(ret.Buf) {
				msg := fmt.Sprintf("%s plugin: the data-key plaintext (%s.%s) still holds key bytes at the moment EncryptKey returns (err=%v) after its context was cancelled while a regional Encrypt was in flight", kind, ret.Region, ret.Op, eerr)
				kit.Rec.Violation(msg)
				t.Fatalf("C10 violated: %s", msg)
			}
		}
		cancel()
		time.Sleep(700 * time.Millisecond)
		w.Regions[regions[1]].Delay = 0
	}
	kit.Rec.Enumerated(total, total)
	kit.Rec.LabelN("aws-plugin-slow-region", total)
}

// captureLogger keeps every formatted debug line.
type captureLogger struct {
	mu    sync.Mutex
	lines [][]byte
}

func (c *captureLogger) Debugf(format string, v ...interface{}) {
	c.mu.Lock()
	c.lines = append(c.lines, []byte(fmt.Sprintf(format, v...)))
	c.mu.Unlock()
}

// panickyAEAD panics in its n-th Encrypt (a custom AEAD, or a failing random source inside the stock one).
type panickyAEAD struct {
	appencryption.AEAD
	panicAt, n int
}

func (a *panickyAEAD) Encrypt(data, key []byte) ([]byte, error) {
	a.n++
	if a.n-1 == a.panicAt {
		panic("verif: the AEAD panicked while sealing")
	}
	return a.AEAD.Encrypt(data, key)
}

// TestAWSPluginsLogsAndPanics: with a debug logger installed, nothing the plugins log while
// wrapping / unwrapping (all regions healthy, or the preferred region failing so that another one
// serves) contains data-key plaintext in any rendering; and when the AEAD panics while the system
// key is being sealed and the caller recovers, the data key is wiped all the same.
func TestAWSPluginsLogsAndPanics(t *testing.T) {
	ctx := context.Background()
	regions := []string{"us-west-2", "us-east-1", "eu-west-1"}
	var total int64
	logger := &captureLogger{}
	applog.SetLogger(logger)
	defer applog.SetLogger(nil)
	for _, kind := range []string{"v1", "v2"} {
		for failMask := 0; failMask < 4; failMask++ {
			for _, panicAt := range []int{-1, 0} {
				w := fakes.NewKMSWorld(regions)
				aeadImpl := &panickyAEAD{AEAD: aead.NewAES256GCM(), panicAt: panicAt}
				arn := w.ARNMap()
				var p appencryption.KeyManagementService
				var err error
				if kind == "v1" {
					k, e := v1kms.NewAWS(aeadImpl, regions[0], arn)
					if e == nil {
						for i := range k.Clients {
							k.Clients[i].KMS = fakes.KMSV1{R: w.Regions[k.Clients[i].Region]}
						}
					}
					p, err = k, e
				} else {
					p, err = v2kms.NewBuilder(aeadImpl, arn).WithPreferredRegion(regions[0]).WithAWSConfig(awsv2.Config{}).
						WithKMSFactory(func(cfg awsv2.Config, _ ...func(*kmsv2svc.Options)) v2kms.AWSClient {
							return fakes.KMSV2{R: w.Regions[cfg.Region]}
						}).Build()
				}
				if err != nil {
					t.Fatalf("build %s: %v", kind, err)
				}
				w.Regions[regions[0]].FailGenerate = failMask&1 != 0
				w.Regions[regions[1]].FailGenerate = failMask&2 != 0
				logger.mu.Lock()
				logger.lines = nil
				logger.mu.Unlock()
				sk := []byte("0123456789abcdef0123456789abcdef")
				var env []byte
				var recovered any
				func() {
					defer func() { recovered = recover() }()
					env, err = p.EncryptKey(ctx, append([]byte(nil), sk...))
				}()
				total++
				desc := fmt.Sprintf("%s plugin, GenerateDataKey failing in %02b of the first two regions, AEAD panics: %v", kind, failMask, panicAt >= 0)
				for _, ret := range w.Retained {
					if !kit.AllZero(ret.Buf) {
						msg := fmt.Sprintf("%s: the data-key plaintext (%s.%s) still holds key bytes after EncryptKey (err=%v, recovered panic=%v)", desc, ret.Region, ret.Op, err, recovered)
						kit.Rec.Violation(msg)
						t.Fatalf("C10 violated: %s", msg)
					}
				}
				if recovered == nil && err == nil {
					if _, derr := p.DecryptKey(ctx, env); derr != nil {
						t.Fatalf("harness: DecryptKey failed: %v", derr)
					}
				}
				// whatever was logged: no data key in it
				scan := kit.NewScanner()
				for _, ret := range w.Retained {
					if len(ret.Value) == 32 {
						scan.Add(ret.Value, fmt.Sprintf("data key from %s.%s", ret.Region, ret.Op))
					}
				}
				scan.Add(sk, "the system key being wrapped")
				logger.mu.Lock()
				for _, l := range logger.lines {
					if what, enc := scan.Find(l); what != "" {
						msg := fmt.Sprintf("%s: a debug log line contains %s (%s): %.200q", desc, what, enc, l)
						kit.Rec.Violation(msg)
						logger.mu.Unlock()
						t.Fatalf("C10 violated: %s", msg)
					}
				}
				logger.mu.Unlock()
			}
		}
	}
	kit.Rec.Enumerated(total, total)
	kit.Rec.LabelN("aws-plugin-logs-and-panics", total)
}
