// Package c14: racing key creators converge on persisted keys; the metastore is never overwritten.
package c14

import (
	"bytes"
	"fmt"
	"sort"
	"strings"
	"sync"
	"testing"
	"time"

	"github.com/godaddy/asherah/go/appencryption"
	"github.com/godaddy/asherah/go/securememory"
	"pgregory.net/rapid"
	"verif/backing"
	"verif/kit"
	"verif/world"
)

func TestMain(m *testing.M) {
	kit.Main(m, "C14", "exploration",
		"2-3 processes (own SessionFactory, own caches, rapid-drawn cache policies; shared expiry / interval / precision) race 1-2 encrypts each on one or two partitions from start states {cold, SK only, SK+IK expired, IK revoked, SK revoked, SK revoked but not yet noticed, IK / SK revoked with the replacement falling into the revoked key's own creation window (its insert is refused as a duplicate)}, over the harness-owned table or (2/3 of the scenarios) a REAL metastore implementation behind the scheduling wrapper - MemoryMetastore, SQLMetastore (mysql / postgres / oracle dialects over the interpreting database/sql fake), DynamoDB v1 / v2 over the expression-evaluating fake; in a quarter of the scenarios one process's master-key service is slow (one creation-stamp tick passes while it wraps a new system key); a shadow of every acknowledged insert detects a second acknowledged insert of the same (id, created) and any difference between the raw database rows and what was acknowledged, with caches cold or pre-warmed before the state change, at a fixed virtual time so truncated creation stamps collide. "+
			"Each process blocks in its own metastore wrapper before every Load / LoadLatest / Store until a scheduler grants it; between grants exactly one process runs, so a schedule is a sequence of process choices and replays deterministically. "+
			"Schedules are ENUMERATED by stateless depth-first search (re-run the prefix, take the next alternative): completely for 2 processes x 1 encrypt (and x 2 encrypts in the thorough tier), up to a budget otherwise, and drawn by rapid for 3 processes. "+
			"Oracle per schedule: every encrypt returns a record; every record names an IK row and through it an SK row in the final store; the reference decryptor, a fresh process and EVERY OTHER racing process with its warm caches decrypt every record; every row is byte-identical to what it was when first inserted and none disappears; "+
			"every generated key that was not persisted is closed when its encrypt returns. One evaluation = one schedule. Non-trivial = at least one Store was refused in the schedule; distinct = (scenario, schedule)",
		"interleaving granularity = individual metastore calls of processes that share nothing but the store (schedules inside one process are C08)", "virtual clock injected by build overlay")
}

// ---- gate scheduler ------------------------------------------------------------------

const (
	stRunning = iota
	stWaiting
	stDone
)

type gate struct {
	mu     sync.Mutex
	cond   *sync.Cond
	active bool
	state  map[string]int
	grant  map[string]chan struct{}
	op     map[string]string
}

func newGate(actors []string) *gate {
	g := &gate{state: map[string]int{}, grant: map[string]chan struct{}{}, op: map[string]string{}}
	g.cond = sync.NewCond(&g.mu)
	for _, a := range actors {
		g.state[a] = stRunning
		g.grant[a] = make(chan struct{})
	}
	return g
}

// wait is installed as Store.Gate.
func (g *gate) wait(actor, op string) {
	g.mu.Lock()
	if !g.active {
		g.mu.Unlock()
		return
	}
	ch, ok := g.grant[actor]
	if !ok {
		g.mu.Unlock()
		return
	}
	g.state[actor] = stWaiting
	g.op[actor] = op
	g.cond.Broadcast()
	g.mu.Unlock()
	<-ch
}

func (g *gate) done(actor string) {
	g.mu.Lock()
	g.state[actor] = stDone
	g.cond.Broadcast()
	g.mu.Unlock()
}

// next blocks until every process is waiting or done and returns the waiting ones (sorted).
func (g *gate) next() []string {
	g.mu.Lock()
	defer g.mu.Unlock()
	for {
		quiet := true
		for _, s := range g.state {
			if s == stRunning {
				quiet = false
			}
		}
		if quiet {
			break
		}
		g.cond.Wait()
	}
	var w []string
	for a, s := range g.state {
		if s == stWaiting {
			w = append(w, a)
		}
	}
	sort.Strings(w)
	return w
}

func (g *gate) release(actor string) {
	g.mu.Lock()
	g.state[actor] = stRunning
	ch := g.grant[actor]
	g.mu.Unlock()
	ch <- struct{}{}
}

// ---- scenario -------------------------------------------------------------------------

type scenario struct {
	state    string
	prewarm  []bool // per process: caches filled before the state change
	encrypts []int  // per process: number of encrypts in the race
	twoParts bool   // the second process works on another partition for its second encrypt
	newPart  bool   // the race happens on a partition that has no IK yet
	backend  string // "" = the harness-owned table; otherwise a real Metastore implementation over its fake database
	slowWrap int    // index of the process whose master-key service is slow (time passes while a new SK is wrapped: one creation-stamp tick), -1 = none
	fixed    *world.Fixed
}

func (sc *scenario) String() string {
	var ps []string
	for i, p := range sc.fixed.Policies {
		ps = append(ps, fmt.Sprintf("P%d{%s prewarm=%v encrypts=%d}", i, world.CacheClass(p), sc.prewarm[i], sc.encrypts[i]))
	}
	return fmt.Sprintf("metastore=%s slowKMSWrap=P%d state=%s newPartition=%v twoPartitions=%v exp=%s int=%s prec=%s %s", sc.backendName(), sc.slowWrap, sc.state, sc.newPart, sc.twoParts, sc.fixed.Policies[0].ExpireKeyAfter, sc.fixed.Policies[0].RevokeCheckInterval, sc.fixed.Policies[0].CreateDatePrecision, strings.Join(ps, " "))
}

func (sc *scenario) backendName() string {
	if sc.backend == "" {
		return "harness-table"
	}
	return sc.backend
}

var backends = []string{"", "", "", "memory", "sql-mysql", "sql-postgres", "sql-oracle", "dynamodb-v1", "dynamodb-v2"}

var states = []string{"cold", "sk-only", "expired", "ik-revoked", "sk-revoked", "sk-revoked-unnoticed", "ik-revoked-same-window", "sk-revoked-same-window"}

func drawScenario(t *rapid.T, nprocs int) *scenario {
	sc := &scenario{state: rapid.SampledFrom(states).Draw(t, "state"), twoParts: rapid.IntRange(0, 3).Draw(t, "twoParts") == 0}
	sc.backend = rapid.SampledFrom(backends).Draw(t, "metastore")
	sc.slowWrap = -1
	if rapid.IntRange(0, 3).Draw(t, "slowWrap") == 0 {
		sc.slowWrap = rapid.IntRange(0, nprocs-1).Draw(t, "slowProc")
	}
	exp := rapid.SampledFrom([]time.Duration{2 * time.Minute, time.Hour}).Draw(t, "expire")
	iv := rapid.SampledFrom([]time.Duration{time.Second, 10 * time.Second, time.Hour}).Draw(t, "interval")
	prec := rapid.SampledFrom([]time.Duration{time.Second, time.Minute}).Draw(t, "precision")
	sc.newPart = sc.state != "cold" && rapid.IntRange(0, 2).Draw(t, "newPartition") == 0
	if sc.state == "sk-revoked-unnoticed" {
		// the revocation is younger than the revoke-check interval: processes with a cached SK have not noticed it yet
		iv = time.Hour
		sc.newPart = true
	}
	startMax := 59
	if strings.HasSuffix(sc.state, "-same-window") {
		// the replacement key falls into the creation window of the revoked key: its insert is refused as a duplicate
		iv, prec, startMax = time.Second, time.Minute, 45
	}
	sc.fixed = &world.Fixed{Start: time.Unix(1_700_000_040+int64(rapid.IntRange(0, startMax).Draw(t, "start")), 0), Service: "svc", Product: "prod", Parts: []string{"part0", "part1"}}
	for i := 0; i < nprocs; i++ {
		p := appencryption.NewCryptoPolicy()
		world.DrawCaches(t, p, world.Options{})
		p.CacheSessions = false
		p.ExpireKeyAfter, p.RevokeCheckInterval, p.CreateDatePrecision = exp, iv, prec
		sc.fixed.Policies = append(sc.fixed.Policies, p)
		sc.prewarm = append(sc.prewarm, rapid.Bool().Draw(t, "prewarm"))
		sc.encrypts = append(sc.encrypts, 1)
	}
	return sc
}

type result struct {
	viol    string
	refused int
	choices []int // chosen index at each decision
	alts    []int // number of alternatives at each decision
	trace   []string
}

// run executes the scenario under one schedule: follow prefix, then always the first waiting process.
// pick, when set, overrides the default choice after the prefix.
func run(t *rapid.T, sc *scenario, prefix []int, pick func(n int) int) *result {
	res := &result{}
	opts := world.Options{Fixed: sc.fixed, SmallPayloads: true, NoRetainAEAD: true, HomogeneousTime: true}
	if sc.backend != "" {
		b := backing.New(sc.backend)
		defer b.Done()
		defer func() {
			if u := b.Unsupported(); len(u) > 0 {
				fmt.Printf("VERIF-INCONCLUSIVE fake cannot interpret: %v\n", u)
				t.Fatalf("inconclusive: the fake cannot interpret %v", u)
			}
		}()
		opts.Backing = b
	}
	w := world.New(t, opts)
	defer w.Teardown()
	part := w.Parts[0]
	pol := w.Procs[0].Policy
	failf := func(format string, args ...any) *result {
		res.viol = fmt.Sprintf(format, args...) + "\n  schedule: " + strings.Join(res.trace, " ") + "\n" + w.Describe()
		return res
	}
	// --- start state
	sess := make([]*world.Sess, len(w.Procs))
	if sc.state != "cold" {
		first := part
		if sc.state == "sk-only" {
			first = "bootstrap"
		}
		s := w.Open(w.Procs[0], first)
		if ev, _ := w.Encrypt(s, []byte("setup"), false, true); ev.Err != nil {
			return failf("harness: setup encrypt failed: %v", ev.Err)
		}
		if first == part {
			sess[0] = s
		} else {
			w.CloseSess(s)
		}
		for i, p := range w.Procs {
			if i == 0 || !sc.prewarm[i] || sc.state == "sk-only" {
				continue
			}
			sess[i] = w.Open(p, part)
			if ev, _ := w.Encrypt(sess[i], []byte("prewarm"), false, true); ev.Err != nil {
				return failf("harness: prewarm encrypt failed: %v", ev.Err)
			}
		}
		if !sc.prewarm[0] && sess[0] != nil {
			w.CloseSess(sess[0])
			sess[0] = nil
			w.Restart0(w.Procs[0])
		}
		switch sc.state {
		case "expired":
			w.Advance(pol.ExpireKeyAfter + time.Second)
		case "ik-revoked":
			w.RevokeRow(w.IKID(part), w.Store.Latest(w.IKID(part)).Created, false)
			w.Advance(pol.RevokeCheckInterval + pol.CreateDatePrecision + time.Second)
		case "sk-revoked":
			w.RevokeRow(w.SKID(), w.Store.Latest(w.SKID()).Created, true)
			w.Advance(2*pol.RevokeCheckInterval + pol.CreateDatePrecision + time.Second)
		case "ik-revoked-same-window":
			w.RevokeRow(w.IKID(part), w.Store.Latest(w.IKID(part)).Created, false)
			w.Advance(2*pol.RevokeCheckInterval + time.Second)
		case "sk-revoked-same-window":
			w.RevokeRow(w.SKID(), w.Store.Latest(w.SKID()).Created, true)
			w.Advance(2*pol.RevokeCheckInterval + time.Second)
		case "sk-revoked-unnoticed":
			w.RevokeRow(w.SKID(), w.Store.Latest(w.SKID()).Created, true)
			w.Advance(pol.CreateDatePrecision + time.Second)
		}
	}
	if sc.newPart {
		// race on a partition without any IK: every process has to create one
		part = "fresh-partition"
		for i := range sess {
			sess[i] = nil
		}
	}
	for i, p := range w.Procs {
		if sess[i] == nil {
			sess[i] = w.Open(p, part)
		}
	}
	var other *world.Sess
	if sc.twoParts && len(w.Procs) > 1 {
		other = w.Open(w.Procs[1], w.Parts[1])
	}
	// --- the race
	var actors []string
	for _, p := range w.Procs {
		actors = append(actors, p.Name)
	}
	g := newGate(actors)
	w.Store.Gate = g.wait
	if sc.slowWrap >= 0 {
		slow := w.Procs[sc.slowWrap].Name
		w.Log.Plan = func(idx int, c *kit.Call) kit.FaultKind {
			if c.Target == "kms" && c.Op == "EncryptKey" && c.Actor == slow {
				return kit.FaultSlow
			}
			return kit.NoFault
		}
		defer func() { w.Log.Plan = nil }()
	}
	callsBefore := w.Log.Len()
	type out struct {
		proc int
		rec  *world.Rec
		err  error
		leak string
	}
	outs := make(chan out, 8)
	g.mu.Lock()
	g.active = true
	g.mu.Unlock()
	for i, p := range w.Procs {
		go func(i int, p *world.Proc) {
			// stop at the gate before anything else so that the start order is the scheduler's choice too
			g.wait(p.Name, "start")
			for k := 0; k < sc.encrypts[i]; k++ {
				s := sess[i]
				if k == 1 && i == 1 && other != nil {
					s = other
				}
				payload := []byte(fmt.Sprintf("race-%d-%d", i, k))
				drr, err := s.S.Encrypt(ctxBg, payload)
				o := out{proc: i, err: err}
				if err == nil {
					o.rec = &world.Rec{Partition: s.Partition, Payload: payload, DRR: world.CloneDRR(*drr), Proc: p.Name}
					o.rec.IKID, o.rec.IKCreated = drr.Key.ParentKeyMeta.ID, drr.Key.ParentKeyMeta.Created
				}
				outs <- o
			}
			g.done(p.Name)
		}(i, p)
	}
	step := 0
	for {
		waiting := g.next()
		if len(waiting) == 0 {
			break
		}
		c := 0
		switch {
		case step < len(prefix):
			c = prefix[step]
			if c >= len(waiting) {
				c = len(waiting) - 1
			}
		case pick != nil:
			c = pick(len(waiting))
		}
		res.choices = append(res.choices, c)
		res.alts = append(res.alts, len(waiting))
		g.mu.Lock()
		res.trace = append(res.trace, waiting[c]+":"+g.op[waiting[c]])
		g.mu.Unlock()
		g.release(waiting[c])
		step++
	}
	g.mu.Lock()
	g.active = false
	g.mu.Unlock()
	w.Store.Gate = nil
	w.Log.Plan = nil
	close(outs)
	var recs []*world.Rec
	for o := range outs {
		if o.err != nil {
			return failf("encrypt of process P%d failed during the race: %v", o.proc, o.err)
		}
		recs = append(recs, o.rec)
	}
	for _, c := range w.Log.Calls[callsBefore:] {
		if c.Target == "store" && c.Op == "Store" && !c.OK {
			res.refused++
		}
	}
	// --- oracle
	snap := w.Snapshot()
	for i, r := range recs {
		ik, ok := snap[kit.RefRowKey{ID: r.IKID, Created: r.IKCreated}]
		if !ok {
			return failf("record %d of %s names IK (%s,%d) which is not in the metastore", i, r.Proc, r.IKID, r.IKCreated)
		}
		if ik.Parent == nil {
			return failf("IK row of record %d has no parent", i)
		}
		if _, ok := snap[kit.RefRowKey{ID: ik.Parent.KeyID, Created: ik.Parent.Created}]; !ok {
			return failf("record %d of %s: its IK names SK (%s,%d) which is not in the metastore", i, r.Proc, ik.Parent.KeyID, ik.Parent.Created)
		}
		ref := &kit.RefDRR{Data: r.DRR.Data, Key: &kit.RefEKR{Created: r.DRR.Key.Created, Key: r.DRR.Key.EncryptedKey, Parent: &kit.RefKeyMeta{KeyID: r.IKID, Created: r.IKCreated}}}
		out, err := kit.RefDecrypt(snap, w.RefKMS(), ref)
		if err != nil || !bytes.Equal(out, r.Payload) {
			return failf("the reference decryptor cannot decrypt record %d of %s from the final store: %v", i, r.Proc, err)
		}
		// every racing process, with its warm caches, and a fresh process
		for j, p := range w.Procs {
			s := sess[j]
			if r.Partition != part {
				s = w.Open(p, r.Partition)
			}
			out, err := s.S.Decrypt(ctxBg, world.CloneDRR(r.DRR))
			if err != nil {
				return failf("process %s (warm caches) cannot decrypt record %d written by %s: %v", p.Name, i, r.Proc, err)
			}
			if !bytes.Equal(out, r.Payload) {
				return failf("process %s decrypts record %d of %s to other bytes", p.Name, i, r.Proc)
			}
		}
	}
	fresh := appencryption.NewSessionFactory(&appencryption.Config{Service: w.Service, Product: w.Product, Policy: appencryption.NewCryptoPolicy()},
		w.Store.For("fresh"), w.KMS.For("fresh"), w.AEAD, appencryption.WithSecretFactory(securememory.SecretFactory(w.Secrets)))
	for i, r := range recs {
		s, _ := fresh.GetSession(r.Partition)
		out, err := s.Decrypt(ctxBg, world.CloneDRR(r.DRR))
		s.Close()
		if err != nil || !bytes.Equal(out, r.Payload) {
			fresh.Close()
			return failf("a fresh process cannot decrypt record %d of %s: %v", i, r.Proc, err)
		}
	}
	fresh.Close()
	if msg := w.Store.CheckImmutable(); msg != "" {
		return failf("the metastore was modified: %s", msg)
	}
	// a process whose system-key insert was refused adopts the STORED latest key: no intermediate key
	// written during the race hangs under a system key that had already expired when the race began
	raceAt := time.Unix(0, w.Now())
	for _, c := range w.Log.Calls[callsBefore:] {
		if c.Target != "store" || c.Op != "Store" || !c.OK || !strings.HasPrefix(c.ID, "_IK_") {
			continue
		}
		row := w.Store.Get(c.ID, c.Created)
		if row == nil || row.Rec.ParentKeyMeta == nil {
			continue
		}
		if skc := time.Unix(row.Rec.ParentKeyMeta.Created, 0); raceAt.Sub(skc) > pol.ExpireKeyAfter+pol.CreateDatePrecision+2*time.Second {
			return failf("IK row (%s,%d) written by %s during the race names system key created %d, which had expired (lifetime %s) before the race; the stored replacement was not adopted", c.ID, c.Created, c.Actor, row.Rec.ParentKeyMeta.Created, pol.ExpireKeyAfter)
		}
	}
	// every generated key that was not persisted has been discarded
	stored := map[string]bool{}
	for _, r := range w.Store.Rows() {
		if strings.HasPrefix(r.ID, "_SK_") {
			if pt, err := kit.KMSUnwrap(w.KMS.Master, r.Rec.EncryptedKey); err == nil {
				stored[kit.Fp(pt)] = true
			}
		}
	}
	for _, r := range w.Store.Rows() {
		if strings.HasPrefix(r.ID, "_IK_") && r.Rec.ParentKeyMeta != nil {
			if skr := w.Store.Get(r.Rec.ParentKeyMeta.ID, r.Rec.ParentKeyMeta.Created); skr != nil {
				if sk, err := kit.KMSUnwrap(w.KMS.Master, skr.Rec.EncryptedKey); err == nil {
					if ik, err := kit.GCMOpen(sk, r.Rec.EncryptedKey); err == nil {
						stored[kit.Fp(ik)] = true
					}
				}
			}
		}
	}
	for _, si := range w.Secrets.Live() {
		if si.Origin == "CreateRandom" && !stored[si.Fp] {
			return failf("a generated key that was never persisted is still live after the race (not discarded): %s", si)
		}
	}
	return res
}

// exhaust enumerates all schedules of the scenario by stateless DFS (up to budget; -1 = no limit).
func exhaust(t *rapid.T, sc *scenario, budget int) (n, nontrivial int, complete bool) {
	var prefix []int
	for {
		r := run(t, sc, prefix, nil)
		n++
		if r.refused > 0 {
			nontrivial++
		}
		if r.viol != "" {
			kit.Rec.Violation(r.viol)
			t.Fatalf("C14 violated: %s\n  scenario: %s", r.viol, sc)
		}
		if n == 1 || n%997 == 0 {
			kit.Rec.Sample(map[string]any{"scenario": sc.String(), "schedule": strings.Join(r.trace, " "), "stores_refused": r.refused})
		}
		// next schedule: last decision with an untried alternative
		i := len(r.choices) - 1
		for i >= 0 && r.choices[i]+1 >= r.alts[i] {
			i--
		}
		if i < 0 {
			return n, nontrivial, true
		}
		prefix = append(append([]int(nil), r.choices[:i]...), r.choices[i]+1)
		if budget >= 0 && n >= budget {
			return n, nontrivial, false
		}
	}
}

func TestTwoProcessesExhaustive(t *testing.T) {
	kit.Check(t, 60, 640, func(t *rapid.T) {
		sc := drawScenario(t, 2)
		if kit.Thorough() && rapid.IntRange(0, 3).Draw(t, "second") == 0 {
			sc.encrypts[rapid.IntRange(0, 1).Draw(t, "who")] = 2
		}
		n, nt, complete := exhaust(t, sc, kit.Pick(2500, 60000))
		kit.Rec.Enumerated(int64(n), int64(nt))
		if complete {
			kit.Rec.Label("scenario-exhausted")
		} else {
			kit.Rec.Label("scenario-budget-hit")
		}
		kit.Rec.Label("state:" + sc.state)
		kit.Rec.Label("metastore:" + sc.backendName())
	})
}

func TestThreeProcessesSampled(t *testing.T) {
	kit.Check(t, 800, 24000, func(t *rapid.T) {
		sc := drawScenario(t, 3)
		if rapid.IntRange(0, 2).Draw(t, "second") == 0 {
			sc.encrypts[rapid.IntRange(0, 2).Draw(t, "who")] = 2
		}
		r := run(t, sc, nil, func(n int) int { return rapid.IntRange(0, n-1).Draw(t, "choice") })
		if r.viol != "" {
			kit.Rec.Violation(r.viol)
			t.Fatalf("C14 violated: %s\n  scenario: %s", r.viol, sc)
		}
		kit.Rec.Case(sc.String()+"|"+strings.Join(r.trace, " "), r.refused > 0, func() any {
			return map[string]any{"scenario": sc.String(), "schedule": strings.Join(r.trace, " "), "stores_refused": r.refused}
		})
		kit.Rec.Label("state:" + sc.state)
		kit.Rec.Label("metastore:" + sc.backendName())
	})
}
