package c14

import "context"

var ctxBg = context.Background()
