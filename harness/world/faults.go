package world

import (
	"fmt"
	"time"

	"github.com/godaddy/asherah/go/appencryption"
	"pgregory.net/rapid"
	"verif/kit"
)

// FaultAt addresses one injected fault: the Rel-th call (counted from the start of
// the operation under test) of one target sequence.
type FaultAt struct {
	Target string // "ext" (metastore+KMS call log), "aead", "alloc", "alloc-consumed" (the factory fails after it copied and wiped its input), "sec-open", "sec-release" (reads of key secrets)
	Rel    int
	Kind   kit.FaultKind // for "ext"; ignored otherwise
}

func (f FaultAt) String() string {
	if f.Target == "ext" {
		return fmt.Sprintf("ext[%d]=%s", f.Rel, f.Kind)
	}
	return fmt.Sprintf("%s[%d]", f.Target, f.Rel)
}

// ApplicableFaults lists the fault kinds that make sense for an external call.
func ApplicableFaults(c kit.Call) []kit.FaultKind {
	if c.Target == "store" && c.Op == "Store" {
		return []kit.FaultKind{kit.FaultError, kit.FaultDup, kit.FaultAfter, kit.FaultDupError, kit.FaultSlow, kit.FaultCancel}
	}
	return []kit.FaultKind{kit.FaultError, kit.FaultSlow, kit.FaultCancel}
}

// KeyStates are the starting states of the fault scenarios.
var KeyStates = []string{"cold", "sk-only", "warm-held", "warm-fresh", "stale", "expired", "ik-revoked", "sk-revoked", "ext-rotated", "ext-rotated-sk"}

// FaultScenario is a re-executable scenario: a pinned world, a key state and the
// session the operation under test runs on.
type FaultScenario struct {
	State  string
	Fixed  *Fixed
	Opt    Options
	Faults []FaultAt

	// filled by Exec
	W     *World
	Sess  *Sess
	Rec0  *Rec // a record written during setup (nil in the cold states)
	Fired []bool
	Base  int // call-log length when the operation under test started
	ABase int
	SBase int
	RBase int // secret reads made before the operation under test
}

// DrawScenario draws a scenario (everything except the fault positions).
func DrawScenario(t *rapid.T, states []string) *FaultScenario {
	pol := appencryption.NewCryptoPolicy()
	pol.ExpireKeyAfter = rapid.SampledFrom([]time.Duration{2 * time.Minute, time.Hour}).Draw(t, "expire")
	pol.RevokeCheckInterval = rapid.SampledFrom([]time.Duration{time.Second, 10 * time.Second, 2 * time.Hour}).Draw(t, "interval")
	pol.CreateDatePrecision = rapid.SampledFrom([]time.Duration{0, time.Second, time.Minute}).Draw(t, "precision")
	DrawCaches(t, pol, Options{})
	pol.CacheSessions = false // session caching adds asynchronous teardown, irrelevant to fault positions
	return &FaultScenario{
		State: rapid.SampledFrom(states).Draw(t, "state"),
		Fixed: &Fixed{
			Start:    time.Unix(1_700_000_000+int64(rapid.IntRange(0, 119).Draw(t, "startOffset")), 0),
			Service:  drawID(t, "service", true),
			Product:  drawID(t, "product", true),
			Parts:    []string{"part0", "part1"},
			Policies: []*appencryption.CryptoPolicy{pol},
		},
		Opt: Options{SmallPayloads: true, Suffix: rapid.SampledFrom([]string{"", "", "us-west-2"}).Draw(t, "regionSuffix")},
	}
}

// Exec builds the world, brings it into the key state, installs the fault plan and
// runs op; the plan is removed when op returns. The caller must Teardown sc.W.
func (sc *FaultScenario) Exec(t *rapid.T, op func(sc *FaultScenario) *Event) *Event {
	opt := sc.Opt
	opt.Fixed = sc.Fixed
	w := New(t, opt)
	sc.W = w
	sc.setup()
	sc.Fired = make([]bool, len(sc.Faults))
	sc.Base, sc.ABase, sc.SBase, sc.RBase = w.Log.Len(), w.AEAD.Len(), w.Secrets.Count(), w.Secrets.Reads()
	ext := map[int]int{}
	aead := map[int]int{}
	for i, f := range sc.Faults {
		switch f.Target {
		case "ext":
			ext[f.Rel] = i
		case "aead":
			aead[f.Rel] = i
		case "alloc":
			w.Secrets.FailRel(f.Rel, func() { sc.Fired[i] = true })
		case "alloc-consumed":
			w.Secrets.FailRelWiped(f.Rel, func() { sc.Fired[i] = true })
		case "sec-open":
			w.Secrets.FailOpenRel(f.Rel, func() { sc.Fired[i] = true })
		case "sec-release":
			w.Secrets.FailReleaseRel(f.Rel, func() { sc.Fired[i] = true })
		}
	}
	w.Log.Plan = func(idx int, c *kit.Call) kit.FaultKind {
		i, ok := ext[idx-sc.Base]
		if !ok {
			return kit.NoFault
		}
		for _, k := range ApplicableFaults(*c) {
			if k == sc.Faults[i].Kind {
				sc.Fired[i] = true
				return k
			}
		}
		return kit.NoFault
	}
	w.AEAD.Plan = func(idx int, c *kit.AEADCall) bool {
		i, ok := aead[idx-sc.ABase]
		if ok {
			sc.Fired[i] = true
		}
		return ok
	}
	ev := op(sc)
	w.Log.Plan = nil
	w.AEAD.Plan = nil
	w.Secrets.ClearFail()
	return ev
}

// AnyFired reports whether at least one planned fault was reached.
func (sc *FaultScenario) AnyFired() bool {
	for _, f := range sc.Fired {
		if f {
			return true
		}
	}
	return false
}

func (sc *FaultScenario) setup() {
	w := sc.W
	p := w.Procs[0]
	pol := p.Policy
	part := w.Parts[0]
	prec := pol.CreateDatePrecision
	warm := func() *Sess {
		s := w.Open(p, part)
		_, rec := w.Encrypt(s, []byte("setup-payload"), false, true)
		if rec == nil {
			w.T.Fatalf("scenario setup: encrypt failed")
		}
		sc.Rec0 = rec
		return s
	}
	switch sc.State {
	case "cold":
		sc.Sess = w.Open(p, part)
	case "sk-only":
		o := w.Open(p, w.Parts[1])
		w.Encrypt(o, []byte("other"), false, true)
		w.CloseSess(o)
		sc.Sess = w.Open(p, part)
	case "warm-held":
		sc.Sess = warm()
	case "warm-fresh":
		s := warm()
		w.CloseSess(s)
		sc.Sess = w.Open(p, part)
	case "stale":
		sc.Sess = warm()
		w.Advance(pol.RevokeCheckInterval + time.Second)
	case "expired":
		sc.Sess = warm()
		w.Advance(pol.ExpireKeyAfter + time.Second)
	case "ik-revoked":
		sc.Sess = warm()
		w.RevokeRow(w.IKID(part), w.Store.Latest(w.IKID(part)).Created, false)
		w.Advance(pol.RevokeCheckInterval + prec + time.Second)
	case "sk-revoked":
		sc.Sess = warm()
		w.RevokeRow(w.SKID(), w.Store.Latest(w.SKID()).Created, true)
		w.Advance(2*pol.RevokeCheckInterval + prec + time.Second)
	case "ext-rotated", "ext-rotated-sk":
		sc.Sess = warm()
		w.Advance(prec + time.Second)
		w.ExternalRotate(part, sc.State == "ext-rotated-sk")
		w.Advance(pol.RevokeCheckInterval + time.Second)
	case "legacy-unsuffixed":
		// the metastore already holds this partition's keys as a deployment without a region suffix wrote them
		// (same service, product and partition): they are other keys, with other ids, than the ones this process names
		none := ""
		w.ExtSuffix = &none
		w.ExternalRotate(part, true)
		w.ExtSuffix = nil
		w.Advance(prec + time.Second)
		sc.Sess = w.Open(p, part)
	default:
		w.T.Fatalf("unknown key state %q", sc.State)
	}
}

// OpCalls returns the external calls issued since the operation under test started.
func (sc *FaultScenario) OpCalls() []kit.Call { return sc.W.Log.Since(sc.Base) }

// Describe renders the scenario.
func (sc *FaultScenario) Describe() string {
	return fmt.Sprintf("state=%s faults=%v policy={%s}", sc.State, sc.Faults, PolicyString(sc.Fixed.Policies[0]))
}
