package world

import (
	"time"

	"verif/kit"
)

// KeyFacts is what the key-lifecycle monitors (C04, C05) need to know about an encrypt.
type KeyFacts struct {
	IK, SK       *kit.Row // the IK row named by the record and the SK row it names (nil if absent)
	T            time.Time
	Trunc        int64 // creation stamp a key created now by this process would get
	LaterIKStamp bool  // Trunc > IK.Created: a replacement IK with a later stamp can be created
	LaterSKStamp bool  // Trunc > SK.Created
	KeyCaching   bool  // the process caches IKs or SKs
	IKExpired    bool
	SKExpired    bool
	SKExpiredAt  time.Time
}

// Facts computes KeyFacts for a successful encrypt event.
func (w *World) Facts(ev *Event) KeyFacts {
	pol := ev.Proc.Policy
	f := KeyFacts{T: time.Unix(0, ev.At), KeyCaching: pol.CacheIntermediateKeys || pol.CacheSystemKeys}
	if pol.CreateDatePrecision > 0 {
		f.Trunc = f.T.Truncate(pol.CreateDatePrecision).Unix()
	} else {
		f.Trunc = f.T.Unix()
	}
	if ev.Rec == nil {
		return f
	}
	f.IK = w.Store.Get(ev.Rec.IKID, ev.Rec.IKCreated)
	if f.IK != nil {
		f.LaterIKStamp = f.Trunc > f.IK.Created
		f.IKExpired = f.T.After(time.Unix(f.IK.Created, 0).Add(pol.ExpireKeyAfter))
		if pm := f.IK.Rec.ParentKeyMeta; pm != nil {
			f.SK = w.Store.Get(pm.ID, pm.Created)
		}
	}
	if f.SK != nil {
		f.LaterSKStamp = f.Trunc > f.SK.Created
		f.SKExpiredAt = time.Unix(f.SK.Created, 0).Add(pol.ExpireKeyAfter)
		f.SKExpired = f.T.After(f.SKExpiredAt)
	}
	return f
}

// LaterStampSince reports whether a key created by this process at any instant in
// [t-d, t] would have received a creation stamp later than every given stamp, i.e.
// whether every cache load within the last d could have created a replacement.
func (w *World) LaterStampSince(ev *Event, d time.Duration, stamps ...int64) bool {
	pol := ev.Proc.Policy
	at := time.Unix(0, ev.At).Add(-d)
	tr := at.Unix()
	if pol.CreateDatePrecision > 0 {
		tr = at.Truncate(pol.CreateDatePrecision).Unix()
	}
	for _, s := range stamps {
		if tr <= s {
			return false
		}
	}
	return true
}

// RefreshedByDecrypt reports whether, in the window (from, ev.At], a decrypt or
// other load on the same IK cache as ev re-read the row (id, created) from the
// store through Load (the GetOrLoad refresh path, which renews the cache entry
// without re-validating the key's parent).
func (w *World) RefreshedByDecrypt(ev *Event, id string, created int64, from int64) *Event {
	for i := len(w.Events) - 1; i >= 0; i-- {
		o := w.Events[i]
		if o.At <= from {
			break
		}
		if o == ev || o.Kind != "decrypt" || o.Proc != ev.Proc || o.Gen != ev.Gen {
			continue
		}
		if !sameIKCache(o, ev) {
			continue
		}
		for _, c := range w.Log.Calls[o.CallFrom:o.CallTo] {
			if c.Target == "store" && c.Op == "Load" && c.ID == id && c.Created == created && c.OK {
				return o
			}
		}
	}
	return nil
}

// NewerKnownToCache reports whether, before ev, the IK cache ev ran on had already loaded or
// created a NEWER key for id than (id, created): a cache that knows a newer key and goes back
// to an older one is not the listed "decrypt refresh" finding (there the cache never learns
// that anything newer exists).
func (w *World) NewerKnownToCache(ev *Event, id string, created int64) bool {
	for _, o := range w.Events {
		if o == ev || o.At > ev.At || o.Proc != ev.Proc || o.Gen != ev.Gen || o.Seq >= ev.Seq {
			continue
		}
		if o.Kind != "encrypt" && o.Kind != "decrypt" {
			continue
		}
		if !sameIKCache(o, ev) {
			continue
		}
		for _, c := range w.Log.Calls[o.CallFrom:o.CallTo] {
			if c.Target != "store" || c.ID != id || !c.OK {
				continue
			}
			if (c.Op == "Store" && c.Created > created) || (c.Op != "Store" && c.Found > created) {
				return true
			}
		}
	}
	return false
}

// sameIKCache: two operations of one process share an IK cache when the cache is
// shared by policy, when they ran on the same session handle, or when the session cache handed
// both handles the very same SDK session object (a cached session that was evicted and
// rebuilt in between is a different object with a cache of its own).
func sameIKCache(a, b *Event) bool {
	pol := a.Proc.Policy
	if pol.SharedIntermediateKeyCache && pol.CacheIntermediateKeys {
		return true
	}
	if a.Sess == nil || b.Sess == nil {
		return false
	}
	return a.Sess == b.Sess || (a.Sess.S != nil && a.Sess.S == b.Sess.S)
}

// IsParentMismatchSKLeak recognises the listed finding "sk-ref-leak-on-parent-mismatch"
// from the failing operation itself: in this operation an IK insert was refused as a
// duplicate, the SDK fell back to the stored IK, and the leaked secret's content is
// exactly that IK's parent SK (which the SDK only looks up - and then never releases -
// when it differs from the SK the creator was holding).
func (w *World) IsParentMismatchSKLeak(ev *Event, leaked kit.SecretInfo) bool {
	calls := w.Log.Calls[ev.CallFrom:ev.CallTo]
	for i, c := range calls {
		if c.Target != "store" || c.Op != "Store" || c.OK || len(c.ID) < 4 || c.ID[:4] != "_IK_" {
			continue
		}
		for _, d := range calls[i+1:] {
			if d.Target != "store" || d.Op != "LoadLatest" || d.ID != c.ID || !d.OK {
				continue
			}
			row := w.Store.Get(d.ID, d.Found)
			if row == nil || row.Rec.ParentKeyMeta == nil {
				continue
			}
			parent := w.Store.Get(row.Rec.ParentKeyMeta.ID, row.Rec.ParentKeyMeta.Created)
			if parent == nil {
				continue
			}
			pt, err := kit.KMSUnwrap(w.KMS.Master, parent.Rec.EncryptedKey)
			if err == nil && kit.Fp(pt) == leaked.Fp {
				return true
			}
		}
	}
	return false
}

// MismatchParents returns the fingerprints of the parent SKs of every stored IK this
// operation fell back to after a refused IK insert (the SKs the listed finding
// sk-ref-leak-on-parent-mismatch may leave referenced).
func (w *World) MismatchParents(ev *Event) []string {
	var res []string
	calls := w.Log.Calls[ev.CallFrom:ev.CallTo]
	for i, c := range calls {
		if c.Target != "store" || c.Op != "Store" || c.OK || len(c.ID) < 4 || c.ID[:4] != "_IK_" {
			continue
		}
		for _, d := range calls[i+1:] {
			if d.Target == "store" && d.Op == "LoadLatest" && d.ID == c.ID && d.OK {
				row := w.Store.Get(d.ID, d.Found)
				if row == nil || row.Rec.ParentKeyMeta == nil {
					continue
				}
				if parent := w.Store.Get(row.Rec.ParentKeyMeta.ID, row.Rec.ParentKeyMeta.Created); parent != nil {
					if pt, err := kit.KMSUnwrap(w.KMS.Master, parent.Rec.EncryptedKey); err == nil {
						res = append(res, kit.Fp(pt))
					}
				}
			}
		}
	}
	return res
}
