// Package world is the rapid state machine over the real SDK that several
// properties share (engine E1). It owns a virtual clock, one deployment
// (service, product, store, KMS), 1-3 "processes" (SessionFactories with their
// own policies), the open sessions and the pool of every record ever returned.
// Property packages attach monitors through the OnOp hook and read the logs.
package world

import (
	"bytes"
	"context"
	"encoding/json"
	"fmt"
	"sort"
	"strings"
	"time"

	"github.com/godaddy/asherah/go/appencryption"
	"github.com/godaddy/asherah/go/securememory"
	"github.com/godaddy/asherah/go/securememory/memguard"
	"pgregory.net/rapid"
	"verif/kit"
	"verifhook"
)

// Options configure a world for one property.
type Options struct {
	MaxProcs         int  // 1..3
	RealSecrets      bool // memguard behind the tracker instead of heap-backed secrets
	NoCacheBias      int  // percent of policies with key caching disabled (default 15)
	SessionCacheBias int  // percent of policies with session caching (default 25)
	SmallPayloads    bool // cap payloads at 64 bytes (call-count / timing properties)
	Suffix           string
	FixedPolicy      func(t *rapid.T) *appencryption.CryptoPolicy // overrides the policy generator
	Partitions       int                                          // number of partition ids (default drawn 2..5)
	SimpleIDs        bool                                         // plain ascii ids
	HomogeneousTime  bool                                         // all processes share ExpireKeyAfter / RevokeCheckInterval / CreateDatePrecision
	NoRetainAEAD     bool
	PayloadGen       func(t *rapid.T) []byte // overrides the payload generator
	Fixed            *Fixed                  // when set, nothing is drawn by New
	Backing          kit.StoreBacking        // a real metastore (over a fake database) holds the rows; see kit.Store.Backing
	NewBacking       func() kit.StoreBacking // like Backing, for scenarios that are executed many times: a fresh one per world
	PerProcRegion    bool                    // with a region suffix: the processes run in different regions over one (global) table
}

// Fixed pins everything New would otherwise draw (used for re-executable scenarios).
type Fixed struct {
	Start    time.Time
	Service  string
	Product  string
	Parts    []string
	Policies []*appencryption.CryptoPolicy // one per process (copied)
}

// Proc is one "process": a SessionFactory with its own policy and caches.
type Proc struct {
	Name      string
	Policy    *appencryption.CryptoPolicy
	Factory   *appencryption.SessionFactory
	Sessions  []*Sess
	Gen       int
	Closed    bool
	StartedAt int64
}

// Sess is a session handle held by the test.
type Sess struct {
	ID        int
	Proc      *Proc
	Gen       int
	Partition string
	S         *appencryption.Session
	Closed    bool
	OpenedAt  int64
	Encrypts  int
	Ops       int
}

// Rec is a record in the pool.
type Rec struct {
	ID        int
	Partition string
	Payload   []byte
	DRR       appencryption.DataRowRecord  // private deep copy
	Orig      *appencryption.DataRowRecord // the object Encrypt returned, as the caller still holds it
	JSON      []byte
	IKID      string
	IKCreated int64
	BornAt    int64 // virtual unix nanos
	Proc      string
	SessID    int
	ViaStore  bool
}

// Event describes one completed operation.
type Event struct {
	Seq       int
	Kind      string // encrypt, decrypt, open, close, restart, advance, revoke, rotate, pressure
	Proc      *Proc
	Gen       int // generation (restart count) of Proc when the operation ran
	Sess      *Sess
	Partition string
	At        int64 // virtual unix nanos (the clock does not move inside an operation)
	Rec       *Rec  // encrypt: the new record; decrypt: the record read
	Err       error
	Out       []byte                       // decrypt: the returned plaintext
	Changed   string                       // a record object returned by an earlier encrypt differs from what it was when returned
	ArgAfter  *appencryption.DataRowRecord // decrypt: the record the caller handed in, as it looks after the call
	Detail    string
	FreshSess bool
	// half-open index ranges into the logs covering exactly this operation
	CallFrom, CallTo      int
	AEADFrom, AEADTo      int
	SecretFrom, SecretTo  int
	LiveBefore, LiveAfter int
}

// World is the state of one generated history.
type World struct {
	ExtClockAhead time.Duration // see ExternalRotate
	ExtSuffix     *string       // see ExternalRotate: the other process's region suffix when it is not ours
	ownBacking    bool

	T       *rapid.T
	Opt     Options
	Service string
	Product string
	Parts   []string
	Log     *kit.CallLog
	Store   *kit.Store
	KMS     *kit.SpyKMS
	AEAD    *kit.SpyAEAD
	Secrets *kit.Tracker
	Procs   []*Proc
	Recs    []*Rec
	Events  []*Event
	Start   time.Time
	OnOp    func(ev *Event) // monitor hook, called after every operation
	sessSeq int
	Labels  map[string]int
	Revoked []RevokeInfo
	kv      map[int]appencryption.DataRowRecord // Storer/Loader backing
	kvSeq   int
}

// RevokeInfo records an out-of-band revocation.
type RevokeInfo struct {
	ID      string
	Created int64
	At      int64
	IsSK    bool
}

var ctx = context.Background()

// opCtx is the context handed to the SDK for the operation in progress (cancellable by a fault plan).
var opCtx, opCancel = context.WithCancel(context.Background())

// longAtom makes key ids longer than 255 bytes (the RDBMS column width in the docs).
var longAtom = strings.Repeat("L", 250)

// idAlphabet is small and adversarial on purpose.
func drawID(t *rapid.T, label string, simple bool, extra ...string) string {
	if simple {
		return rapid.SampledFrom([]string{"a", "b", "c", "svc", "prod", "p1", "p2", "x9"}).Draw(t, label)
	}
	pool := append([]string{"a", "b", "ab", "a_b", "_", "IK", "SK", "_IK_", "_SK_", "é", "us-west-2", "0", "A", " ", "a_", "_a", longAtom}, extra...)
	n := rapid.IntRange(1, 3).Draw(t, label+"_n")
	var sb strings.Builder
	for i := 0; i < n; i++ {
		sb.WriteString(rapid.SampledFrom(pool).Draw(t, label))
	}
	return sb.String()
}

// DrawPolicy draws a crypto policy over the documented configuration space.
func DrawPolicy(t *rapid.T, opt Options) *appencryption.CryptoPolicy {
	if opt.FixedPolicy != nil {
		return opt.FixedPolicy(t)
	}
	expires := []time.Duration{30 * time.Second, 2 * time.Minute, 10 * time.Minute, time.Hour, 24 * time.Hour, 90 * 24 * time.Hour}
	// 0 = "re-validate cached keys whenever any time has passed"
	intervals := []time.Duration{0, time.Second, time.Second, 10 * time.Second, 10 * time.Second, time.Minute, time.Minute, 10 * time.Minute, 10 * time.Minute, time.Hour, time.Hour}
	precisions := []time.Duration{0, time.Second, time.Minute, time.Hour}
	p := appencryption.NewCryptoPolicy()
	p.ExpireKeyAfter = rapid.SampledFrom(expires).Draw(t, "expire")
	p.RevokeCheckInterval = rapid.SampledFrom(intervals).Draw(t, "interval")
	var okPrec []time.Duration
	for _, pr := range precisions {
		if pr < p.ExpireKeyAfter {
			okPrec = append(okPrec, pr)
		}
	}
	p.CreateDatePrecision = rapid.SampledFrom(okPrec).Draw(t, "precision")
	DrawCaches(t, p, opt)
	return p
}

var keyPolicies = []string{"", "simple", "lru", "lfu", "slru", "tinylfu"}
var sessPolicies = []string{"", "lru", "lfu", "slru", "tinylfu"}
var capacities = []int{1, 2, 3, 10, 99, 100, 101}

// DrawCaches draws the cache layout part of a policy.
func DrawCaches(t *rapid.T, p *appencryption.CryptoPolicy, opt Options) {
	nc := opt.NoCacheBias
	if nc == 0 {
		nc = 15
	}
	sc := opt.SessionCacheBias
	if sc == 0 {
		sc = 25
	}
	pct := func(label string) int { return rapid.IntRange(0, 99).Draw(t, label) }
	switch x := pct("cacheMode"); {
	case x < nc:
		p.CacheSystemKeys, p.CacheIntermediateKeys = false, false
	case x < nc+8:
		p.CacheSystemKeys, p.CacheIntermediateKeys = true, false
	case x < nc+16:
		p.CacheSystemKeys, p.CacheIntermediateKeys = false, true
	default:
		p.CacheSystemKeys, p.CacheIntermediateKeys = true, true
	}
	p.SystemKeyCacheEvictionPolicy = rapid.SampledFrom(keyPolicies).Draw(t, "skPolicy")
	p.SystemKeyCacheMaxSize = rapid.SampledFrom(capacities).Draw(t, "skCap")
	p.IntermediateKeyCacheEvictionPolicy = rapid.SampledFrom(keyPolicies).Draw(t, "ikPolicy")
	p.IntermediateKeyCacheMaxSize = rapid.SampledFrom(capacities).Draw(t, "ikCap")
	// SharedIntermediateKeyCache is documented as "ignored if CacheIntermediateKeys is
	// disabled": that combination is generated too.
	if pct("shared") < 35 {
		p.SharedIntermediateKeyCache = true
	}
	if pct("sessCache") < sc {
		p.CacheSessions = true
		p.SessionCacheMaxSize = rapid.IntRange(1, 3).Draw(t, "sessCap")
		p.SessionCacheDuration = rapid.SampledFrom([]time.Duration{0, 5 * time.Second, time.Minute, 2 * time.Hour}).Draw(t, "sessDur")
		p.SessionCacheEvictionPolicy = rapid.SampledFrom(sessPolicies).Draw(t, "sessPolicy")
	}
}

// PolicyString renders the parts of a policy that matter.
func PolicyString(p *appencryption.CryptoPolicy) string {
	var sb strings.Builder
	fmt.Fprintf(&sb, "exp=%s int=%s prec=%s sk=%v/%q/%d ik=%v/%q/%d shared=%v", p.ExpireKeyAfter, p.RevokeCheckInterval, p.CreateDatePrecision,
		p.CacheSystemKeys, p.SystemKeyCacheEvictionPolicy, p.SystemKeyCacheMaxSize,
		p.CacheIntermediateKeys, p.IntermediateKeyCacheEvictionPolicy, p.IntermediateKeyCacheMaxSize, p.SharedIntermediateKeyCache)
	if p.CacheSessions {
		fmt.Fprintf(&sb, " sess=%q/%d/%s", p.SessionCacheEvictionPolicy, p.SessionCacheMaxSize, p.SessionCacheDuration)
	}
	return sb.String()
}

// CacheClass is a coarse class of the cache layout (for distinctness of cases).
func CacheClass(p *appencryption.CryptoPolicy) string {
	c := ""
	switch {
	case !p.CacheSystemKeys && !p.CacheIntermediateKeys:
		c = "nocache"
	case p.SharedIntermediateKeyCache && p.CacheIntermediateKeys:
		c = "shared-" + p.IntermediateKeyCacheEvictionPolicy
	case p.CacheIntermediateKeys:
		c = "session-" + p.IntermediateKeyCacheEvictionPolicy
	default:
		c = "skonly"
	}
	if p.CacheSessions {
		c += "+sc-" + p.SessionCacheEvictionPolicy
	}
	return c
}

// New builds a world; the caller must defer w.Teardown().
func New(t *rapid.T, opt Options) *World {
	w := &World{T: t, Opt: opt, Labels: map[string]int{}, kv: map[int]appencryption.DataRowRecord{}}
	if opt.Fixed != nil {
		w.Start = opt.Fixed.Start
	} else {
		w.Start = time.Unix(1_700_000_000+int64(rapid.IntRange(0, 7199).Draw(t, "startOffset")), int64(rapid.IntRange(0, 999).Draw(t, "startMs"))*1e6)
	}
	verifhook.InstallClock(w.Start)
	if opt.Fixed == nil && opt.Suffix == "" && !opt.SimpleIDs && rapid.IntRange(0, 3).Draw(t, "regionSuffix") == 0 {
		opt.Suffix = "us-west-2"
		w.Opt.Suffix = opt.Suffix
	}
	w.Log = &kit.CallLog{}
	w.Log.OnSlow = func() {
		// time passes inside a call: one creation-stamp tick and a bit
		d := time.Second
		if len(w.Procs) > 0 && w.Procs[0].Policy.CreateDatePrecision > d {
			d = w.Procs[0].Policy.CreateDatePrecision
		}
		verifhook.Advance(d + 100*time.Millisecond)
	}
	w.Store = kit.NewStore(w.Log)
	w.Store.Suffix = opt.Suffix
	w.Store.Backing = opt.Backing
	if w.Store.Backing == nil && opt.NewBacking != nil {
		w.Store.Backing = opt.NewBacking()
		w.ownBacking = true
	}
	w.KMS = kit.NewSpyKMS(w.Log)
	w.AEAD = kit.NewSpyAEAD()
	w.AEAD.NoRetain = opt.NoRetainAEAD
	w.Secrets = kit.NewTracker()
	if opt.RealSecrets {
		w.Secrets.Inner = new(memguard.SecretFactory)
	}
	if f := opt.Fixed; f != nil {
		w.Service, w.Product = f.Service, f.Product
		w.Parts = append([]string(nil), f.Parts...)
		for i, pol := range f.Policies {
			cp := *pol
			p := &Proc{Name: fmt.Sprintf("P%d", i), Policy: &cp}
			w.startProc(p)
			w.Procs = append(w.Procs, p)
		}
		return w
	}
	w.Service = drawID(t, "service", opt.SimpleIDs)
	w.Product = drawID(t, "product", opt.SimpleIDs)
	np := opt.Partitions
	if np == 0 {
		np = rapid.IntRange(2, 5).Draw(t, "nparts")
	}
	seen := map[string]bool{}
	for len(w.Parts) < np {
		var id string
		if opt.SimpleIDs {
			id = fmt.Sprintf("part%d", len(w.Parts))
		} else {
			id = drawID(t, "partition", false, w.Service, w.Product, "_"+w.Service+"_"+w.Product)
		}
		if seen[id] {
			id = fmt.Sprintf("%s%d", id, len(w.Parts))
		}
		seen[id] = true
		w.Parts = append(w.Parts, id)
	}
	maxp := opt.MaxProcs
	if maxp == 0 {
		maxp = 3
	}
	n := rapid.IntRange(1, maxp).Draw(t, "nprocs")
	var first *appencryption.CryptoPolicy
	for i := 0; i < n; i++ {
		p := &Proc{Name: fmt.Sprintf("P%d", i)}
		p.Policy = DrawPolicy(t, opt)
		if opt.HomogeneousTime {
			if first == nil {
				first = p.Policy
			} else {
				p.Policy.ExpireKeyAfter, p.Policy.RevokeCheckInterval, p.Policy.CreateDatePrecision = first.ExpireKeyAfter, first.RevokeCheckInterval, first.CreateDatePrecision
			}
		}
		if opt.PerProcRegion && opt.Suffix != "" && i > 0 && rapid.Bool().Draw(t, "otherRegion") {
			// this process runs in another region of the same deployment (one global key table)
			if w.Store.SuffixFor == nil {
				w.Store.SuffixFor = map[string]string{}
			}
			w.Store.SuffixFor[p.Name] = "eu-west-1"
		}
		w.startProc(p)
		w.Procs = append(w.Procs, p)
	}
	return w
}

func (w *World) startProc(p *Proc) {
	// the SDK gets its own copy of the policy: the oracle judges by the configuration that was
	// supplied, not by whatever the SDK may have turned it into
	given := *p.Policy
	cfg := &appencryption.Config{Service: w.Service, Product: w.Product, Policy: &given}
	p.Factory = appencryption.NewSessionFactory(cfg, w.Store.For(p.Name), w.KMS.For(p.Name), w.AEAD, appencryption.WithSecretFactory(securememory.SecretFactory(w.Secrets)))
	p.Closed = false
	p.StartedAt = w.Now()
}

// newOpCtx returns a fresh cancellable context for one SDK call; a FaultCancel in the fault
// plan cancels it while the call is running.
func (w *World) newOpCtx() context.Context {
	opCancel()
	opCtx, opCancel = context.WithCancel(context.Background())
	w.Log.OnCancel = opCancel
	return opCtx
}

// Now is the virtual time in unix nanos.
func (w *World) Now() int64 { return verifhook.Now().UnixNano() }

// Teardown closes everything still open and removes the virtual clock.
func (w *World) Teardown() {
	for _, p := range w.Procs {
		w.closeProc(p)
	}
	if d, ok := w.Store.Backing.(interface{ Release() }); ok && w.ownBacking {
		d.Release()
	}
	verifhook.RemoveClock()
}

func (w *World) closeProc(p *Proc) {
	if p.Closed {
		return
	}
	for _, s := range p.Sessions {
		if !s.Closed {
			w.guard(fmt.Sprintf("Session.Close on %s / %q", p.Name, s.Partition), func() { s.S.Close() })
			s.Closed = true
		}
	}
	p.Sessions = nil
	w.guard("SessionFactory.Close on "+p.Name, func() { p.Factory.Close() })
	p.Closed = true
}

// IKID returns the intermediate key id the SDK is documented to use for partition.
func (w *World) IKID(partition string) string {
	return kit.RefIKID(partition, w.Service, w.Product, w.Opt.Suffix)
}

// SKID returns the documented system key id.
func (w *World) SKID() string { return kit.RefSKID(w.Service, w.Product, w.Opt.Suffix) }

func (w *World) begin(kind string, p *Proc, s *Sess, part string) *Event {
	ev := &Event{Seq: len(w.Events), Kind: kind, Proc: p, Sess: s, Partition: part, At: w.Now(),
		CallFrom: w.Log.Len(), AEADFrom: w.AEAD.Len(), SecretFrom: w.Secrets.Count(), LiveBefore: w.Secrets.LiveCount()}
	w.Secrets.SetTag(fmt.Sprintf("op%d:%s", ev.Seq, kind))
	if p != nil {
		ev.Gen = p.Gen
	}
	return ev
}

func (w *World) end(ev *Event) {
	ev.CallTo, ev.AEADTo, ev.SecretTo, ev.LiveAfter = w.Log.Len(), w.AEAD.Len(), w.Secrets.Count(), w.Secrets.LiveCount()
	w.Events = append(w.Events, ev)
	w.Labels[ev.Kind]++
	ev.Changed = w.ChangedRecord()
	if w.OnOp != nil {
		w.OnOp(ev)
	}
}

// ChangedRecord names a record object handed out by an earlier Encrypt that no longer equals the copy taken
// when it was returned: a returned record belongs to the caller, who may serialise it at any later time.
func (w *World) ChangedRecord() string {
	for _, r := range w.Recs {
		if r.Orig != nil && !DRREqual(*r.Orig, r.DRR) {
			now, _ := json.Marshal(r.Orig)
			return fmt.Sprintf("rec%d, returned by %s as %s, now reads %s", r.ID, r.Proc, r.JSON, now)
		}
	}
	return ""
}

// ---- session handling -------------------------------------------------------------

func (w *World) PickProc(label string) *Proc {
	return w.Procs[rapid.IntRange(0, len(w.Procs)-1).Draw(w.T, label)]
}

func (w *World) PickPart(label string) string {
	return w.Parts[rapid.IntRange(0, len(w.Parts)-1).Draw(w.T, label)]
}

// Open opens a session (an operation of its own).
func (w *World) Open(p *Proc, part string) *Sess {
	ev := w.begin("open", p, nil, part)
	var s *appencryption.Session
	var err error
	w.guard(fmt.Sprintf("GetSession(%q) on %s", part, p.Name), func() { s, err = p.Factory.GetSession(part) })
	ev.Err = err
	var se *Sess
	if err == nil {
		w.sessSeq++
		se = &Sess{ID: w.sessSeq, Proc: p, Gen: p.Gen, Partition: part, S: s, OpenedAt: ev.At}
		p.Sessions = append(p.Sessions, se)
		ev.Sess = se
	}
	w.end(ev)
	if err != nil {
		w.T.Fatalf("GetSession(%q) on %s failed: %v", part, p.Name, err)
	}
	return se
}

// CloseSess closes a held session.
func (w *World) CloseSess(s *Sess) {
	if s.Closed {
		return
	}
	ev := w.begin("close", s.Proc, s, s.Partition)
	w.guard(fmt.Sprintf("Session.Close on %s / %q", s.Proc.Name, s.Partition), func() { ev.Err = s.S.Close() })
	s.Closed = true
	p := s.Proc
	for i, x := range p.Sessions {
		if x == s {
			p.Sessions = append(p.Sessions[:i], p.Sessions[i+1:]...)
			break
		}
	}
	w.end(ev)
	if ev.Err != nil {
		w.T.Fatalf("Session.Close failed: %v", ev.Err)
	}
}

// sessionFor returns a held session of p for part (drawn among the open ones)
// or opens a fresh one. fresh reports whether it was opened now.
func (w *World) SessionFor(p *Proc, part string, preferHeld bool) (*Sess, bool) {
	var held []*Sess
	for _, s := range p.Sessions {
		if s.Partition == part && !s.Closed {
			held = append(held, s)
		}
	}
	if len(held) > 0 && (preferHeld || rapid.IntRange(0, 99).Draw(w.T, "useHeld") < 70) {
		return held[rapid.IntRange(0, len(held)-1).Draw(w.T, "heldIdx")], false
	}
	return w.Open(p, part), true
}

// ---- payloads -----------------------------------------------------------------------

func (w *World) drawPayload() []byte {
	if w.Opt.PayloadGen != nil {
		return w.Opt.PayloadGen(w.T)
	}
	if w.Opt.SmallPayloads {
		return rapid.SliceOfN(rapid.Byte(), 0, 48).Draw(w.T, "payload")
	}
	switch c := rapid.IntRange(0, 99).Draw(w.T, "payloadClass"); {
	case c < 8:
		return []byte{}
	case c < 16:
		return nil
	case c < 60:
		return rapid.SliceOfN(rapid.Byte(), 1, 40).Draw(w.T, "payload")
	case c < 85:
		n := rapid.SampledFrom([]int{15, 16, 17, 31, 32, 33, 255, 4095, 4096, 4097}).Draw(w.T, "payloadLen")
		return filled(n, byte(rapid.IntRange(0, 255).Draw(w.T, "payloadSeed")))
	case c < 98:
		n := rapid.IntRange(41, 70000).Draw(w.T, "payloadLen")
		return filled(n, byte(rapid.IntRange(0, 255).Draw(w.T, "payloadSeed")))
	default:
		return filled(1<<20, byte(rapid.IntRange(0, 255).Draw(w.T, "payloadSeed")))
	}
}

func filled(n int, seed byte) []byte {
	b := make([]byte, n)
	x := uint32(seed)*2654435761 + 12345
	for i := range b {
		x = x*1664525 + 1013904223
		b[i] = byte(x >> 24)
	}
	return b
}

// ---- storer / loader -------------------------------------------------------------------

type kvStore struct{ w *World }

func (k kvStore) Store(_ context.Context, d appencryption.DataRowRecord) (interface{}, error) {
	k.w.kvSeq++
	k.w.kv[k.w.kvSeq] = d
	return k.w.kvSeq, nil
}

func (k kvStore) Load(_ context.Context, key interface{}) (*appencryption.DataRowRecord, error) {
	d, ok := k.w.kv[key.(int)]
	if !ok {
		return nil, fmt.Errorf("no such record %v", key)
	}
	return &d, nil
}

// CloneDRR deep-copies a record.
func CloneDRR(d appencryption.DataRowRecord) appencryption.DataRowRecord {
	res := appencryption.DataRowRecord{}
	if d.Data != nil {
		res.Data = append(make([]byte, 0, len(d.Data)), d.Data...)
	}
	if d.Key != nil {
		k := *d.Key
		if d.Key.EncryptedKey != nil {
			k.EncryptedKey = append(make([]byte, 0, len(d.Key.EncryptedKey)), d.Key.EncryptedKey...)
		}
		if d.Key.ParentKeyMeta != nil {
			pm := *d.Key.ParentKeyMeta
			k.ParentKeyMeta = &pm
		}
		res.Key = &k
	}
	return res
}

// DRREqual compares two records field by field.
func DRREqual(a, b appencryption.DataRowRecord) bool {
	if !bytes.Equal(a.Data, b.Data) || (a.Data == nil) != (b.Data == nil) {
		return false
	}
	if (a.Key == nil) != (b.Key == nil) {
		return false
	}
	if a.Key == nil {
		return true
	}
	if a.Key.Created != b.Key.Created || a.Key.ID != b.Key.ID || a.Key.Revoked != b.Key.Revoked || !bytes.Equal(a.Key.EncryptedKey, b.Key.EncryptedKey) {
		return false
	}
	if (a.Key.ParentKeyMeta == nil) != (b.Key.ParentKeyMeta == nil) {
		return false
	}
	if a.Key.ParentKeyMeta != nil && *a.Key.ParentKeyMeta != *b.Key.ParentKeyMeta {
		return false
	}
	return true
}

// ---- operations --------------------------------------------------------------------------

// HangAfter is the real time an SDK call may take before it is reported as blocked forever
// (the clock the SDK sees is virtual; a call normally takes microseconds).
var HangAfter = 90 * time.Second

// guard runs one SDK call under a watchdog: a call that never returns (a lock left held, a
// wait that is never signalled) is a violation of every property that says "the operation
// succeeds / returns an error", and must not be mistaken for a slow test.
func (w *World) guard(what string, f func()) {
	done := make(chan any, 1)
	go func() {
		defer func() { done <- recover() }()
		f()
	}()
	select {
	case p := <-done:
		if p != nil {
			panic(p)
		}
	case <-time.After(HangAfter):
		kit.Abort(fmt.Sprintf("%s violated: %s did not return within %s of real time (blocked forever: a lock left held or a wait never signalled)\n%s", kit.Rec.Property, what, HangAfter, w.Describe()))
	}
}

// Encrypt performs one encrypt (or store) through session s and pools the record.
func (w *World) Encrypt(s *Sess, payload []byte, viaStore bool, fresh bool) (*Event, *Rec) {
	ev := w.begin("encrypt", s.Proc, s, s.Partition)
	ev.FreshSess = fresh
	orig := append([]byte(nil), payload...)
	var drr *appencryption.DataRowRecord
	var err error
	if viaStore {
		var key interface{}
		w.guard(fmt.Sprintf("Session.Store on %s / %q", s.Proc.Name, s.Partition), func() { key, err = s.S.Store(w.newOpCtx(), payload, kvStore{w}) })
		if err == nil {
			d := w.kv[key.(int)]
			drr = &d
		}
	} else {
		w.guard(fmt.Sprintf("Session.Encrypt on %s / %q", s.Proc.Name, s.Partition), func() { drr, err = s.S.Encrypt(w.newOpCtx(), payload) })
	}
	ev.Err = err
	s.Ops++
	if !bytes.Equal(orig, payload) {
		ev.Detail = "PAYLOAD-MODIFIED"
	}
	var rec *Rec
	if err == nil && drr != nil {
		s.Encrypts++
		rec = &Rec{ID: len(w.Recs), Partition: s.Partition, Payload: orig, DRR: CloneDRR(*drr), Orig: drr, BornAt: ev.At, Proc: s.Proc.Name, SessID: s.ID, ViaStore: viaStore}
		rec.JSON, _ = json.Marshal(drr)
		if drr.Key != nil && drr.Key.ParentKeyMeta != nil {
			rec.IKID, rec.IKCreated = drr.Key.ParentKeyMeta.ID, drr.Key.ParentKeyMeta.Created
		}
		w.Recs = append(w.Recs, rec)
		ev.Rec = rec
	}
	w.end(ev)
	return ev, rec
}

// Decrypt performs one decrypt (or load) of rec through session s and returns the plaintext.
func (w *World) Decrypt(s *Sess, rec *Rec, viaLoad bool, fresh bool) (*Event, []byte) {
	ev := w.begin("decrypt", s.Proc, s, s.Partition)
	ev.Rec = rec
	ev.FreshSess = fresh
	arg := CloneDRR(rec.DRR)
	keep := arg // shares backing arrays with arg: detects in-place modification
	before := CloneDRR(arg)
	var out []byte
	var err error
	if viaLoad {
		w.kvSeq++
		w.kv[w.kvSeq] = arg
		w.guard(fmt.Sprintf("Session.Load on %s / %q", s.Proc.Name, s.Partition), func() { out, err = s.S.Load(w.newOpCtx(), w.kvSeq, kvStore{w}) })
	} else {
		w.guard(fmt.Sprintf("Session.Decrypt on %s / %q", s.Proc.Name, s.Partition), func() { out, err = s.S.Decrypt(w.newOpCtx(), arg) })
	}
	s.Ops++
	ev.Err = err
	ev.Out = out
	if !DRREqual(keep, before) {
		ev.Detail = "RECORD-MODIFIED"
	}
	ev.ArgAfter = &keep
	w.end(ev)
	return ev, out
}

// Restart closes a process (sessions, factory), redraws its policy and reopens it.
func (w *World) Restart(p *Proc) {
	ev := w.begin("restart", p, nil, "")
	w.closeProc(p)
	p.Gen++
	old := p.Policy
	p.Policy = DrawPolicy(w.T, w.Opt)
	if w.Opt.HomogeneousTime {
		p.Policy.ExpireKeyAfter, p.Policy.RevokeCheckInterval, p.Policy.CreateDatePrecision = old.ExpireKeyAfter, old.RevokeCheckInterval, old.CreateDatePrecision
	}
	w.startProc(p)
	w.end(ev)
}

// Restart0 closes a process and reopens it with the SAME policy (cold caches).
func (w *World) Restart0(p *Proc) {
	ev := w.begin("restart", p, nil, "")
	w.closeProc(p)
	p.Gen++
	w.startProc(p)
	w.end(ev)
}

// Advance moves the virtual clock.
func (w *World) Advance(d time.Duration) {
	ev := w.begin("advance", nil, nil, "")
	verifhook.Advance(d)
	ev.Detail = d.String()
	w.end(ev)
}

// DrawAdvance draws a clock step concentrated on the interesting boundaries of p's policy.
func (w *World) DrawAdvance(p *Proc) time.Duration {
	pol := p.Policy
	iv, ex := pol.RevokeCheckInterval, pol.ExpireKeyAfter
	sec := time.Second
	cands := []time.Duration{
		time.Duration(rapid.IntRange(1, 999).Draw(w.T, "ms")) * time.Millisecond,
		sec, iv - sec, iv, iv + sec, 2*iv + sec,
		ex - iv - sec, ex - sec, ex, ex + sec, ex + iv + sec, 2*ex + 2*sec,
		pol.CreateDatePrecision, pol.CreateDatePrecision + sec,
		pol.SessionCacheDuration + sec,
	}
	var ok []time.Duration
	for _, c := range cands {
		if c > 0 {
			ok = append(ok, c)
		}
	}
	return ok[rapid.IntRange(0, len(ok)-1).Draw(w.T, "advanceIdx")]
}

// RevokeRow flags a stored key revoked out of band.
func (w *World) RevokeRow(id string, created int64, isSK bool) bool {
	ev := w.begin("revoke", nil, nil, "")
	ok := w.Store.Revoke(id, created)
	ev.Detail = fmt.Sprintf("%s@%d ok=%v", id, created, ok)
	if ok {
		w.Revoked = append(w.Revoked, RevokeInfo{ID: id, Created: created, At: ev.At, IsSK: isSK})
	}
	w.end(ev)
	return ok
}

// ExternalRotate lets "another process" (the reference implementation) insert a
// newer IK for part, optionally under a brand-new SK. The new stamps are the
// current second, so nothing happens if a row with that stamp already exists.
func (w *World) ExternalRotate(part string, newSK bool) bool {
	ev := w.begin("rotate", nil, nil, part)
	defer w.end(ev)
	// ExtClockAhead: the other process's host clock runs ahead of ours
	now := verifhook.Now().Add(w.ExtClockAhead).Unix()
	skID, ikID := w.SKID(), w.IKID(part)
	if w.ExtSuffix != nil {
		// the other process belongs to a deployment with another (or no) region suffix: its keys have their own ids
		skID, ikID = kit.RefSKID(w.Service, w.Product, *w.ExtSuffix), kit.RefIKID(part, w.Service, w.Product, *w.ExtSuffix)
	}
	var sk []byte
	var skCreated int64
	latestSK := w.Store.Latest(skID)
	if w.Opt.HomogeneousTime {
		// the other process runs the same policy: truncated stamps, and it never
		// creates an IK under an SK that is expired or revoked
		pol := w.Procs[0].Policy
		if pol.CreateDatePrecision > 0 {
			now = verifhook.Now().Add(w.ExtClockAhead).Truncate(pol.CreateDatePrecision).Unix()
		}
		if latestSK != nil && (latestSK.Rec.Revoked || verifhook.Now().After(time.Unix(latestSK.Created, 0).Add(pol.ExpireKeyAfter))) {
			newSK = true
		}
	}
	if newSK || latestSK == nil {
		if latestSK != nil && latestSK.Created >= now {
			ev.Detail = "skip: SK stamp taken"
			return false
		}
		var row kit.RefEKR
		sk, row = kit.RefNewSK(func(b []byte) []byte { return kit.KMSWrap(w.KMS.Master, b) }, now)
		skCreated = now
		if !w.Store.Insert("ext", skID, now, &appencryption.EnvelopeKeyRecord{ID: skID, Created: now, EncryptedKey: row.Key}) {
			ev.Detail = "skip: SK insert refused"
			return false
		}
	} else {
		var err error
		sk, err = kit.KMSUnwrap(w.KMS.Master, latestSK.Rec.EncryptedKey)
		if err != nil {
			w.T.Fatalf("harness: cannot unwrap stored SK: %v", err)
		}
		skCreated = latestSK.Created
	}
	if l := w.Store.Latest(ikID); l != nil && l.Created >= now {
		ev.Detail = "skip: IK stamp taken"
		return false
	}
	_, row, err := kit.RefNewIK(sk, skID, skCreated, now)
	if err != nil {
		w.T.Fatalf("harness: %v", err)
	}
	ok := w.Store.Insert("ext", ikID, now, &appencryption.EnvelopeKeyRecord{ID: ikID, Created: now, EncryptedKey: row.Key,
		ParentKeyMeta: &appencryption.KeyMeta{ID: skID, Created: skCreated}})
	ev.Detail = fmt.Sprintf("ik=%s@%d sk@%d newSK=%v ok=%v", ikID, now, skCreated, newSK, ok)
	return ok
}

// Snapshot copies the key table for the reference decryptor.
func (w *World) Snapshot() kit.RefSnapshot {
	snap, err := w.Store.RefSnapshot()
	if err != nil {
		w.T.Fatalf("the rows in the database are not in the documented shape: %v", err)
	}
	return snap
}

// RefKMS is the reference implementation's access to the KMS.
func (w *World) RefKMS() kit.RefKMS {
	return func(ct []byte) ([]byte, error) { return kit.KMSUnwrap(w.KMS.Master, ct) }
}

// RefDecryptRec decrypts rec with the reference implementation from its JSON form.
func (w *World) RefDecryptRec(rec *Rec, snap kit.RefSnapshot) ([]byte, error) {
	d, err := kit.ParseDRRStrict(rec.JSON)
	if err != nil {
		return nil, fmt.Errorf("reference parser rejects the record JSON: %v", err)
	}
	return kit.RefDecrypt(snap, w.RefKMS(), d)
}

// History renders the event list compactly (for failure messages and samples).
func (w *World) History() []string {
	var res []string
	for _, ev := range w.Events {
		res = append(res, ev.String())
	}
	return res
}

func (ev *Event) String() string {
	var sb strings.Builder
	fmt.Fprintf(&sb, "#%d %s", ev.Seq, ev.Kind)
	if ev.Proc != nil {
		fmt.Fprintf(&sb, " %s", ev.Proc.Name)
	}
	if ev.Sess != nil {
		fmt.Fprintf(&sb, " s%d", ev.Sess.ID)
		if ev.FreshSess {
			sb.WriteString("(fresh)")
		}
	}
	if ev.Partition != "" {
		fmt.Fprintf(&sb, " part=%q", ev.Partition)
	}
	if ev.Rec != nil {
		fmt.Fprintf(&sb, " rec%d(ik@%d,%dB)", ev.Rec.ID, ev.Rec.IKCreated, len(ev.Rec.Payload))
	}
	if ev.Detail != "" {
		fmt.Fprintf(&sb, " %s", ev.Detail)
	}
	if ev.Err != nil {
		fmt.Fprintf(&sb, " ERR=%v", ev.Err)
	}
	return sb.String()
}

// Describe renders the whole world for a failure message.
func (w *World) Describe() string {
	var sb strings.Builder
	fmt.Fprintf(&sb, "service=%q product=%q parts=%q suffix=%q start=%d\n", w.Service, w.Product, w.Parts, w.Opt.Suffix, w.Start.Unix())
	for _, p := range w.Procs {
		fmt.Fprintf(&sb, "  %s gen%d: %s\n", p.Name, p.Gen, PolicyString(p.Policy))
	}
	for _, ev := range w.Events {
		fmt.Fprintf(&sb, "  [+%6.1fs] %s\n", float64(ev.At-w.Start.UnixNano())/1e9, ev.String())
	}
	sb.WriteString("  store:\n")
	for _, r := range w.Store.Rows() {
		par := ""
		if r.Rec.ParentKeyMeta != nil {
			par = fmt.Sprintf(" parent=%s@%d", r.Rec.ParentKeyMeta.ID, r.Rec.ParentKeyMeta.Created)
		}
		fmt.Fprintf(&sb, "    %s@%d by=%s revoked=%v%s\n", r.ID, r.Created, r.By, r.Rec.Revoked, par)
	}
	return sb.String()
}

// SortedLabels renders the label counters.
func SortedLabels(m map[string]int) string {
	var ks []string
	for k := range m {
		ks = append(ks, k)
	}
	sort.Strings(ks)
	var sb strings.Builder
	for _, k := range ks {
		fmt.Fprintf(&sb, "%s=%d ", k, m[k])
	}
	return sb.String()
}
