package world

import (
	"pgregory.net/rapid"
)

// Actions returns the standard action set of the world machine. Property
// packages choose weights with kit.Weighted.
func (w *World) Actions() map[string]func(*rapid.T) {
	return map[string]func(*rapid.T){
		"encrypt": func(t *rapid.T) {
			p := w.PickProc("proc")
			part := w.PickPart("part")
			s, fresh := w.SessionFor(p, part, false)
			payload := w.drawPayload()
			viaStore := rapid.IntRange(0, 9).Draw(t, "viaStore") == 0
			w.Encrypt(s, payload, viaStore, fresh)
			if fresh && rapid.IntRange(0, 99).Draw(t, "closeAfter") < 50 {
				w.CloseSess(s)
			}
		},
		"decrypt": func(t *rapid.T) {
			if len(w.Recs) == 0 {
				t.Skip("no records yet")
			}
			rec := w.pickRec()
			p := w.PickProc("proc")
			s, fresh := w.SessionFor(p, rec.Partition, false)
			viaLoad := rapid.IntRange(0, 9).Draw(t, "viaLoad") == 0
			w.Decrypt(s, rec, viaLoad, fresh)
			if fresh && rapid.IntRange(0, 99).Draw(t, "closeAfter") < 50 {
				w.CloseSess(s)
			}
		},
		"open": func(t *rapid.T) {
			w.Open(w.PickProc("proc"), w.PickPart("part"))
		},
		"close": func(t *rapid.T) {
			var open []*Sess
			for _, p := range w.Procs {
				open = append(open, p.Sessions...)
			}
			if len(open) == 0 {
				t.Skip("no open session")
			}
			w.CloseSess(open[rapid.IntRange(0, len(open)-1).Draw(t, "sess")])
		},
		"restart": func(t *rapid.T) {
			w.Restart(w.PickProc("proc"))
		},
		"advance": func(t *rapid.T) {
			w.Advance(w.DrawAdvance(w.PickProc("policyOf")))
		},
		"revoke": func(t *rapid.T) {
			w.DrawRevoke()
		},
		"rotate": func(t *rapid.T) {
			w.ExternalRotate(w.PickPart("part"), rapid.IntRange(0, 2).Draw(t, "newSK") == 0)
		},
		// a compound history that random interleaving reaches too rarely: on a held session whose
		// partition has already rotated to a newer IK, (optionally after other partitions pushed
		// keys out of a bounded cache) an OLD-generation record is decrypted and the very next
		// thing the session does is encrypt: the new record names the newest key, not the old one
		"oldThenNew": func(t *rapid.T) {
			type cand struct {
				s   *Sess
				rec *Rec
			}
			var cands []cand
			for _, p := range w.Procs {
				for _, s := range p.Sessions {
					newest := int64(0)
					var oldest *Rec
					for _, r := range w.Recs {
						if r.Partition != s.Partition {
							continue
						}
						if r.IKCreated > newest {
							newest = r.IKCreated
						}
						if oldest == nil || r.IKCreated < oldest.IKCreated {
							oldest = r
						}
					}
					if oldest != nil && oldest.IKCreated < newest {
						cands = append(cands, cand{s, oldest})
					}
				}
			}
			if len(cands) == 0 {
				t.Skip("no held session whose partition has records under two IK generations")
			}
			c := cands[rapid.IntRange(0, len(cands)-1).Draw(t, "sess")]
			if rapid.Bool().Draw(t, "pressureFirst") {
				for _, part := range w.Parts {
					if part != c.s.Partition {
						o, fresh := w.SessionFor(c.s.Proc, part, true)
						w.Encrypt(o, []byte("pressure"), false, fresh)
					}
				}
			}
			w.Decrypt(c.s, c.rec, false, false)
			w.Encrypt(c.s, []byte("after an old record"), false, false)
		},
		"pressure": func(t *rapid.T) {
			// touch several partitions on one process to create eviction pressure
			p := w.PickProc("proc")
			ev := w.begin("pressure", p, nil, "")
			w.end(ev)
			for _, part := range w.Parts {
				s, fresh := w.SessionFor(p, part, true)
				w.Encrypt(s, []byte("pressure"), false, fresh)
			}
		},
	}
}

// pickRec draws a record, biased towards old ones and the most recent one.
func (w *World) pickRec() *Rec {
	switch rapid.IntRange(0, 3).Draw(w.T, "recBias") {
	case 0:
		return w.Recs[0]
	case 1:
		return w.Recs[len(w.Recs)-1]
	default:
		return w.Recs[rapid.IntRange(0, len(w.Recs)-1).Draw(w.T, "rec")]
	}
}

// DrawRevoke revokes the latest IK of a partition, the latest SK, or an older key.
func (w *World) DrawRevoke() bool {
	t := w.T
	switch rapid.IntRange(0, 9).Draw(t, "revokeWhat") {
	case 0, 1, 2, 3, 4: // latest IK of a partition
		id := w.IKID(w.PickPart("part"))
		r := w.Store.Latest(id)
		if r == nil {
			t.Skip("no IK yet")
		}
		return w.RevokeRow(id, r.Created, false)
	case 5, 6, 7: // latest SK
		r := w.Store.Latest(w.SKID())
		if r == nil {
			t.Skip("no SK yet")
		}
		return w.RevokeRow(w.SKID(), r.Created, true)
	default: // any row
		rows := w.Store.Rows()
		if len(rows) == 0 {
			t.Skip("no rows yet")
		}
		r := rows[rapid.IntRange(0, len(rows)-1).Draw(t, "row")]
		return w.RevokeRow(r.ID, r.Created, r.ID == w.SKID())
	}
}
