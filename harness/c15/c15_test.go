package c15

import (
	"fmt"
	"math"
	"sync"
	"sync/atomic"
	"testing"
	"time"

	"github.com/godaddy/asherah/go/appencryption/pkg/cache"
	"pgregory.net/rapid"
	"verif/kit"
)

func TestMain(m *testing.M) {
	kit.Main(m, "C15", "exploration",
		"cache.New through its public builder with an injected Clock. (1) EXHAUSTIVE: every sequence up to length L (quick 5, thorough 6 and 7 for capacities 1-2; asynchronous mode 4 / 5) over {Set k (fresh value), Get k, Delete k} x 3 keys, clock advance (0.6 x expiry), Close, for all four policies x capacities 1..3 x expiry on/off; "+
			"(2) rapid: long sequences (up to 300 / 2000 operations, key universe = capacity + 3, incl. GetOrPanic) over capacities 1..6, 99, 100, 101, 199, 200, all policies, with/without expiry (10 s, 2.5 s, and the usual 'never' value, the largest Duration; clock steps of whole seconds and of seconds plus 100-999 ms), synchronous and asynchronous eviction; (2b) runs of 8-20 x capacity operations at capacities 100 / 101 / 128 so that the frequency-sketch policies complete several sample periods; (2c) 2-6 goroutines doing Get / Set (run-unique values) / Delete on caches of capacity 1-3 and 100: no panic, no deadlock, no value notified twice, hits return values set for that key, at most capacity entries at quiescence, Close notifies exactly the residents (the package documents the cache as safe for concurrent access); (3) thorough: the same property under go test -fuzz via rapid.MakeFuzz. "+
			"Oracle: a reference model that owns presence through the callbacks (present = set - deleted - notified): Len = |present| <= capacity after every operation; Get hits with the last value iff present; a miss of a present key is legal only by expiry and must be notified in that call; "+
			"no callback for an absent key, no second callback for one residence, callback value = value held; Close notifies every remaining entry exactly once and the cache is inert afterwards; LRU victim = least recently used (exact), LFU victim has minimal use count (ties free), "+
			"SLRU victims consistent with a segmented LRU for some split into two non-empty segments (protected size 1..capacity-1; capacity 1: one segment); every operation under a 20 s deadlock watchdog, any panic is a violation. "+
			"One evaluation = one sequence. Non-trivial = the sequence contains an eviction or an expiry; enumerated sequences are distinct by construction, random ones by (config, operation sequence)",
		"Delete may notify 0 or 1 time; sliding expiry tolerated; TinyLFU victim choice and capacity 0 not asserted", "asynchronous mode: callbacks are awaited (bounded) after each operation")
}

var policies = []string{"lru", "lfu", "slru", "tinylfu"}

func fail(t interface{ Fatalf(string, ...any) }, cfg config, ops []op, at int, msg string) {
	kit.Rec.Violation(msg)
	t.Fatalf("C15 violated: %s\n  config: %s\n  sequence: %s\n  failing operation index: %d", msg, cfg, opsString(ops[:at+1]), at)
}

// alphabet for the exhaustive part.
func alphabet(cfg config) []op {
	var a []op
	for k := 0; k < 3; k++ {
		a = append(a, op{kind: opSet, key: k}, op{kind: opGet, key: k}, op{kind: opDelete, key: k})
	}
	if cfg.expiry > 0 {
		a = append(a, op{kind: opAdvance, dur: cfg.expiry*6/10 + time.Nanosecond})
	}
	a = append(a, op{kind: opClose})
	return a
}

func TestExhaustive(t *testing.T) {
	shard, shards := kit.Shard()
	lenSync, lenAsync := kit.Pick(5, 6), kit.Pick(4, 5)
	var cfgs []config
	for _, p := range policies {
		for c := 1; c <= 3; c++ {
			for _, e := range []time.Duration{0, 10 * time.Second} {
				cfgs = append(cfgs, config{p, c, e, true}, config{p, c, e, false})
			}
		}
	}
	// TinyLFU switches to an admission window at capacity 100 (window 1) and 200 (window 2)
	for _, c := range []int{99, 100, 101, 200} {
		cfgs = append(cfgs, config{"tinylfu", c, 0, true}, config{"tinylfu", c, 10 * time.Second, true}, config{"tinylfu", c, 0, false})
	}
	unit := 0
	for _, cfg := range cfgs {
		L := lenSync
		if !cfg.sync {
			L = lenAsync
		} else if kit.Thorough() && cfg.capacity <= 2 {
			L = lenSync + 1 // thorough: length 7 for the tightest capacities
		}
		alpha := alphabet(cfg)
		// work units = (config, first symbol), distributed over the shards
		for first := range alpha {
			unit++
			if unit%shards != shard {
				continue
			}
			var total, nontrivial int64
			seq := make([]op, 0, L)
			var rec func()
			rec = func() {
				if len(seq) > 0 {
					// values are the step index so every Set writes a fresh value
					ops := make([]op, len(seq))
					for i, o := range seq {
						o.val = 100 + i
						ops[i] = o
					}
					viol, ev, ex, at := run(cfg, ops)
					total++
					if ev+ex > 0 {
						nontrivial++
						if total%5000 == 1 {
							kit.Rec.Sample(map[string]any{"config": cfg.String(), "sequence": opsString(ops), "evictions": ev, "expiries": ex})
						}
					}
					if viol != "" {
						fail(t, cfg, ops, at, viol)
					}
				}
				if len(seq) == L {
					return
				}
				for i := range alpha {
					if len(seq) == 0 && i != first {
						continue
					}
					seq = append(seq, alpha[i])
					rec()
					seq = seq[:len(seq)-1]
				}
			}
			rec()
			kit.Rec.Enumerated(total, nontrivial)
			kit.Rec.LabelN("exhaustive:"+cfg.policy, total)
		}
	}
	kit.Rec.Extra("exhaustive_max_len_sync", lenSync)
	kit.Rec.Extra("exhaustive_max_len_async", lenAsync)
	kit.Rec.SetExhaustive(false) // the whole check also contains sampled parts
}

var capacities = []int{1, 2, 3, 4, 5, 6, 99, 100, 101, 199, 200}

func drawCase(t *rapid.T, maxOps int) (config, []op) {
	cfg := config{
		policy:   rapid.SampledFrom(policies).Draw(t, "policy"),
		capacity: rapid.SampledFrom(capacities).Draw(t, "capacity"),
		expiry:   rapid.SampledFrom([]time.Duration{0, 0, 10 * time.Second, 10 * time.Second, 2500 * time.Millisecond, time.Duration(math.MaxInt64)}).Draw(t, "expiry"),
		sync:     rapid.IntRange(0, 3).Draw(t, "async") != 0,
	}
	keys := cfg.capacity + 3
	n := rapid.IntRange(1, maxOps).Draw(t, "n")
	prefill := 0
	if cfg.capacity >= 99 {
		// usually reach the capacity by prefilling, but also leave the cache nearly empty
		prefill = rapid.SampledFrom([]int{0, 1, 2, cfg.capacity - 2, cfg.capacity - 2, cfg.capacity}).Draw(t, "prefill")
		n += prefill
	}
	ops := make([]op, 0, n)
	for i := 0; i < n; i++ {
		var o op
		if i < prefill {
			o = op{kind: opSet, key: i, val: i}
		} else {
			k := rapid.IntRange(0, keys-1).Draw(t, "key")
			switch c := rapid.IntRange(0, 99).Draw(t, "kind"); {
			case c < 38:
				o = op{kind: opSet, key: k, val: 1000 + i}
			case c < 76:
				o = op{kind: opGet, key: k}
			case c < 80:
				o = op{kind: opGetOrPanic, key: k}
			case c < 90:
				o = op{kind: opDelete, key: k}
			case c < 98:
				if cfg.expiry > 0 {
					// whole seconds and steps that end between two seconds (expiry is a Duration, not a count of seconds)
					o = op{kind: opAdvance, dur: time.Duration(rapid.IntRange(0, 12).Draw(t, "secs"))*time.Second + rapid.SampledFrom([]time.Duration{0, 0, 100 * time.Millisecond, 400 * time.Millisecond, 500 * time.Millisecond, 999 * time.Millisecond}).Draw(t, "millis")}
					if o.dur == 0 {
						o.dur = time.Second
					}
				} else {
					o = op{kind: opGet, key: k}
				}
			default:
				o = op{kind: opClose}
			}
		}
		ops = append(ops, o)
	}
	return cfg, ops
}

func prop(maxOps int) func(t *rapid.T) {
	return func(t *rapid.T) {
		cfg, ops := drawCase(t, maxOps)
		viol, ev, ex, at := run(cfg, ops)
		kit.Rec.Case(cfg.String()+"|"+opsString(ops), ev+ex > 0, func() any {
			s := opsString(ops)
			if len(s) > 600 {
				s = s[:600] + " ..."
			}
			return map[string]any{"config": cfg.String(), "operations": len(ops), "sequence": s, "evictions": ev, "expiries": ex}
		})
		kit.Rec.Label("random:" + cfg.policy + fmt.Sprintf(":sync=%v", cfg.sync))
		if viol != "" {
			fail(t, cfg, ops, at, viol)
		}
	}
}

// TestSamplePeriods: runs long enough for the frequency-sketch policies to complete several
// sample periods (TinyLFU resets its doorkeeper and halves its counters every 8 x capacity
// recorded accesses, and only at capacity >= 100), with the same model as everywhere else.
func TestSamplePeriods(t *testing.T) {
	kit.Check(t, 60, 3000, func(t *rapid.T) {
		cfg := config{
			policy:   rapid.SampledFrom([]string{"tinylfu", "tinylfu", "slru", "lfu", "lru"}).Draw(t, "policy"),
			capacity: rapid.SampledFrom([]int{100, 101, 128}).Draw(t, "capacity"),
			sync:     true,
		}
		n := rapid.IntRange(8*cfg.capacity, 20*cfg.capacity).Draw(t, "n")
		keys := cfg.capacity + rapid.SampledFrom([]int{-20, 3, 40}).Draw(t, "keySpace")
		ops := make([]op, 0, n)
		for i := 0; i < n; i++ {
			k := rapid.IntRange(0, keys-1).Draw(t, "key")
			switch c := rapid.IntRange(0, 9).Draw(t, "kind"); {
			case c < 4:
				ops = append(ops, op{kind: opSet, key: k, val: 1000 + i})
			case c < 9:
				ops = append(ops, op{kind: opGet, key: k})
			default:
				ops = append(ops, op{kind: opDelete, key: k})
			}
		}
		viol, ev, ex, at := run(cfg, ops)
		kit.Rec.Case(fmt.Sprintf("periods|%s|%d|%d|%d", cfg.String(), n, keys, ev), ev > 0, func() any {
			return map[string]any{"config": cfg.String(), "operations": len(ops), "key_space": keys, "evictions": ev, "expiries": ex, "sample_periods_completed": n / (8 * cfg.capacity)}
		})
		kit.Rec.Label("sample-periods:" + cfg.policy)
		if viol != "" {
			fail(t, cfg, ops, at, viol)
		}
	})
}

func TestRandomLong(t *testing.T) {
	kit.Check(t, 1000, 160000, prop(kit.Pick(300, 2000)))
}

// FuzzCacheModel drives the same property from the native fuzzer (thorough tier).
func FuzzCacheModel(f *testing.F) {
	f.Fuzz(rapid.MakeFuzz(prop(400)))
}

// TestConcurrentUse: "The cache is safe for concurrent access." Several goroutines Get / Set /
// Delete over a small key space on a tiny cache; every Set stores a value that is unique in the
// run, so each residence is identifiable. At quiescence: nothing panicked, no value was notified
// twice, a hit only ever returned a value that was set for that key, the cache holds at most its
// capacity, and Close notifies exactly the residents - every value set is accounted for as
// notified at most once, silently replaced by a later Set of its key, or deleted.
func TestConcurrentUse(t *testing.T) {
	kit.Check(t, 40, 1500, func(t *rapid.T) {
		cfg := config{
			policy:   rapid.SampledFrom(policies).Draw(t, "policy"),
			capacity: rapid.SampledFrom([]int{1, 2, 3, 100}).Draw(t, "capacity"),
			sync:     rapid.Bool().Draw(t, "sync"),
		}
		workers := rapid.IntRange(2, 6).Draw(t, "workers")
		opsPer := rapid.IntRange(200, 1500).Draw(t, "ops")
		keys := cfg.capacity + rapid.IntRange(1, 3).Draw(t, "extraKeys")
		seeds := make([]uint32, workers)
		for i := range seeds {
			seeds[i] = uint32(rapid.IntRange(1, 1<<30).Draw(t, "stream"))
		}
		var mu sync.Mutex
		notified := map[int]int{} // value -> callbacks
		keyOf := map[int]int{}    // value -> key it was set for
		var firstErr atomic.Value
		note := func(format string, args ...any) { firstErr.CompareAndSwap(nil, fmt.Sprintf(format, args...)) }
		b := cache.New[int, int](cfg.capacity).WithPolicy(cache.CachePolicy(cfg.policy)).WithEvictFunc(func(k, v int) {
			mu.Lock()
			notified[v]++
			if kk, ok := keyOf[v]; ok && kk != k {
				note("eviction callback for key %d carried value %d, which was set for key %d", k, v, kk)
			}
			mu.Unlock()
		})
		if cfg.sync {
			b.Synchronous()
		}
		c := b.Build()
		var wg sync.WaitGroup
		start := make(chan struct{})
		for w := 0; w < workers; w++ {
			wg.Add(1)
			go func(w int) {
				defer wg.Done()
				defer func() {
					if p := recover(); p != nil {
						note("worker %d panicked: %v", w, p)
					}
				}()
				x := seeds[w]
				next := func(n int) int { x = x*1664525 + 1013904223; return int(x>>8) % n }
				<-start
				for i := 0; i < opsPer && firstErr.Load() == nil; i++ {
					k := next(keys)
					switch r := next(10); {
					case r < 4:
						v := (w+1)*1_000_000 + i
						mu.Lock()
						keyOf[v] = k
						mu.Unlock()
						c.Set(k, v)
					case r < 9:
						if v, ok := c.Get(k); ok {
							mu.Lock()
							kk, known := keyOf[v]
							mu.Unlock()
							if !known || kk != k {
								note("Get(%d) returned %d, a value that was never set for that key", k, v)
							}
						}
					default:
						c.Delete(k)
					}
				}
			}(w)
		}
		close(start)
		done := make(chan struct{})
		go func() { wg.Wait(); close(done) }()
		select {
		case <-done:
		case <-time.After(watchdog):
			kit.Abort(fmt.Sprintf("C15 violated: concurrent Get / Set / Delete did not finish within %s (deadlock)\n  %s workers=%d", watchdog, cfg, workers))
		}
		bad := func(msg string) {
			kit.Rec.Violation(msg)
			t.Fatalf("C15 violated: %s\n  %s workers=%d ops/worker=%d keys=%d", msg, cfg, workers, opsPer, keys)
		}
		if v := firstErr.Load(); v != nil {
			bad(v.(string))
		}
		time.Sleep(2 * time.Millisecond) // asynchronous callbacks of the last operations
		if n := c.Len(); n > cfg.capacity {
			bad(fmt.Sprintf("after the workers finished the cache holds %d entries, capacity %d", n, cfg.capacity))
		}
		resident := map[int]bool{}
		for k := 0; k < keys; k++ {
			if v, ok := c.Get(k); ok {
				resident[v] = true
			}
		}
		closed := make(chan struct{})
		go func() {
			defer func() {
				if p := recover(); p != nil {
					note("Close panicked: %v", p)
				}
				close(closed)
			}()
			c.Close()
		}()
		select {
		case <-closed:
		case <-time.After(watchdog):
			kit.Abort(fmt.Sprintf("C15 violated: Close after concurrent use did not return within %s\n  %s", watchdog, cfg))
		}
		if v := firstErr.Load(); v != nil {
			bad(v.(string))
		}
		deadline := time.Now().Add(2 * time.Second)
		for {
			mu.Lock()
			missing := 0
			for v := range resident {
				if notified[v] == 0 {
					missing++
				}
			}
			mu.Unlock()
			if missing == 0 || time.Now().After(deadline) {
				break
			}
			time.Sleep(200 * time.Microsecond)
		}
		mu.Lock()
		defer mu.Unlock()
		for v, n := range notified {
			if n > 1 {
				bad(fmt.Sprintf("the eviction callback fired %d times for one residence (value %d of key %d)", n, v, keyOf[v]))
			}
		}
		for v := range resident {
			if notified[v] != 1 {
				bad(fmt.Sprintf("value %d of key %d was still retrievable before Close but Close notified it %d times", v, keyOf[v], notified[v]))
			}
		}
		kit.Rec.Case(fmt.Sprintf("concurrent|%s|%d|%d|%d", cfg, workers, opsPer, keys), true, func() any {
			return map[string]any{"config": cfg.String(), "concurrent_workers": workers, "ops_per_worker": opsPer, "keys": keys, "callbacks": len(notified)}
		})
		kit.Rec.Label("concurrent:" + cfg.policy)
	})
}

// TestStringKeysAreCompared: a lookup returns the value set for THAT key - including keys that
// an internal hash (the TinyLFU sketch hashes strings rune by rune) cannot tell apart: strings
// that differ only in bytes that are not valid UTF-8, in case, or in trailing NULs.
func TestStringKeysAreCompared(t *testing.T) {
	pairs := [][2]string{{"Jos\xe9", "Jos\xe8"}, {"acct-\x00\x00\x00\x80", "acct-\x00\x00\x00\x81"}, {"\xff", "\xfe"}, {"abc", "ABC"}, {"k", "k\x00"}, {"", " "}}
	var total int64
	for _, policy := range policies {
		for _, capacity := range []int{2, 99, 100, 128} {
			for _, pr := range pairs {
				c := cache.New[string, int](capacity).WithPolicy(cache.CachePolicy(policy)).Synchronous().Build()
				c.Set(pr[0], 1)
				c.Set(pr[1], 2)
				v0, ok0 := c.Get(pr[0])
				v1, ok1 := c.Get(pr[1])
				total++
				if !ok0 || !ok1 || v0 != 1 || v1 != 2 || c.Len() != 2 {
					msg := fmt.Sprintf("cache[%s/%d] with keys %q and %q: Get returned (%d,%v) and (%d,%v), Len %d - expected 1 and 2 under two distinct keys", policy, capacity, pr[0], pr[1], v0, ok0, v1, ok1, c.Len())
					kit.Rec.Violation(msg)
					t.Fatalf("C15 violated: %s", msg)
				}
				if !c.Delete(pr[0]) {
					t.Fatalf("C15 violated: Delete(%q) reported absent", pr[0])
				}
				if v, ok := c.Get(pr[1]); !ok || v != 2 {
					msg := fmt.Sprintf("cache[%s/%d]: deleting %q removed %q as well", policy, capacity, pr[0], pr[1])
					kit.Rec.Violation(msg)
					t.Fatalf("C15 violated: %s", msg)
				}
				c.Close()
			}
		}
	}
	kit.Rec.Enumerated(total, total)
	kit.Rec.LabelN("string-key-pairs", total)
}
