package c15

import (
	"fmt"
	"testing"
	"time"

	"pgregory.net/rapid"
	"verif/kit"
)

func TestMain(m *testing.M) {
	kit.Main(m, "C15", "exploration",
		"cache.New through its public builder with an injected Clock. (1) EXHAUSTIVE: every sequence up to length L (quick 5, thorough 6 and 7 for capacities 1-2; asynchronous mode 4 / 5) over {Set k (fresh value), Get k, Delete k} x 3 keys, clock advance (0.6 x expiry), Close, for all four policies x capacities 1..3 x expiry on/off; "+
			"(2) rapid: long sequences (up to 300 / 2000 operations, key universe = capacity + 3, incl. GetOrPanic) over capacities 1..6, 99, 100, 101, 199, 200, all policies, with/without expiry, synchronous and asynchronous eviction; (2b) runs of 8-20 x capacity operations at capacities 100 / 101 / 128 so that the frequency-sketch policies complete several sample periods; (3) thorough: the same property under go test -fuzz via rapid.MakeFuzz. "+
			"Oracle: a reference model that owns presence through the callbacks (present = set - deleted - notified): Len = |present| <= capacity after every operation; Get hits with the last value iff present; a miss of a present key is legal only by expiry and must be notified in that call; "+
			"no callback for an absent key, no second callback for one residence, callback value = value held; Close notifies every remaining entry exactly once and the cache is inert afterwards; LRU victim = least recently used (exact), LFU victim has minimal use count (ties free), "+
			"SLRU victims consistent with a segmented LRU for some protected size 0..capacity; every operation under a 20 s deadlock watchdog, any panic is a violation. "+
			"One evaluation = one sequence. Non-trivial = the sequence contains an eviction or an expiry; enumerated sequences are distinct by construction, random ones by (config, operation sequence)",
		"Delete may notify 0 or 1 time; sliding expiry tolerated; TinyLFU victim choice and capacity 0 not asserted", "asynchronous mode: callbacks are awaited (bounded) after each operation")
}

var policies = []string{"lru", "lfu", "slru", "tinylfu"}

func fail(t interface{ Fatalf(string, ...any) }, cfg config, ops []op, at int, msg string) {
	kit.Rec.Violation(msg)
	t.Fatalf("C15 violated: %s\n  config: %s\n  sequence: %s\n  failing operation index: %d", msg, cfg, opsString(ops[:at+1]), at)
}

// alphabet for the exhaustive part.
func alphabet(cfg config) []op {
	var a []op
	for k := 0; k < 3; k++ {
		a = append(a, op{kind: opSet, key: k}, op{kind: opGet, key: k}, op{kind: opDelete, key: k})
	}
	if cfg.expiry > 0 {
		a = append(a, op{kind: opAdvance, dur: cfg.expiry*6/10 + time.Nanosecond})
	}
	a = append(a, op{kind: opClose})
	return a
}

func TestExhaustive(t *testing.T) {
	shard, shards := kit.Shard()
	lenSync, lenAsync := kit.Pick(5, 6), kit.Pick(4, 5)
	var cfgs []config
	for _, p := range policies {
		for c := 1; c <= 3; c++ {
			for _, e := range []time.Duration{0, 10 * time.Second} {
				cfgs = append(cfgs, config{p, c, e, true}, config{p, c, e, false})
			}
		}
	}
	// TinyLFU switches to an admission window at capacity 100 (window 1) and 200 (window 2)
	for _, c := range []int{99, 100, 101, 200} {
		cfgs = append(cfgs, config{"tinylfu", c, 0, true}, config{"tinylfu", c, 10 * time.Second, true}, config{"tinylfu", c, 0, false})
	}
	unit := 0
	for _, cfg := range cfgs {
		L := lenSync
		if !cfg.sync {
			L = lenAsync
		} else if kit.Thorough() && cfg.capacity <= 2 {
			L = lenSync + 1 // thorough: length 7 for the tightest capacities
		}
		alpha := alphabet(cfg)
		// work units = (config, first symbol), distributed over the shards
		for first := range alpha {
			unit++
			if unit%shards != shard {
				continue
			}
			var total, nontrivial int64
			seq := make([]op, 0, L)
			var rec func()
			rec = func() {
				if len(seq) > 0 {
					// values are the step index so every Set writes a fresh value
					ops := make([]op, len(seq))
					for i, o := range seq {
						o.val = 100 + i
						ops[i] = o
					}
					viol, ev, ex, at := run(cfg, ops)
					total++
					if ev+ex > 0 {
						nontrivial++
						if total%5000 == 1 {
							kit.Rec.Sample(map[string]any{"config": cfg.String(), "sequence": opsString(ops), "evictions": ev, "expiries": ex})
						}
					}
					if viol != "" {
						fail(t, cfg, ops, at, viol)
					}
				}
				if len(seq) == L {
					return
				}
				for i := range alpha {
					if len(seq) == 0 && i != first {
						continue
					}
					seq = append(seq, alpha[i])
					rec()
					seq = seq[:len(seq)-1]
				}
			}
			rec()
			kit.Rec.Enumerated(total, nontrivial)
			kit.Rec.LabelN("exhaustive:"+cfg.policy, total)
		}
	}
	kit.Rec.Extra("exhaustive_max_len_sync", lenSync)
	kit.Rec.Extra("exhaustive_max_len_async", lenAsync)
	kit.Rec.SetExhaustive(false) // the whole check also contains sampled parts
}

var capacities = []int{1, 2, 3, 4, 5, 6, 99, 100, 101, 199, 200}

func drawCase(t *rapid.T, maxOps int) (config, []op) {
	cfg := config{
		policy:   rapid.SampledFrom(policies).Draw(t, "policy"),
		capacity: rapid.SampledFrom(capacities).Draw(t, "capacity"),
		expiry:   rapid.SampledFrom([]time.Duration{0, 0, 10 * time.Second}).Draw(t, "expiry"),
		sync:     rapid.IntRange(0, 3).Draw(t, "async") != 0,
	}
	keys := cfg.capacity + 3
	n := rapid.IntRange(1, maxOps).Draw(t, "n")
	prefill := 0
	if cfg.capacity >= 99 {
		// usually reach the capacity by prefilling, but also leave the cache nearly empty
		prefill = rapid.SampledFrom([]int{0, 1, 2, cfg.capacity - 2, cfg.capacity - 2, cfg.capacity}).Draw(t, "prefill")
		n += prefill
	}
	ops := make([]op, 0, n)
	for i := 0; i < n; i++ {
		var o op
		if i < prefill {
			o = op{kind: opSet, key: i, val: i}
		} else {
			k := rapid.IntRange(0, keys-1).Draw(t, "key")
			switch c := rapid.IntRange(0, 99).Draw(t, "kind"); {
			case c < 38:
				o = op{kind: opSet, key: k, val: 1000 + i}
			case c < 76:
				o = op{kind: opGet, key: k}
			case c < 80:
				o = op{kind: opGetOrPanic, key: k}
			case c < 90:
				o = op{kind: opDelete, key: k}
			case c < 98:
				if cfg.expiry > 0 {
					o = op{kind: opAdvance, dur: time.Duration(rapid.IntRange(1, 12).Draw(t, "secs")) * time.Second}
				} else {
					o = op{kind: opGet, key: k}
				}
			default:
				o = op{kind: opClose}
			}
		}
		ops = append(ops, o)
	}
	return cfg, ops
}

func prop(maxOps int) func(t *rapid.T) {
	return func(t *rapid.T) {
		cfg, ops := drawCase(t, maxOps)
		viol, ev, ex, at := run(cfg, ops)
		kit.Rec.Case(cfg.String()+"|"+opsString(ops), ev+ex > 0, func() any {
			s := opsString(ops)
			if len(s) > 600 {
				s = s[:600] + " ..."
			}
			return map[string]any{"config": cfg.String(), "operations": len(ops), "sequence": s, "evictions": ev, "expiries": ex}
		})
		kit.Rec.Label("random:" + cfg.policy + fmt.Sprintf(":sync=%v", cfg.sync))
		if viol != "" {
			fail(t, cfg, ops, at, viol)
		}
	}
}

// TestSamplePeriods: runs long enough for the frequency-sketch policies to complete several
// sample periods (TinyLFU resets its doorkeeper and halves its counters every 8 x capacity
// recorded accesses, and only at capacity >= 100), with the same model as everywhere else.
func TestSamplePeriods(t *testing.T) {
	kit.Check(t, 60, 3000, func(t *rapid.T) {
		cfg := config{
			policy:   rapid.SampledFrom([]string{"tinylfu", "tinylfu", "slru", "lfu", "lru"}).Draw(t, "policy"),
			capacity: rapid.SampledFrom([]int{100, 101, 128}).Draw(t, "capacity"),
			sync:     true,
		}
		n := rapid.IntRange(8*cfg.capacity, 20*cfg.capacity).Draw(t, "n")
		keys := cfg.capacity + rapid.SampledFrom([]int{-20, 3, 40}).Draw(t, "keySpace")
		ops := make([]op, 0, n)
		for i := 0; i < n; i++ {
			k := rapid.IntRange(0, keys-1).Draw(t, "key")
			switch c := rapid.IntRange(0, 9).Draw(t, "kind"); {
			case c < 4:
				ops = append(ops, op{kind: opSet, key: k, val: 1000 + i})
			case c < 9:
				ops = append(ops, op{kind: opGet, key: k})
			default:
				ops = append(ops, op{kind: opDelete, key: k})
			}
		}
		viol, ev, ex, at := run(cfg, ops)
		kit.Rec.Case(fmt.Sprintf("periods|%s|%d|%d|%d", cfg.String(), n, keys, ev), ev > 0, func() any {
			return map[string]any{"config": cfg.String(), "operations": len(ops), "key_space": keys, "evictions": ev, "expiries": ex, "sample_periods_completed": n / (8 * cfg.capacity)}
		})
		kit.Rec.Label("sample-periods:" + cfg.policy)
		if viol != "" {
			fail(t, cfg, ops, at, viol)
		}
	})
}

func TestRandomLong(t *testing.T) {
	kit.Check(t, 1000, 160000, prop(kit.Pick(300, 2000)))
}

// FuzzCacheModel drives the same property from the native fuzzer (thorough tier).
func FuzzCacheModel(f *testing.F) {
	f.Fuzz(rapid.MakeFuzz(prop(400)))
}
