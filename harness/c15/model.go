// Package c15: generic cache - bounded map with exact eviction notifications, for every policy.
package c15

import (
	"fmt"
	"runtime"
	"sort"
	"strings"
	"sync"
	"sync/atomic"
	"time"

	"github.com/godaddy/asherah/go/appencryption/pkg/cache"
	"verif/kit"
)

// ---- operations ---------------------------------------------------------------------

type opKind int

const (
	opSet opKind = iota
	opGet
	opDelete
	opAdvance
	opClose
	opGetOrPanic
	opLen
)

type op struct {
	kind opKind
	key  int
	val  int
	dur  time.Duration
}

func (o op) String() string {
	switch o.kind {
	case opSet:
		return fmt.Sprintf("Set(%d,%d)", o.key, o.val)
	case opGet:
		return fmt.Sprintf("Get(%d)", o.key)
	case opGetOrPanic:
		return fmt.Sprintf("GetOrPanic(%d)", o.key)
	case opDelete:
		return fmt.Sprintf("Delete(%d)", o.key)
	case opAdvance:
		return fmt.Sprintf("Advance(%s)", o.dur)
	case opClose:
		return "Close"
	case opLen:
		return "Len"
	}
	return "?"
}

// ---- configuration ------------------------------------------------------------------

type config struct {
	policy   string // lru lfu slru tinylfu
	capacity int
	expiry   time.Duration
	sync     bool
}

func (c config) String() string {
	return fmt.Sprintf("%s/cap=%d/expiry=%s/sync=%v", c.policy, c.capacity, c.expiry, c.sync)
}

type fakeClock struct {
	mu  sync.Mutex
	now time.Time
}

func (f *fakeClock) Now() time.Time { f.mu.Lock(); defer f.mu.Unlock(); return f.now }
func (f *fakeClock) advance(d time.Duration) {
	f.mu.Lock()
	f.now = f.now.Add(d)
	f.mu.Unlock()
}

type cb struct{ key, val int }

// sut is the cache under test with its callback recorder.
type sut struct {
	cfg   config
	c     cache.Interface[int, int]
	clock *fakeClock
	mu    sync.Mutex
	cbs   []cb
}

func newSUT(cfg config) *sut {
	s := &sut{cfg: cfg, clock: &fakeClock{now: time.Unix(1_700_000_000, 0)}}
	b := cache.New[int, int](cfg.capacity).WithPolicy(cache.CachePolicy(cfg.policy)).WithClock(s.clock).WithEvictFunc(func(k, v int) {
		s.mu.Lock()
		s.cbs = append(s.cbs, cb{k, v})
		s.mu.Unlock()
	})
	if cfg.expiry > 0 {
		b.WithExpiry(cfg.expiry)
	}
	if cfg.sync {
		b.Synchronous()
	}
	s.c = b.Build()
	return s
}

func (s *sut) callbacks() int { s.mu.Lock(); defer s.mu.Unlock(); return len(s.cbs) }

func (s *sut) take(from int) []cb {
	s.mu.Lock()
	defer s.mu.Unlock()
	return append([]cb(nil), s.cbs[from:]...)
}

// result of applying one operation.
type result struct {
	hit      bool
	val      int
	deleted  bool
	length   int
	panicked string
	cbs      []cb
}

const watchdog = 20 * time.Second

// apply runs one operation under a deadlock watchdog and collects the callbacks it caused.
func (s *sut) apply(o op, expectCallbacks func(lenAfter int) int) result {
	var r result
	before := s.callbacks()
	func() {
		defer func() {
			if p := recover(); p != nil {
				r.panicked = fmt.Sprint(p)
				r.hit = false
				func() {
					defer func() { _ = recover() }()
					r.length = s.c.Len()
				}()
			}
		}()
		switch o.kind {
		case opSet:
			s.c.Set(o.key, o.val)
		case opGet:
			r.val, r.hit = s.c.Get(o.key)
		case opGetOrPanic:
			r.val = s.c.GetOrPanic(o.key)
			r.hit = true
		case opDelete:
			r.deleted = s.c.Delete(o.key)
		case opAdvance:
			s.clock.advance(o.dur)
		case opClose:
			if err := s.c.Close(); err != nil {
				r.panicked = "Close returned error: " + err.Error()
			}
		}
		r.length = s.c.Len()
	}()
	if !s.cfg.sync {
		// asynchronous delivery: wait (bounded) until the callbacks for everything that left have arrived
		want := before + expectCallbacks(r.length)
		deadline := time.Now().Add(3 * time.Second)
		for spins := 0; s.callbacks() < want; spins++ {
			if spins < 2000 {
				runtime.Gosched()
				continue
			}
			if !time.Now().Before(deadline) {
				break
			}
			time.Sleep(50 * time.Microsecond)
		}
		// give a stray extra callback a chance to show up
		for i := 0; i < 4; i++ {
			runtime.Gosched()
		}
	}
	r.cbs = s.take(before)
	return r
}

// ---- reference model ----------------------------------------------------------------

type entry struct {
	val        int
	lastSet    time.Time
	lastAccess time.Time
	useSeq     int // recency: sequence number of the last use
	uses       int // LFU use count
}

type slruSim struct {
	protCap   int
	probation []int // MRU first
	protected []int // MRU first
}

type model struct {
	cfg                 config
	now                 time.Time
	present             map[int]*entry
	seq                 int
	closed              bool
	slru                []*slruSim // candidates still consistent (SLRU only)
	evictions, expiries int
}

func newModel(cfg config) *model {
	m := &model{cfg: cfg, now: time.Unix(1_700_000_000, 0), present: map[int]*entry{}}
	if cfg.policy == "slru" {
		// the split between the segments is not documented, so any is accepted - as long as it IS a split: with two
		// or more entries both the probation and the protected segment hold at least one (a protected segment of
		// 0 or of all entries is plain LRU / LRU with a useless first hit, not a segmented LRU)
		lo, hi := 1, cfg.capacity-1
		if cfg.capacity < 2 {
			lo, hi = 0, cfg.capacity
		}
		for p := lo; p <= hi; p++ {
			m.slru = append(m.slru, &slruSim{protCap: p})
		}
	}
	return m
}

func remove(l []int, k int) []int {
	for i, x := range l {
		if x == k {
			return append(l[:i:i], l[i+1:]...)
		}
	}
	return l
}

func contains(l []int, k int) bool {
	for _, x := range l {
		if x == k {
			return true
		}
	}
	return false
}

func (s *slruSim) admit(k int) { s.probation = append([]int{k}, s.probation...) }
func (s *slruSim) access(k int) {
	if contains(s.protected, k) {
		s.protected = append([]int{k}, remove(s.protected, k)...)
		return
	}
	s.probation = remove(s.probation, k)
	s.protected = append([]int{k}, s.protected...)
	if len(s.protected) > s.protCap {
		last := s.protected[len(s.protected)-1]
		s.protected = s.protected[:len(s.protected)-1]
		s.probation = append([]int{last}, s.probation...)
	}
}
func (s *slruSim) remove(k int) {
	s.probation = remove(s.probation, k)
	s.protected = remove(s.protected, k)
}
func (s *slruSim) victim() (int, bool) {
	if n := len(s.probation); n > 0 {
		return s.probation[n-1], true
	}
	if n := len(s.protected); n > 0 {
		return s.protected[n-1], true
	}
	return 0, false
}

func (m *model) use(k int) {
	e := m.present[k]
	m.seq++
	e.useSeq = m.seq
	e.uses++
	e.lastAccess = m.now
	for _, s := range m.slru {
		s.access(k)
	}
}

func (m *model) drop(k int) {
	delete(m.present, k)
	for _, s := range m.slru {
		s.remove(k)
	}
}

// expiredBySet: past expiry measured from the last Set (the only moment a key is *allowed* to be missing by expiry).
func (m *model) allowedMissing(e *entry) bool {
	return m.cfg.expiry > 0 && m.now.After(e.lastSet.Add(m.cfg.expiry))
}

// allowedPresent: within expiry measured from the later of last Set / last access (sliding expiry is tolerated).
func (m *model) allowedPresent(e *entry) bool {
	if m.cfg.expiry == 0 {
		return true
	}
	last := e.lastSet
	if e.lastAccess.After(last) {
		last = e.lastAccess
	}
	return !m.now.After(last.Add(m.cfg.expiry))
}

// expectedCallbacks: how many entries must have left through eviction/expiry/close, given the length after the op.
func (m *model) expectedCallbacks(o op) func(lenAfter int) int {
	before := len(m.present)
	return func(lenAfter int) int {
		switch o.kind {
		case opSet:
			if m.closed {
				return 0
			}
			if _, ok := m.present[o.key]; ok {
				return 0
			}
			return before + 1 - lenAfter
		case opGet, opGetOrPanic:
			return before - lenAfter
		case opClose:
			if m.closed {
				return 0
			}
			return before
		}
		return 0
	}
}

// step validates the result of one operation against the model and updates it. It returns "" or a violation.
func (m *model) step(o op, r result) string {
	if r.panicked != "" && !(o.kind == opGetOrPanic && strings.HasPrefix(r.panicked, "key does not exist")) {
		return fmt.Sprintf("%s panicked: %s", o, r.panicked)
	}
	// every callback must be for a present entry with the value it held, at most once
	seen := map[int]bool{}
	for _, c := range r.cbs {
		e, ok := m.present[c.key]
		if !ok {
			return fmt.Sprintf("%s: eviction callback for key %d which is not in the cache (never set, deleted, or already notified)", o, c.key)
		}
		if seen[c.key] {
			return fmt.Sprintf("%s: two eviction callbacks for one residence of key %d", o, c.key)
		}
		seen[c.key] = true
		want := e.val
		if o.kind == opSet && o.key == c.key {
			// the entry left while being overwritten: either value is defensible only if it really left; see below
			want = e.val
		}
		if c.val != want {
			return fmt.Sprintf("%s: eviction callback for key %d carries value %d, the entry held %d", o, c.key, c.val, want)
		}
	}
	if m.closed {
		// inert after Close
		if len(r.cbs) != 0 {
			return fmt.Sprintf("%s after Close produced callbacks %v", o, r.cbs)
		}
		if o.kind == opGet && r.hit {
			return fmt.Sprintf("%s after Close hit", o)
		}
		if o.kind == opDelete && r.deleted {
			return fmt.Sprintf("%s after Close reported true", o)
		}
		if r.length != 0 {
			return fmt.Sprintf("Len is %d after Close", r.length)
		}
		return ""
	}
	switch o.kind {
	case opAdvance:
		m.now = m.now.Add(o.dur)
		if len(r.cbs) != 0 {
			return fmt.Sprintf("callbacks %v without any cache operation", r.cbs)
		}
	case opSet:
		if e, ok := m.present[o.key]; ok {
			if len(r.cbs) != 0 {
				return fmt.Sprintf("%s overwrote a present key but produced callbacks %v", o, r.cbs)
			}
			e.val = o.val
			e.lastSet = m.now
			m.use(o.key)
		} else {
			if len(m.present) >= m.cfg.capacity {
				if len(r.cbs) != 1 {
					return fmt.Sprintf("%s into a full cache (%d/%d) produced %d callbacks, expected exactly 1", o, len(m.present), m.cfg.capacity, len(r.cbs))
				}
				if msg := m.checkVictim(o, r.cbs[0].key); msg != "" {
					return msg
				}
				m.drop(r.cbs[0].key)
				m.evictions++
			} else if len(r.cbs) != 0 {
				return fmt.Sprintf("%s into a cache with room (%d/%d) produced callbacks %v", o, len(m.present), m.cfg.capacity, r.cbs)
			}
			m.seq++
			m.present[o.key] = &entry{val: o.val, lastSet: m.now, lastAccess: m.now, useSeq: m.seq, uses: 1}
			for _, s := range m.slru {
				s.admit(o.key)
			}
		}
	case opGet, opGetOrPanic:
		e, ok := m.present[o.key]
		missed := !r.hit
		if o.kind == opGetOrPanic {
			missed = r.panicked != ""
		}
		switch {
		case !ok:
			if !missed {
				return fmt.Sprintf("%s hit (value %d) but the key is not in the cache", o, r.val)
			}
			if len(r.cbs) != 0 {
				return fmt.Sprintf("%s of an absent key produced callbacks %v", o, r.cbs)
			}
		case missed:
			// a present key may only be missing because it expired, and then it must be notified now
			if len(r.cbs) != 1 || r.cbs[0].key != o.key {
				return fmt.Sprintf("%s missed although key %d was set and never evicted, deleted or notified (callbacks %v)", o, o.key, r.cbs)
			}
			if !m.allowedMissing(e) {
				return fmt.Sprintf("%s missed and key %d was notified as evicted although it has not expired (set %s ago, expiry %s)", o, o.key, m.now.Sub(e.lastSet), m.cfg.expiry)
			}
			m.drop(o.key)
			m.expiries++
		default:
			if r.val != e.val {
				return fmt.Sprintf("%s returned %d, last value set is %d", o, r.val, e.val)
			}
			if len(r.cbs) != 0 {
				return fmt.Sprintf("%s hit but produced callbacks %v", o, r.cbs)
			}
			if !m.allowedPresent(e) {
				return fmt.Sprintf("%s hit although key %d expired (last set %s ago, last access %s ago, expiry %s)", o, o.key, m.now.Sub(e.lastSet), m.now.Sub(e.lastAccess), m.cfg.expiry)
			}
			m.use(o.key)
		}
	case opDelete:
		_, ok := m.present[o.key]
		if r.deleted != ok {
			return fmt.Sprintf("%s returned %v but present=%v", o, r.deleted, ok)
		}
		for _, c := range r.cbs {
			if c.key != o.key {
				return fmt.Sprintf("%s produced a callback for another key %d", o, c.key)
			}
		}
		if ok {
			m.drop(o.key)
		}
	case opClose:
		if len(r.cbs) != len(m.present) {
			var ks []int
			for k := range m.present {
				ks = append(ks, k)
			}
			sort.Ints(ks)
			return fmt.Sprintf("Close notified %d entries %v but %d were in the cache (keys %v)", len(r.cbs), r.cbs, len(m.present), ks)
		}
		for k := range m.present {
			m.drop(k)
		}
		m.closed = true
		if r.length != 0 {
			return fmt.Sprintf("Len is %d after Close", r.length)
		}
		return ""
	}
	if r.length != len(m.present) {
		return fmt.Sprintf("after %s Len() = %d but %d entries are retrievable per the callbacks", o, r.length, len(m.present))
	}
	if r.length > m.cfg.capacity {
		return fmt.Sprintf("after %s the cache holds %d entries, capacity %d", o, r.length, m.cfg.capacity)
	}
	return ""
}

func (m *model) has(k int) bool { _, ok := m.present[k]; return ok }

// checkVictim validates the policy's choice of victim.
func (m *model) checkVictim(o op, victim int) string {
	switch m.cfg.policy {
	case "lru":
		oldest, seq := -1, int(^uint(0)>>1)
		for k, e := range m.present {
			if e.useSeq < seq {
				oldest, seq = k, e.useSeq
			}
		}
		if victim != oldest {
			return fmt.Sprintf("%s: LRU evicted key %d but the least recently used key is %d (%s)", o, victim, oldest, m.dump())
		}
	case "lfu":
		min := int(^uint(0) >> 1)
		for _, e := range m.present {
			if e.uses < min {
				min = e.uses
			}
		}
		if m.present[victim].uses != min {
			return fmt.Sprintf("%s: LFU evicted key %d used %d times while a key used only %d times is present (%s)", o, victim, m.present[victim].uses, min, m.dump())
		}
	case "slru":
		var keep []*slruSim
		for _, s := range m.slru {
			if v, ok := s.victim(); ok && v == victim {
				keep = append(keep, s)
			}
		}
		if len(keep) == 0 {
			return fmt.Sprintf("%s: SLRU evicted key %d, which no segmented LRU with two non-empty segments (protected segment of 1..%d entries) would evict now (%s)", o, victim, m.cfg.capacity-1, m.dump())
		}
		m.slru = keep
	}
	return ""
}

func (m *model) dump() string {
	var ks []int
	for k := range m.present {
		ks = append(ks, k)
	}
	sort.Ints(ks)
	var sb strings.Builder
	for _, k := range ks {
		e := m.present[k]
		fmt.Fprintf(&sb, "%d{v=%d uses=%d lastUse=#%d} ", k, e.val, e.uses, e.useSeq)
	}
	return sb.String()
}

// ---- deadlock watchdog -------------------------------------------------------------------
// Sequences run inline (a goroutine per sequence dominated the cost of the exhaustive
// part). One monitor goroutine watches a heartbeat; if a single operation makes no
// progress for the length of the watchdog the current case is reported and the process ends.

var (
	heartbeat  atomic.Int64 // unix nanos of the last completed operation (0 = idle)
	currentSeq atomic.Value // string: the case being executed
	monitor    sync.Once
)

func startMonitor() {
	monitor.Do(func() {
		go func() {
			for {
				time.Sleep(time.Second)
				hb := heartbeat.Load()
				if hb != 0 && time.Since(time.Unix(0, hb)) > watchdog {
					desc, _ := currentSeq.Load().(string)
					kit.Abort(fmt.Sprintf("C15 violated: an operation did not return within %s (deadlock)\n  %s", watchdog, desc))
				}
			}
		}()
	})
}

// run executes a whole sequence against a fresh cache; it returns the violation (or "") and statistics.
func run(cfg config, ops []op) (viol string, evictions, expiries int, at int) {
	startMonitor()
	currentSeq.Store(cfg.String() + " | " + opsString(ops))
	defer heartbeat.Store(0)
	s := newSUT(cfg)
	m := newModel(cfg)
	closed := false
	at = -1
	for i, o := range ops {
		heartbeat.Store(time.Now().UnixNano())
		r := s.apply(o, m.expectedCallbacks(o))
		if msg := m.step(o, r); msg != "" {
			viol, at = msg, i
			break
		}
		if o.kind == opClose {
			closed = true
		}
	}
	if !closed {
		// never leave event goroutines behind
		heartbeat.Store(time.Now().UnixNano())
		func() { defer func() { _ = recover() }(); s.c.Close() }()
	}
	return viol, m.evictions, m.expiries, at
}

func opsString(ops []op) string {
	var s []string
	for _, o := range ops {
		s = append(s, o.String())
	}
	return strings.Join(s, " ")
}
