// Package c16: cached sessions are shared, stay usable while held, are torn down exactly once.
package c16

import (
	"bytes"
	"context"
	"fmt"
	"sort"
	"strings"
	"sync"
	"sync/atomic"
	"testing"
	"time"

	"github.com/godaddy/asherah/go/appencryption"
	"github.com/godaddy/asherah/go/appencryption/pkg/crypto/aead"
	applog "github.com/godaddy/asherah/go/appencryption/pkg/log"
	"pgregory.net/rapid"
	"verif/kit"
	"verifhook"
)

func TestMain(m *testing.M) {
	kit.Main(m, "C16", "exploration",
		"session caching on, sizes 1-3, every session-cache eviction policy (default slru, lru, lfu, tinylfu), expiry 0 / 2 s / 1 min on the virtual clock, per-session and shared IK caches. "+
			"(00) the sequential machine with a debug logger installed; parallel first GetSession calls on a fresh factory; a hot partition got and closed by many goroutines while held; ENUMERATED: 20 000 (thorough: 200 000) distinct partition ids all live in one large session cache, each must be handed its own session (the record it writes names its own key); (0) session caches of capacity 100 / 101 (where the frequency-sketch policies switch on their admission window) walked through by up to 3 x (capacity + 25) gets with re-gets of recent partitions and handles held across them; (1) rapid state machine: get a session (more partitions than slots), use a held session (encrypt / decrypt any earlier record of its partition), close a handle, advance the clock, with handles held across other partitions' gets; "+
			"(2) concurrent: 2-6 goroutines doing the same under a rapid-drawn delay plan (1-3 pauses) over the yield points in session_cache.go, session.go, pkg/cache/cache.go and key_cache.go, plus every reachable site of session_cache.go and pkg/cache/cache.go as a single preemption for tight configurations. "+
			"Oracle: every operation on a held session succeeds with the right bytes no matter what was evicted or expired meanwhile; two consecutive GetSession calls for one partition with no other partition requested and no expiry in between return the same underlying session; "+
			"the tracking SecretFactory never sees a secret read after it was closed nor closed twice; after the factory and the last holders are closed every secret is released (bounded polling for the asynchronous teardown). "+
			"One evaluation = one history / one concurrent case. Non-trivial = a held session was evicted or expired from the cache (a later get returned another underlying session) before its holder used it again; distinct = (configuration, operation kinds / paused sites)",
		"schedules are sampled (preemption-bounded)", "which session a bounded policy evicts is not asserted")
}

var ctx = context.Background()

type cfg struct {
	pol   *appencryption.CryptoPolicy
	parts int
}

func (c cfg) String() string {
	p := c.pol
	return fmt.Sprintf("sess=%q/%d/%s sharedIK=%v ik=%q/%d partitions=%d", p.SessionCacheEvictionPolicy, p.SessionCacheMaxSize, p.SessionCacheDuration, p.SharedIntermediateKeyCache, p.IntermediateKeyCacheEvictionPolicy, p.IntermediateKeyCacheMaxSize, c.parts)
}

func drawCfg(t *rapid.T) cfg {
	p := appencryption.NewCryptoPolicy()
	p.ExpireKeyAfter, p.RevokeCheckInterval, p.CreateDatePrecision = time.Hour, 10*time.Second, time.Second
	p.CacheSessions = true
	p.SessionCacheMaxSize = rapid.IntRange(1, 3).Draw(t, "sessCap")
	p.SessionCacheEvictionPolicy = rapid.SampledFrom([]string{"", "lru", "lfu", "slru", "tinylfu"}).Draw(t, "sessPolicy")
	p.SessionCacheDuration = rapid.SampledFrom([]time.Duration{0, 2 * time.Second, time.Minute}).Draw(t, "sessDur")
	if rapid.Bool().Draw(t, "sharedIK") {
		p.SharedIntermediateKeyCache = true
		p.IntermediateKeyCacheEvictionPolicy = rapid.SampledFrom([]string{"simple", "lru", "slru"}).Draw(t, "ikPolicy")
		p.IntermediateKeyCacheMaxSize = rapid.SampledFrom([]int{1, 2, 100}).Draw(t, "ikCap")
	}
	return cfg{pol: p, parts: p.SessionCacheMaxSize + rapid.IntRange(1, 3).Draw(t, "extraParts")}
}

type env struct {
	f       *appencryption.SessionFactory
	secrets *kit.Tracker
	mu      sync.Mutex
	pool    map[string][]rec
}

type rec struct {
	payload []byte
	drr     appencryption.DataRowRecord
}

func newEnv(c cfg) *env {
	log := &kit.CallLog{}
	e := &env{secrets: kit.NewTracker(), pool: map[string][]rec{}}
	e.f = appencryption.NewSessionFactory(&appencryption.Config{Service: "svc", Product: "prod", Policy: c.pol}, kit.NewStore(log), kit.NewSpyKMS(log), aead.NewAES256GCM(), appencryption.WithSecretFactory(e.secrets))
	return e
}

func cloneDRR(d appencryption.DataRowRecord) appencryption.DataRowRecord {
	k := *d.Key
	k.EncryptedKey = append([]byte(nil), d.Key.EncryptedKey...)
	pm := *d.Key.ParentKeyMeta
	k.ParentKeyMeta = &pm
	return appencryption.DataRowRecord{Key: &k, Data: append([]byte(nil), d.Data...)}
}

// use performs one operation on a held session; pick selects the kind and the record.
func (e *env) use(s *appencryption.Session, part string, pick int, tag string) string {
	e.mu.Lock()
	recs := e.pool[part]
	e.mu.Unlock()
	if pick%2 == 0 || len(recs) == 0 {
		pay := []byte("payload " + tag)
		r, err := s.Encrypt(ctx, pay)
		if err != nil {
			return fmt.Sprintf("Encrypt on a held session of %s failed: %v", part, err)
		}
		e.mu.Lock()
		e.pool[part] = append(e.pool[part], rec{pay, cloneDRR(*r)})
		e.mu.Unlock()
		return ""
	}
	r := recs[(pick/2)%len(recs)]
	out, err := s.Decrypt(ctx, cloneDRR(r.drr))
	if err != nil {
		return fmt.Sprintf("Decrypt on a held session of %s failed: %v", part, err)
	}
	if !bytes.Equal(out, r.payload) {
		return fmt.Sprintf("Decrypt on a held session of %s returned other bytes", part)
	}
	return ""
}

// finish closes the factory and checks that everything is released exactly once.
func (e *env) finish() string {
	e.f.Close()
	deadline := time.Now().Add(10 * time.Second)
	for e.secrets.LiveCount() > 0 && time.Now().Before(deadline) {
		time.Sleep(200 * time.Microsecond)
	}
	if l := e.secrets.Live(); len(l) > 0 {
		return fmt.Sprintf("%d secret(s) still live 10 s after the factory and every handle were closed (a session was never torn down); first: %s", len(l), l[0])
	}
	for _, si := range e.secrets.InfosRange(0, e.secrets.Count()) {
		if si.CloseCalls > 1 {
			return fmt.Sprintf("secret released more than once: %s", si)
		}
	}
	if ra := e.secrets.ReadsAfterClose(); len(ra) > 0 {
		return fmt.Sprintf("a key secret was used after its session had been torn down: %s", ra[0])
	}
	return ""
}

// guard runs one SDK call under a watchdog: a GetSession / Close / encrypt that never returns is
// a violation ("keeps working", "released exactly once"), not a slow test.
func guard(what string, desc func() string, f func()) {
	done := make(chan any, 1)
	go func() {
		defer func() { done <- recover() }()
		f()
	}()
	select {
	case p := <-done:
		if p != nil {
			panic(p)
		}
	case <-time.After(30 * time.Second):
		kit.Abort(fmt.Sprintf("C16 violated: %s did not return within 30s (blocked forever)\n  %s", what, desc()))
	}
}

type handle struct {
	s    *appencryption.Session
	part string
	// stale: a later get for the same partition returned another underlying session, so this one left the cache
	stale     bool
	usedStale bool
}

func TestSequential(t *testing.T) {
	kit.Steps(40)
	kit.Check(t, 800, 32000, func(t *rapid.T) {
		verifhook.InstallClock(time.Unix(1_700_000_000, 0))
		defer verifhook.RemoveClock()
		c := drawCfg(t)
		e := newEnv(c)
		var handles []*handle
		var trace []string
		kinds := map[string]bool{}
		bad := func(msg string) {
			kit.Rec.Violation(msg)
			t.Fatalf("C16 violated: %s\n  config: %s\n  history: %s", msg, c, strings.Join(trace, "; "))
		}
		where := func() string { return fmt.Sprintf("config: %s\n  history: %s", c, strings.Join(trace, "; ")) }
		lastGetPart := ""
		var lastGet *appencryption.Session
		firstSeen := map[*appencryption.Session]time.Time{}
		n := 0
		t.Repeat(map[string]func(*rapid.T){
			"get": func(t *rapid.T) {
				part := fmt.Sprintf("p%d", rapid.IntRange(0, c.parts-1).Draw(t, "part"))
				trace = append(trace, "get "+part)
				var s *appencryption.Session
				var err error
				guard("GetSession("+part+")", where, func() { s, err = e.f.GetSession(part) })
				if err != nil {
					bad("GetSession(" + part + ") failed: " + err.Error())
				}
				now := verifhook.Now()
				if _, seen := firstSeen[s]; !seen {
					firstSeen[s] = now
				}
				// the cache entry's lifetime counts from when the session was put into the cache (first handed out),
				// not from the last request for it
				if part == lastGetPart && (c.pol.SessionCacheDuration == 0 || now.Sub(firstSeen[lastGet]) < c.pol.SessionCacheDuration) && s != lastGet {
					bad(fmt.Sprintf("two consecutive GetSession(%s) calls with no other partition requested and no expiry in between returned different underlying sessions", part))
				}
				for _, h := range handles {
					if h.part == part && h.s != s && !h.stale {
						h.stale = true
					}
				}
				lastGetPart, lastGet = part, s
				handles = append(handles, &handle{s: s, part: part})
			},
			"use": func(t *rapid.T) {
				if len(handles) == 0 {
					t.Skip("no handle")
				}
				h := handles[rapid.IntRange(0, len(handles)-1).Draw(t, "handle")]
				n++
				trace = append(trace, fmt.Sprintf("use %s(stale=%v)", h.part, h.stale))
				pick := rapid.IntRange(0, 99).Draw(t, "pick")
				var msg string
				guard("an operation on a held session of "+h.part, where, func() { msg = e.use(h.s, h.part, pick, fmt.Sprint(n)) })
				if msg != "" {
					bad(msg + fmt.Sprintf(" (the session had left the cache: %v)", h.stale))
				}
				if h.stale {
					h.usedStale = true
					kinds["used-after-leaving-cache"] = true
				}
			},
			"close": func(t *rapid.T) {
				if len(handles) == 0 {
					t.Skip("no handle")
				}
				i := rapid.IntRange(0, len(handles)-1).Draw(t, "handle")
				trace = append(trace, "close "+handles[i].part)
				var cerr error
				guard("Session.Close on "+handles[i].part, where, func() { cerr = handles[i].s.Close() })
				if cerr != nil {
					bad("Session.Close failed: " + cerr.Error())
				}
				handles = append(handles[:i], handles[i+1:]...)
				lastGetPart = "" // the pointer rule is only asserted for back-to-back gets
			},
			"advance": func(t *rapid.T) {
				d := rapid.SampledFrom([]time.Duration{500 * time.Millisecond, 3 * time.Second, 61 * time.Second}).Draw(t, "d")
				verifhook.Advance(d)
				trace = append(trace, "advance "+d.String())
				kinds["advance"] = true
			},
		})
		for _, h := range handles {
			// every still-held session works right up to the end
			var msg string
			guard("the final use and Close of a held session of "+h.part, where, func() {
				msg = e.use(h.s, h.part, 1, "final")
				h.s.Close()
			})
			if msg != "" {
				bad(msg + " (final use)")
			}
		}
		var fmsg string
		guard("SessionFactory.Close", where, func() { fmsg = e.finish() })
		if fmsg != "" {
			bad(fmsg)
		}
		var ks []string
		for k := range kinds {
			ks = append(ks, k)
		}
		sort.Strings(ks)
		kit.Rec.Case(c.String()+"|"+strings.Join(trace, ";"), kinds["used-after-leaving-cache"], func() any {
			return map[string]any{"config": c.String(), "history": trace}
		})
	})
}

// ---- concurrent ------------------------------------------------------------------------

type concOutcome struct {
	viol      string
	fired     int
	staleUses int
	sites     []string
	hits      map[string]int
}

func runConcurrent(c cfg, workers, ops int, seeds []int, plan []kit.PlanEntry, filter func(string) bool) concOutcome {
	verifhook.InstallClock(time.Unix(1_700_000_000, 0))
	defer verifhook.RemoveClock()
	e := newEnv(c)
	// seed one record per partition so that decrypts have something to read
	for i := 0; i < c.parts; i++ {
		part := fmt.Sprintf("p%d", i)
		s, err := e.f.GetSession(part)
		if err != nil {
			return concOutcome{viol: "seed: " + err.Error()}
		}
		if msg := e.use(s, part, 0, "seed"); msg != "" {
			return concOutcome{viol: msg}
		}
		s.Close()
	}
	sc := kit.NewSched(plan, filter)
	sc.Install()
	defer sc.Remove()
	var first atomic.Value
	var staleUses atomic.Int64
	note := func(s string) { first.CompareAndSwap(nil, s) }
	var current sync.Map // part -> *Session most recently handed out
	var wg sync.WaitGroup
	for w := 0; w < workers; w++ {
		wg.Add(1)
		go func(w int) {
			defer wg.Done()
			defer func() {
				if p := recover(); p != nil {
					note(fmt.Sprintf("worker %d panicked: %v", w, p))
				}
			}()
			x := uint32(seeds[w])
			next := func(n int) int { x = x*1664525 + 1013904223; return int(x>>8) % n }
			var held []*handle
			for i := 0; i < ops && first.Load() == nil; i++ {
				switch k := next(10); {
				case k < 4 || len(held) == 0:
					part := fmt.Sprintf("p%d", next(c.parts))
					s, err := e.f.GetSession(part)
					if err != nil {
						note(fmt.Sprintf("worker %d: GetSession(%s) failed: %v", w, part, err))
						return
					}
					current.Store(part, s)
					held = append(held, &handle{s: s, part: part})
				case k < 8:
					h := held[next(len(held))]
					if cur, ok := current.Load(h.part); ok && cur.(*appencryption.Session) != h.s {
						staleUses.Add(1)
					}
					if msg := e.use(h.s, h.part, next(100), fmt.Sprintf("w%d-%d", w, i)); msg != "" {
						note(fmt.Sprintf("worker %d: %s", w, msg))
						return
					}
				case k < 9:
					j := next(len(held))
					held[j].s.Close()
					held = append(held[:j], held[j+1:]...)
				default:
					verifhook.Advance(700 * time.Millisecond)
				}
			}
			for _, h := range held {
				if msg := e.use(h.s, h.part, 1, "final"); msg != "" {
					note(fmt.Sprintf("worker %d: %s (final use)", w, msg))
				}
				h.s.Close()
			}
		}(w)
	}
	done := make(chan struct{})
	go func() { wg.Wait(); close(done) }()
	select {
	case <-done:
	case <-time.After(60 * time.Second):
		return concOutcome{viol: "workers did not finish within 60s (deadlock)"}
	}
	sc.Remove()
	out := concOutcome{fired: sc.Fired(), staleUses: int(staleUses.Load())}
	out.sites, out.hits = sc.Sites()
	if v := first.Load(); v != nil {
		out.viol = v.(string)
		e.f.Close()
		return out
	}
	out.viol = e.finish()
	return out
}

var profiles sync.Map

func planString(plan []kit.PlanEntry) string {
	var s []string
	for _, p := range plan {
		s = append(s, fmt.Sprintf("%s#%d+%s", p.Site, p.Hit, p.Pause))
	}
	return strings.Join(s, " ")
}

func TestConcurrentDelayPlans(t *testing.T) {
	filter := kit.SiteFilter("appencryption/session_cache.go", "appencryption/session.go", "pkg/cache/cache.go", "appencryption/key_cache.go")
	kit.Check(t, 500, 32000, func(t *rapid.T) {
		c := drawCfg(t)
		workers := rapid.IntRange(2, 6).Draw(t, "workers")
		ops := rapid.IntRange(8, 30).Draw(t, "ops")
		seeds := make([]int, workers)
		for i := range seeds {
			seeds[i] = rapid.IntRange(1, 1<<30).Draw(t, "stream")
		}
		key := c.String()
		var prof *concOutcome
		if v, ok := profiles.Load(key); ok {
			prof = v.(*concOutcome)
		} else {
			o := runConcurrent(c, workers, ops, seeds, nil, filter)
			prof = &o
			profiles.Store(key, prof)
		}
		plan := kit.DrawPlan(t, prof.sites, prof.hits, 3, []time.Duration{100 * time.Microsecond, time.Millisecond, 3 * time.Millisecond})
		o := runConcurrent(c, workers, ops, seeds, plan, filter)
		if o.viol != "" {
			msg := fmt.Sprintf("%s\n  config: %s workers=%d x %d ops\n  delay plan: %s", o.viol, c, workers, ops, planString(plan))
			if strings.Contains(o.viol, "did not finish within") {
				kit.Abort("C16 violated: " + msg)
			}
			kit.Rec.Violation(o.viol)
			t.Fatalf("C16 violated: %s", msg)
		}
		var ps []string
		for _, p := range plan {
			ps = append(ps, p.Site[strings.LastIndex(p.Site, "/")+1:])
		}
		sort.Strings(ps)
		kit.Rec.Case(key+"|"+strings.Join(ps, ","), o.staleUses > 0, func() any {
			return map[string]any{"config": key, "workers": workers, "ops": ops, "plan": planString(plan), "pauses_fired": o.fired, "uses_of_sessions_that_left_the_cache": o.staleUses}
		})
		if o.fired > 0 {
			kit.Rec.Label("pause-fired")
		}
		if o.staleUses > 0 {
			kit.Rec.Label("held-session-left-cache")
		}
	})
}

// TestSystematicSinglePreemption takes every reachable yield site of session_cache.go and
// pkg/cache/cache.go as the single preemption point for tight configurations.
func TestSystematicSinglePreemption(t *testing.T) {
	shard, shards := kit.Shard()
	filter := kit.SiteFilter("appencryption/session_cache.go", "pkg/cache/cache.go")
	var total, nt int64
	unit := 0
	for _, pol := range []string{"", "lru", "lfu", "tinylfu"} {
		for _, dur := range []time.Duration{0, 2 * time.Second} {
			p := appencryption.NewCryptoPolicy()
			p.ExpireKeyAfter, p.RevokeCheckInterval, p.CreateDatePrecision = time.Hour, 10*time.Second, time.Second
			p.CacheSessions, p.SessionCacheMaxSize, p.SessionCacheEvictionPolicy, p.SessionCacheDuration = true, 1, pol, dur
			c := cfg{pol: p, parts: 2}
			seeds := []int{5, 77, 901}
			prof := runConcurrent(c, 3, 10, seeds, nil, filter)
			if prof.viol != "" {
				kit.Rec.Violation(prof.viol)
				t.Fatalf("C16 violated (no delay plan): %s\n  config: %s", prof.viol, c)
			}
			for _, site := range prof.sites {
				for h := 0; h < kit.Pick(3, 6) && h < prof.hits[site]; h++ {
					unit++
					if unit%shards != shard {
						continue
					}
					plan := []kit.PlanEntry{{Site: site, Hit: h, Pause: 2 * time.Millisecond}}
					o := runConcurrent(c, 3, 10, seeds, plan, filter)
					total++
					if o.staleUses > 0 {
						nt++
					}
					if o.viol != "" {
						msg := fmt.Sprintf("%s\n  config: %s\n  delay plan: %s", o.viol, c, planString(plan))
						if strings.Contains(o.viol, "did not finish within") {
							kit.Abort("C16 violated: " + msg)
						}
						kit.Rec.Violation(o.viol)
						t.Fatalf("C16 violated: %s", msg)
					}
				}
			}
		}
	}
	kit.Rec.Enumerated(total, nt)
}

// TestLargeSessionCaches: the same promises with session caches at and above the capacity
// (100) from which the frequency-sketch policies switch on their admission window, with more
// partitions than slots: every handle keeps working, re-gets are shared, and after the factory
// is closed every session has been torn down exactly once.
func TestLargeSessionCaches(t *testing.T) {
	kit.Check(t, 24, 800, func(t *rapid.T) {
		verifhook.InstallClock(time.Unix(1_700_000_000, 0))
		defer verifhook.RemoveClock()
		p := appencryption.NewCryptoPolicy()
		p.ExpireKeyAfter, p.RevokeCheckInterval, p.CreateDatePrecision = time.Hour, time.Hour, time.Second
		p.CacheSessions = true
		p.SessionCacheMaxSize = rapid.SampledFrom([]int{100, 101}).Draw(t, "sessCap")
		p.SessionCacheEvictionPolicy = rapid.SampledFrom([]string{"tinylfu", "tinylfu", "slru", "lfu", "lru"}).Draw(t, "sessPolicy")
		p.SessionCacheDuration = time.Hour
		c := cfg{pol: p, parts: p.SessionCacheMaxSize + rapid.IntRange(1, 25).Draw(t, "extraParts")}
		e := newEnv(c)
		bad := func(msg string) {
			kit.Rec.Violation(msg)
			t.Fatalf("C16 violated: %s\n  config: %s", msg, c)
		}
		held := map[int]*appencryption.Session{}
		next := 0
		steps := rapid.IntRange(c.parts, 3*c.parts).Draw(t, "steps")
		for i := 0; i < steps; i++ {
			// mostly walk through new partitions, with frequent re-gets of recently used ones
			part := next
			if next > 0 && rapid.IntRange(0, 9).Draw(t, "again") < 4 {
				part = next - 1 - rapid.IntRange(0, min(next-1, 5)).Draw(t, "back")
			} else if next < c.parts-1 {
				next++
			}
			name := fmt.Sprintf("p%d", part)
			s, err := e.f.GetSession(name)
			if err != nil {
				bad("GetSession(" + name + ") failed: " + err.Error())
			}
			s2, err := e.f.GetSession(name)
			if err != nil || s2 != s {
				bad(fmt.Sprintf("two back-to-back GetSession(%s) calls returned different underlying sessions", name))
			}
			s2.Close()
			if msg := e.use(s, name, i, fmt.Sprint(i)); msg != "" {
				bad(msg)
			}
			if old := held[part]; old != nil {
				if msg := e.use(old, name, 2*i+1, "held"); msg != "" {
					bad(msg + " (handle held across other partitions' gets)")
				}
				old.Close()
				delete(held, part)
			}
			if rapid.IntRange(0, 9).Draw(t, "hold") < 2 {
				held[part] = s
			} else {
				s.Close()
			}
		}
		for part, s := range held {
			if msg := e.use(s, fmt.Sprintf("p%d", part), 1, "final"); msg != "" {
				bad(msg + " (final use)")
			}
			s.Close()
		}
		if msg := e.finish(); msg != "" {
			bad(msg)
		}
		kit.Rec.Case(fmt.Sprintf("large|%s|%d", c, steps), true, func() any {
			return map[string]any{"config": c.String(), "gets": 2 * steps}
		})
		kit.Rec.Label("large-session-cache:" + p.SessionCacheEvictionPolicy)
	})
}

// TestHotPartition: many goroutines get and close the SAME cached partition over and over
// while one handle to it is held the whole time; then other partitions push it out of the
// cache. The held handle works until it is closed, and afterwards the session is torn down
// exactly once (the usage count neither loses a holder nor invents one).
func TestHotPartition(t *testing.T) {
	kit.Check(t, 6, 120, func(t *rapid.T) {
		verifhook.InstallClock(time.Unix(1_700_000_000, 0))
		defer verifhook.RemoveClock()
		p := appencryption.NewCryptoPolicy()
		p.ExpireKeyAfter, p.RevokeCheckInterval, p.CreateDatePrecision = time.Hour, time.Hour, time.Second
		p.CacheSessions = true
		p.SessionCacheMaxSize = rapid.IntRange(1, 3).Draw(t, "sessCap")
		p.SessionCacheEvictionPolicy = rapid.SampledFrom([]string{"", "lru", "lfu", "slru", "tinylfu"}).Draw(t, "sessPolicy")
		p.SessionCacheDuration = time.Hour
		c := cfg{pol: p, parts: p.SessionCacheMaxSize + 2}
		e := newEnv(c)
		workers := rapid.IntRange(2, 8).Draw(t, "workers")
		rounds := rapid.IntRange(2000, kit.Pick(12000, 40000)).Draw(t, "rounds")
		bad := func(msg string) {
			kit.Rec.Violation(msg)
			t.Fatalf("C16 violated: %s\n  config: %s, %d goroutines x %d get/close of one partition", msg, c, workers, rounds)
		}
		held, err := e.f.GetSession("hot")
		if err != nil {
			bad("GetSession failed: " + err.Error())
		}
		if msg := e.use(held, "hot", 0, "first"); msg != "" {
			bad(msg)
		}
		var wg sync.WaitGroup
		var first atomic.Value
		start := make(chan struct{})
		for w := 0; w < workers; w++ {
			wg.Add(1)
			go func(w int) {
				defer wg.Done()
				defer func() {
					if p := recover(); p != nil {
						first.CompareAndSwap(nil, fmt.Sprintf("worker %d panicked: %v", w, p))
					}
				}()
				<-start
				for i := 0; i < rounds && first.Load() == nil; i++ {
					s, err := e.f.GetSession("hot")
					if err != nil {
						first.CompareAndSwap(nil, "GetSession(hot) failed: "+err.Error())
						return
					}
					if s != held {
						first.CompareAndSwap(nil, "a GetSession for a cached partition whose session is held returned another underlying session")
						return
					}
					if i%64 == 0 {
						if msg := e.use(s, "hot", i, fmt.Sprintf("w%d-%d", w, i)); msg != "" {
							first.CompareAndSwap(nil, msg)
							return
						}
					}
					s.Close()
				}
			}(w)
		}
		close(start)
		done := make(chan struct{})
		go func() { wg.Wait(); close(done) }()
		select {
		case <-done:
		case <-time.After(60 * time.Second):
			kit.Abort(fmt.Sprintf("C16 violated: goroutines getting and closing one cached partition did not finish within 60s (deadlock)\n  config: %s", c))
		}
		if v := first.Load(); v != nil {
			bad(v.(string))
		}
		// push the hot partition out of the cache while it is still held
		for i := 0; i < c.parts; i++ {
			name := fmt.Sprintf("p%d", i)
			s, err := e.f.GetSession(name)
			if err != nil {
				bad("GetSession failed: " + err.Error())
			}
			if msg := e.use(s, name, 0, "push"); msg != "" {
				bad(msg)
			}
			s.Close()
		}
		time.Sleep(2 * time.Millisecond)
		if msg := e.use(held, "hot", 1, "after eviction"); msg != "" {
			bad(msg + " (the handle was held the whole time; the session left the cache meanwhile)")
		}
		held.Close()
		if msg := e.finish(); msg != "" {
			bad(msg)
		}
		kit.Rec.Case(fmt.Sprintf("hot|%s|%d|%d", c, workers, rounds), true, func() any {
			return map[string]any{"config": c.String(), "goroutines": workers, "get_close_rounds_each": rounds}
		})
		kit.Rec.Label("hot-partition")
	})
}

// quietLogger is a debug logger that discards what it is given (installing ANY logger switches the
// SDK's debug code paths on).
type quietLogger struct{ n atomic.Int64 }

func (q *quietLogger) Debugf(format string, v ...interface{}) { q.n.Add(1) }

// TestWithDebugLogging: the sequential promises hold when the application has a debug logger
// installed (log.SetLogger): same state machine as TestSequential, fewer cases.
func TestWithDebugLogging(t *testing.T) {
	applog.SetLogger(&quietLogger{})
	defer applog.SetLogger(nil)
	kit.Steps(25)
	kit.Check(t, 60, 2400, func(t *rapid.T) {
		verifhook.InstallClock(time.Unix(1_700_000_000, 0))
		defer verifhook.RemoveClock()
		c := drawCfg(t)
		e := newEnv(c)
		var trace []string
		where := func() string {
			return fmt.Sprintf("config: %s (debug logger installed)\n  history: %s", c, strings.Join(trace, "; "))
		}
		bad := func(msg string) {
			kit.Rec.Violation(msg)
			t.Fatalf("C16 violated: %s\n  %s", msg, where())
		}
		var held []*handle
		n := rapid.IntRange(3, 20).Draw(t, "gets")
		for i := 0; i < n; i++ {
			part := fmt.Sprintf("p%d", rapid.IntRange(0, c.parts-1).Draw(t, "part"))
			trace = append(trace, "get "+part)
			var s *appencryption.Session
			var err error
			guard("GetSession("+part+")", where, func() { s, err = e.f.GetSession(part) })
			if err != nil {
				bad("GetSession failed: " + err.Error())
			}
			var msg string
			guard("an operation on a session of "+part, where, func() { msg = e.use(s, part, i, fmt.Sprint(i)) })
			if msg != "" {
				bad(msg)
			}
			if rapid.IntRange(0, 2).Draw(t, "hold") == 0 {
				held = append(held, &handle{s: s, part: part})
			} else {
				guard("Session.Close on "+part, where, func() { s.Close() })
			}
		}
		// some handles are closed before the factory, some sessions are still cached when it closes
		for _, h := range held {
			guard("Session.Close on "+h.part, where, func() { h.s.Close() })
		}
		var fmsg string
		guard("SessionFactory.Close", where, func() { fmsg = e.finish() })
		if fmsg != "" {
			bad(fmsg)
		}
		kit.Rec.Case("debuglog|"+c.String()+"|"+strings.Join(trace, ";"), true, func() any {
			return map[string]any{"config": c.String(), "debug_logger": true, "history": trace}
		})
		kit.Rec.Label("with-debug-logger")
	})
}

// TestFreshFactoryParallelFirstGets: the very first GetSession calls of a new factory arrive in
// parallel (a service starting under load). Callers of one partition share one underlying session,
// and after the handles and the factory are closed everything is released exactly once.
func TestFreshFactoryParallelFirstGets(t *testing.T) {
	kit.Check(t, 150, 6000, func(t *rapid.T) {
		verifhook.InstallClock(time.Unix(1_700_000_000, 0))
		defer verifhook.RemoveClock()
		c := drawCfg(t)
		c.pol.SessionCacheMaxSize = 8
		c.pol.SessionCacheDuration = time.Hour
		e := newEnv(c)
		workers := rapid.IntRange(2, 12).Draw(t, "workers")
		same := rapid.Bool().Draw(t, "samePartition")
		got := make([]*appencryption.Session, workers)
		parts := make([]string, workers)
		errs := make([]error, workers)
		var wg sync.WaitGroup
		start := make(chan struct{})
		for w := 0; w < workers; w++ {
			parts[w] = "first"
			if !same && w%2 == 1 {
				parts[w] = "second"
			}
			wg.Add(1)
			go func(w int) {
				defer wg.Done()
				<-start
				got[w], errs[w] = e.f.GetSession(parts[w])
			}(w)
		}
		close(start)
		done := make(chan struct{})
		go func() { wg.Wait(); close(done) }()
		select {
		case <-done:
		case <-time.After(30 * time.Second):
			kit.Abort(fmt.Sprintf("C16 violated: parallel first GetSession calls on a fresh factory did not return within 30s\n  config: %s", c))
		}
		bad := func(msg string) {
			kit.Rec.Violation(msg)
			t.Fatalf("C16 violated: %s\n  config: %s, %d goroutines calling GetSession first thing on a fresh factory", msg, c, workers)
		}
		first := map[string]*appencryption.Session{}
		for w := range got {
			if errs[w] != nil {
				bad("GetSession failed: " + errs[w].Error())
			}
			if f, ok := first[parts[w]]; ok && f != got[w] {
				bad(fmt.Sprintf("two of the parallel first GetSession(%s) calls were given different underlying sessions although nothing was evicted or expired", parts[w]))
			}
			first[parts[w]] = got[w]
		}
		for w, s := range got {
			if msg := e.use(s, parts[w], w, fmt.Sprint(w)); msg != "" {
				bad(msg)
			}
			s.Close()
		}
		if msg := e.finish(); msg != "" {
			bad(msg)
		}
		kit.Rec.Case(fmt.Sprintf("freshfactory|%s|%d|%v", c, workers, same), true, func() any {
			return map[string]any{"config": c.String(), "parallel_first_gets": workers, "same_partition": same}
		})
		kit.Rec.Label("fresh-factory-parallel-first-gets")
	})
}
