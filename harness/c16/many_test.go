package c16

import (
	"context"
	"fmt"
	"testing"

	"github.com/godaddy/asherah/go/appencryption"
	"github.com/godaddy/asherah/go/appencryption/pkg/crypto/aead"
	"github.com/godaddy/asherah/go/appencryption/pkg/kms"
	"github.com/godaddy/asherah/go/appencryption/pkg/persistence"
	"verif/kit"
)

// TestVeryManyLivePartitions: ENUMERATED - N distinct partition ids (customer-<counter> and customer-<64-bit hex>; N = 20 000 quick, 200 000
// thorough), all live in one session cache that is large enough to hold them. Whatever the cache files its
// entries under, the session handed out for an id is that id's session: the record it writes names that
// partition's intermediate key, and a second walk over the first ids finds their own sessions again.
func TestVeryManyLivePartitions(t *testing.T) {
	n := kit.Pick(20000, 200000)
	if shard, _ := kit.Shard(); shard != 0 {
		return // one enumeration, about 0.9 GB with 200 000 live sessions: not once per shard
	}
	k, err := kms.NewStatic("thisIsAStaticMasterKeyForTesting", aead.NewAES256GCM())
	if err != nil {
		t.Fatalf("kms: %v", err)
	}
	defer k.Close()
	pol := appencryption.NewCryptoPolicy()
	pol.CacheSessions, pol.SessionCacheMaxSize, pol.SessionCacheEvictionPolicy = true, n+16, "lru"
	f := appencryption.NewSessionFactory(&appencryption.Config{Service: "svc", Product: "prod", Policy: pol}, persistence.NewMemoryMetastore(), k, aead.NewAES256GCM(),
		appencryption.WithSecretFactory(kit.NewTracker()))
	defer f.Close()
	ctx := context.Background()
	check := func(i int, pass string) {
		// every third id is the plain counter, the others are spread over the 64-bit space
		name := fmt.Sprintf("customer-%d", i)
		if i%3 != 0 {
			name = fmt.Sprintf("customer-%016x", uint64(i)*0x9E3779B97F4A7C15)
		}
		s, err := f.GetSession(name)
		if err != nil {
			t.Fatalf("GetSession(%s): %v", name, err)
		}
		defer s.Close()
		r, err := s.Encrypt(ctx, []byte(name))
		if err != nil {
			msg := fmt.Sprintf("%s pass, %d partitions live in the session cache: encrypt for %q failed: %v", pass, n, name, err)
			kit.Rec.Violation(msg)
			t.Fatalf("C16 violated: %s", msg)
		}
		if want := "_IK_" + name + "_svc_prod"; r.Key == nil || r.Key.ParentKeyMeta == nil || r.Key.ParentKeyMeta.ID != want {
			msg := fmt.Sprintf("%s pass, %d partitions live in the session cache: the session handed out for %q wrote a record naming %s, not %s - it is another partition's session", pass, n, name, metaOf(r), want)
			kit.Rec.Violation(msg)
			t.Fatalf("C16 violated: %s", msg)
		}
	}
	for i := 0; i < n; i++ {
		check(i, "first")
	}
	for i := 0; i < n; i += 97 {
		check(i, "second")
	}
	kit.Rec.Enumerated(int64(n+n/97+1), int64(n+n/97+1))
	kit.Rec.LabelN("live-partitions-in-one-session-cache", int64(n))
}

func metaOf(r *appencryption.DataRowRecord) string {
	if r == nil || r.Key == nil || r.Key.ParentKeyMeta == nil {
		return "no parent key"
	}
	return r.Key.ParentKeyMeta.ID
}
