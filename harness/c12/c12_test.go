package c12

import (
	"bytes"
	"errors"
	"fmt"
	"reflect"
	"runtime"
	"strings"
	"testing"
	"time"

	"github.com/godaddy/asherah/go/securememory"
	"github.com/godaddy/asherah/go/securememory/memguard"
	"github.com/godaddy/asherah/go/securememory/protectedmemory"
	"pgregory.net/rapid"
	"verif/kit"
)

func TestMain(m *testing.M) {
	kit.Main(m, "C12", "fault_enumeration",
		"an interposed memcall implementation backed by ordinary slices keeps a shadow page table (per region: mapped, locked, protection, ever-held-secret, content when unlocked / freed) and fails the primitive calls whose index is planned. "+
			"Programs = creation (New / CreateRandom with an injectable random source that can fail at any of its calls) ; WithBytes ; nested WithBytesFunc ; Reader ; Close ; Close issued while a reader is inside its callback (parked until the reader's possibly failing release) ; then follow-up reads, Close and Close again. The fault-free primitive sequence is recorded and a failure is injected at EVERY index and EVERY pair of indices (exhaustive), for protectedmemory (all primitives + random source) and memguard (Protect, the only primitive it routes through the interface); rapid only varies sizes and the follow-up. "+
			"Oracle: a creation in which a primitive failed returns an error and no secret and leaves no region mapped, locked or readable unless the failed primitive was the very Free that would have released it; secret bytes are zero when their region is unlocked or freed; "+
			"a failed open-for-read returns an error, does not run the callback and leaves the reader count unchanged (later reads work, Close does not hang); a failed Close returns an error and a retried Close succeeds and releases the region; InUseCounter / AllocCounter move only for successful creations and successful closes; nothing panics or hangs. "+
			"One evaluation = one execution with one fault plan. Non-trivial = the fault fired and at least one primitive call followed it; enumerated plans are distinct by construction",
		"memguard allocation failures cannot be injected (inside the memguard library, which panics on them)", "the shadow table stands in for the kernel's page state; real page state is C11")
}

type factoryKind string

const (
	pm factoryKind = "protectedmemory"
	mg factoryKind = "memguard"
)

type program struct {
	kind       factoryKind
	create     string // "New" or "CreateRandom"
	size       int
	randFail   bool // CreateRandom: the random source fails ...
	randFailAt int  // ... at its k-th call (0 = first; a source that is asked only once never reaches k > 0)
	followUp   []string
}

func (p program) String() string {
	return fmt.Sprintf("%s %s(size=%d randFail=%v@call%d) then %v", p.kind, p.create, p.size, p.randFail, p.randFailAt, p.followUp)
}

var secretByte = byte(0xA7)

var tinySink *bool

type outcome struct {
	viol     string
	calls    int
	trace    string
	fired    bool
	followed bool
}

// execute runs one program under one fault plan and validates it.
func execute(p program, plan []int) (o outcome) {
	sh := newShadow(plan...)
	sh.foreign = p.kind == mg
	sh.dataLen = p.size
	done := make(chan struct{})
	go func() {
		defer close(done)
		defer func() {
			if x := recover(); x != nil {
				o.viol = fmt.Sprintf("panic: %v", x)
			}
		}()
		o.viol = run(p, sh)
	}()
	select {
	case <-done:
	case <-time.After(5 * time.Second):
		o.viol = "the program did not finish within 5s (Close or a reader hangs)"
	}
	o.calls, o.trace = sh.ncalls(), sh.trace()
	maxFired := -1
	for i := range sh.fired {
		o.fired = true
		if i > maxFired {
			maxFired = i
		}
	}
	o.followed = o.fired && o.calls > maxFired+1
	if o.viol == "" {
		if v := sh.violations(); len(v) > 0 {
			o.viol = v[0]
		}
	}
	if o.viol != "" {
		o.viol += "\n  primitive calls: " + o.trace + "\n  page table: " + sh.state()
	}
	return o
}

func run(p program, sh *shadow) string {
	inUse0, alloc0 := securememory.InUseCounter.Count(), securememory.AllocCounter.Count()
	var f securememory.SecretFactory
	var pf *protectedmemory.SecretFactory
	if p.kind == pm {
		pf = protectedmemory.VerifNewFactory(sh)
		f = pf
	} else {
		f = memguard.VerifNewFactory(sh)
	}
	want := bytes.Repeat([]byte{secretByte}, p.size)
	randFired := false
	var sec securememory.Secret
	var err error
	callsBefore := sh.ncalls()
	switch {
	case p.create == "New":
		sec, err = f.New(append([]byte(nil), want...))
	case p.kind == pm:
		calls := 0
		sec, err = protectedmemory.VerifCreateRandom(pf, p.size, func(b []byte) (int, error) {
			calls++
			if p.randFail && calls-1 == p.randFailAt {
				// a partial read followed by an error: the region already holds bytes
				randFired = true
				for i := range b[:len(b)/2+1] {
					b[i] = secretByte
				}
				return len(b)/2 + 1, errors.New("verif: random source failure")
			}
			for i := range b {
				b[i] = secretByte
			}
			return len(b), nil
		})
	default:
		sec, err = f.CreateRandom(p.size)
		want = nil
	}
	creationFault := randFired // the random source failed (at whichever of its calls was planned, if it was called that often)
	for i := callsBefore; i < sh.ncalls(); i++ {
		if sh.fired[i] {
			creationFault = true
		}
	}
	if creationFault {
		if err == nil {
			return fmt.Sprintf("a memory primitive or the random source failed during %s but no error was returned: silently degraded secret", p.create)
		}
		if sec != nil && !reflect.ValueOf(sec).IsNil() {
			return fmt.Sprintf("a memory primitive or the random source failed during %s and it returned both an error and a usable secret", p.create)
		}
		if p.kind == pm {
			for _, r := range sh.leftovers() {
				if !sh.failed("Free") {
					return fmt.Sprintf("failed %s left region %d mapped (locked=%v, protection=%s) although no Free was attempted or failed", p.create, r.id, r.locked, r.prot)
				}
			}
		}
		// a finalizer must not "close" (and un-count) a secret that was never created: flush the
		// allocator's tiny-object block, collect, give the finalizer goroutine time to run
		callsAtReturn := sh.ncalls()
		for i := 0; i < 64; i++ {
			tinySink = new(bool)
		}
		tinySink = nil
		runtime.GC()
		time.Sleep(1500 * time.Microsecond)
		if extra := sh.ncalls() - callsAtReturn; extra > 0 {
			return fmt.Sprintf("%d memory primitive call(s) were made on the failed secret's pages after %s had returned its error (a finalizer was left armed): %s", extra, p.create, sh.trace())
		}
		if d := securememory.InUseCounter.Count() - inUse0; d != 0 {
			return fmt.Sprintf("InUseCounter moved by %d for a failed creation (after a garbage collection)", d)
		}
		if d := securememory.AllocCounter.Count() - alloc0; d != 0 {
			return fmt.Sprintf("AllocCounter moved by %d for a failed creation", d)
		}
		return ""
	}
	if err != nil || sec == nil {
		return fmt.Sprintf("%s failed without any injected fault: %v", p.create, err)
	}
	if d := securememory.InUseCounter.Count() - inUse0; d != 1 {
		return fmt.Sprintf("InUseCounter moved by %d for a successful creation", d)
	}
	closedOK := false
	read := func(name string, nested bool) string {
		before := sh.ncalls()
		ran := 0
		var got []byte
		var err error
		action := func(b []byte) ([]byte, error) {
			ran++
			got = append([]byte(nil), b...)
			if nested {
				_, e2 := sec.WithBytesFunc(func(b2 []byte) ([]byte, error) { ran++; return nil, nil })
				return nil, e2
			}
			return nil, nil
		}
		switch name {
		case "WithBytes":
			err = sec.WithBytes(func(b []byte) error { _, e := action(b); return e })
		case "Reader":
			buf := make([]byte, p.size+3)
			n, e := sec.NewReader().Read(buf)
			if e != nil && e.Error() != "EOF" {
				err = e
			} else {
				ran++
				got = buf[:n]
			}
		default:
			_, err = sec.WithBytesFunc(action)
		}
		openFailed := false
		for i := before; i < sh.ncalls(); i++ {
			if sh.fired[i] && strings.HasPrefix(sh.calls[i], "Protect(ro)") {
				openFailed = true
			}
		}
		anyFault := false
		for i := before; i < sh.ncalls(); i++ {
			anyFault = anyFault || sh.fired[i]
		}
		switch {
		case closedOK || sec.IsClosed():
			if err == nil || ran > 0 {
				return fmt.Sprintf("%s on a closed secret ran the callback (err=%v)", name, err)
			}
		case openFailed && !nested:
			if err == nil {
				return fmt.Sprintf("%s: making the pages readable failed but no error was returned", name)
			}
			if ran > 0 {
				return fmt.Sprintf("%s: the callback ran although making the pages readable failed", name)
			}
		case !anyFault && err == nil:
			if want != nil && !bytes.Equal(got, want) {
				return fmt.Sprintf("%s: the callback saw %x..., expected the original bytes", name, got[:min(4, len(got))])
			}
		case anyFault && err == nil:
			return fmt.Sprintf("%s: a memory primitive failed but no error was returned", name)
		}
		return ""
	}
	closeOnce := func() string {
		before := sh.ncalls()
		inUse := securememory.InUseCounter.Count()
		err := sec.Close()
		fault := false
		for i := before; i < sh.ncalls(); i++ {
			fault = fault || sh.fired[i]
		}
		switch {
		case closedOK:
			if err != nil {
				return fmt.Sprintf("Close of an already closed secret returned %v", err)
			}
		case fault:
			if err == nil {
				return "a memory primitive failed during Close but no error was returned"
			}
			if sec.IsClosed() && p.kind == pm {
				return "Close failed but IsClosed reports true (it cannot be retried)"
			}
			if d := securememory.InUseCounter.Count() - inUse; d != 0 {
				return fmt.Sprintf("InUseCounter moved by %d for a failed Close", d)
			}
		default:
			if err != nil {
				return fmt.Sprintf("Close failed without an injected fault: %v", err)
			}
			closedOK = true
			if !sec.IsClosed() {
				return "Close succeeded but IsClosed reports false"
			}
			if d := securememory.InUseCounter.Count() - inUse; d != -1 {
				return fmt.Sprintf("InUseCounter moved by %d for a successful Close", d)
			}
			if p.kind == pm {
				if l := sh.leftovers(); len(l) > 0 {
					return fmt.Sprintf("Close succeeded but region %d is still mapped (locked=%v)", l[0].id, l[0].locked)
				}
			}
		}
		return ""
	}
	// closeDuring: Close is called while a reader is inside its callback, so it parks until the
	// last reader leaves; the reader's release (and the Close that follows) may hit planned faults.
	closeDuring := func() string {
		if closedOK || sec.IsClosed() {
			return closeOnce()
		}
		before := sh.ncalls()
		inUse := securememory.InUseCounter.Count()
		closeErr := make(chan error, 1)
		ran, parked, started := false, false, false
		rerr := sec.WithBytes(func(b []byte) error {
			ran = true
			// a nested read does no primitive call; it is refused once Close has marked the secret and parked
			if _, e := sec.WithBytesFunc(func([]byte) ([]byte, error) { return nil, nil }); e != nil {
				return nil // an earlier failed Close already marked it: nothing to park behind
			}
			started = true
			go func() { closeErr <- sec.Close() }()
			for i := 0; i < 2000000 && !parked; i++ {
				if _, e := sec.WithBytesFunc(func([]byte) ([]byte, error) { return nil, nil }); e != nil {
					parked = true
				} else {
					runtime.Gosched()
				}
			}
			return nil
		})
		if !ran {
			// open failed (fault) or the secret refuses reads after an earlier failed Close
			if sh.ncalls() > before && sh.fired[before] && rerr == nil {
				return "making the pages readable failed but no error was returned"
			}
			return ""
		}
		if !started {
			return ""
		}
		if !parked {
			return "Close called during a read neither finished nor started refusing new readers"
		}
		var cerr error
		select {
		case cerr = <-closeErr:
		case <-time.After(3 * time.Second):
			return fmt.Sprintf("Close, parked behind a reader, did not finish within 3s after the last reader left (the reader's release returned %v)", rerr)
		}
		releaseFault := sh.ncalls() > before+1 && sh.fired[before+1]
		closeFault := false
		for i := before + 2; i < sh.ncalls(); i++ {
			closeFault = closeFault || sh.fired[i]
		}
		if releaseFault && rerr == nil {
			return "the last reader's release failed but the read returned no error"
		}
		if !releaseFault && rerr != nil {
			return fmt.Sprintf("the read failed without an injected fault: %v", rerr)
		}
		if closeFault {
			if cerr == nil {
				return "a memory primitive failed during the parked Close but no error was returned"
			}
			if d := securememory.InUseCounter.Count() - inUse; d != 0 {
				return fmt.Sprintf("InUseCounter moved by %d for a failed Close", d)
			}
			return ""
		}
		if cerr != nil {
			return fmt.Sprintf("the parked Close failed without an injected fault of its own: %v", cerr)
		}
		closedOK = true
		if !sec.IsClosed() {
			return "Close succeeded but IsClosed reports false"
		}
		if d := securememory.InUseCounter.Count() - inUse; d != -1 {
			return fmt.Sprintf("InUseCounter moved by %d for a successful Close", d)
		}
		if p.kind == pm {
			if l := sh.leftovers(); len(l) > 0 {
				return fmt.Sprintf("Close succeeded but region %d is still mapped (locked=%v)", l[0].id, l[0].locked)
			}
		}
		return ""
	}
	for _, step := range p.followUp {
		var msg string
		switch step {
		case "Close":
			msg = closeOnce()
		case "CloseDuringRead":
			msg = closeDuring()
		case "Nested":
			msg = read("WithBytesFunc", true)
		default:
			msg = read(step, false)
		}
		if msg != "" {
			return "step " + step + ": " + msg
		}
	}
	// whatever happened, the secret can finally be closed (a failed Close can be retried)
	for i := 0; i < 3 && !closedOK; i++ {
		if msg := closeOnce(); msg != "" {
			return "final Close: " + msg
		}
	}
	if !closedOK {
		return "the secret could not be closed even after the faults stopped"
	}
	if d := securememory.InUseCounter.Count() - inUse0; d != 0 {
		return fmt.Sprintf("InUseCounter is off by %d after the secret was closed", d)
	}
	return ""
}

func fail(t interface{ Fatalf(string, ...any) }, p program, plan []int, msg string) {
	if strings.Contains(msg, "did not finish within") {
		kit.Abort(fmt.Sprintf("C12 violated: %s\n  program: %s\n  faults injected at primitive call indices %v", msg, p, plan))
	}
	kit.Rec.Violation(msg)
	t.Fatalf("C12 violated: %s\n  program: %s\n  faults injected at primitive call indices %v", msg, p, plan)
}

// enumerate runs p fault-free, with every single fault and with every pair.
func enumerate(t interface{ Fatalf(string, ...any) }, p program) (total, nontrivial int64) {
	base := execute(p, nil)
	total++
	if base.viol != "" {
		fail(t, p, nil, base.viol)
	}
	for i := 0; i < base.calls; i++ {
		o := execute(p, []int{i})
		total++
		if o.followed {
			nontrivial++
		}
		if o.viol != "" {
			fail(t, p, []int{i}, o.viol)
		}
		for j := i + 1; j < o.calls; j++ {
			o2 := execute(p, []int{i, j})
			total++
			if o2.followed {
				nontrivial++
			}
			if o2.viol != "" {
				fail(t, p, []int{i, j}, o2.viol)
			}
		}
	}
	return
}

var followUps = [][]string{
	{"WithBytes", "Close"},
	{"WithBytes", "WithBytesFunc", "Close", "Close"},
	{"Nested", "Reader", "Close", "WithBytes"},
	{"Close", "WithBytesFunc", "Close"},
	{"WithBytesFunc", "Nested", "WithBytes", "Close"},
	{"CloseDuringRead", "WithBytes", "Close"},
	{"WithBytes", "Close", "CloseDuringRead", "Close"},
}

func TestEnumerateFaults(t *testing.T) {
	shard, shards := kit.Shard()
	var total, nt int64
	unit := 0
	for _, kind := range []factoryKind{pm, mg} {
		for _, create := range []string{"New", "CreateRandom"} {
			for _, size := range []int{1, 32, 4097} {
				for _, fu := range followUps {
					for _, rf := range []bool{false, true} {
						if rf && (kind != pm || create != "CreateRandom") {
							continue
						}
						unit++
						if unit%shards != shard {
							continue
						}
						p := program{kind: kind, create: create, size: size, randFail: rf, followUp: fu}
						a, b := enumerate(t, p)
						total += a
						nt += b
						if unit%7 == 0 {
							kit.Rec.Sample(map[string]any{"program": p.String(), "executions": a, "fault_free_primitive_sequence": execute(p, nil).trace})
						}
					}
				}
			}
		}
	}
	kit.Rec.Enumerated(total, nt)
	kit.Rec.SetExhaustive(true)
}

// TestRandomPrograms: rapid varies the size and the follow-up; positions are still enumerated.
func TestRandomPrograms(t *testing.T) {
	kit.Check(t, 100, 1600, func(t *rapid.T) {
		p := program{
			kind:     rapid.SampledFrom([]factoryKind{pm, pm, mg}).Draw(t, "kind"),
			create:   rapid.SampledFrom([]string{"New", "CreateRandom"}).Draw(t, "create"),
			size:     rapid.SampledFrom([]int{1, 2, 31, 32, 33, 4095, 4096, 4097, 8192, 12289}).Draw(t, "size"),
			followUp: rapid.SliceOfN(rapid.SampledFrom([]string{"WithBytes", "WithBytesFunc", "Nested", "Reader", "Close", "CloseDuringRead"}), 0, 6).Draw(t, "followUp"),
		}
		if p.kind == pm && p.create == "CreateRandom" {
			p.randFail = rapid.IntRange(0, 3).Draw(t, "randFail") == 0
			p.randFailAt = rapid.IntRange(0, 4).Draw(t, "randFailAtCall")
		}
		a, b := enumerate(t, p)
		kit.Rec.Enumerated(a-1, b)
		kit.Rec.Case("random|"+p.String(), b > 0, nil)
	})
}
