// Package c12: secure memory survives syscall failures without leaking or exposing secrets.
package c12

import (
	"errors"
	"fmt"
	"strings"
	"sync"

	"github.com/awnumar/memcall"
)

// region is one entry of the shadow page table.
type region struct {
	id         int
	buf        []byte
	mapped     bool
	locked     bool
	prot       string // "rw", "ro", "none"
	everSecret bool   // the region held non-zero bytes at some point while mapped
	events     []string
}

// shadow is an interposed memcall implementation backed by ordinary slices. It keeps
// a shadow page table and fails the primitive calls whose global index is planned.
type shadow struct {
	mu      sync.Mutex
	regions []*region
	calls   []string // "Alloc", "Lock", "Protect(ro)", ...
	failAt  map[int]bool
	fired   map[int]bool
	viol    []string
	foreign bool // tolerate slices it did not allocate (memguard allocates on its own)
	dataLen int  // foreign regions: only the last dataLen bytes are the secret (memguard keeps a random canary in front of them)
}

var errInjected = errors.New("verif: injected memory primitive failure")

func newShadow(failAt ...int) *shadow {
	s := &shadow{failAt: map[int]bool{}, fired: map[int]bool{}}
	for _, i := range failAt {
		s.failAt[i] = true
	}
	return s
}

func (s *shadow) begin(name string) (int, bool) {
	// finish the allocator's current tiny-object block with garbage: a finalizer attached to a small
	// object of the secret under construction must not be kept from running by an unrelated live
	// object that happens to share its 16-byte block (the runtime finalizes such blocks as a whole)
	for i := 0; i < 16; i++ {
		tinySink = new(bool)
	}
	tinySink = nil
	idx := len(s.calls)
	s.calls = append(s.calls, name)
	if s.failAt[idx] {
		s.fired[idx] = true
		s.calls[idx] = name + "!FAIL"
		return idx, true
	}
	return idx, false
}

func (s *shadow) find(b []byte) *region {
	if len(b) == 0 {
		return nil
	}
	for _, r := range s.regions {
		if len(r.buf) > 0 && &r.buf[0] == &b[0] {
			return r
		}
	}
	if s.foreign {
		data := b
		if s.dataLen > 0 && s.dataLen <= len(b) {
			data = b[len(b)-s.dataLen:]
		}
		for _, r := range s.regions {
			if len(r.buf) > 0 && &r.buf[0] == &data[0] {
				return r
			}
		}
		r := &region{id: len(s.regions), buf: data, mapped: true, locked: true, prot: "rw"}
		s.regions = append(s.regions, r)
		return r
	}
	return nil
}

func allZero(b []byte) bool {
	for _, x := range b {
		if x != 0 {
			return false
		}
	}
	return true
}

func (r *region) note(s *shadow) {
	if r.mapped && !allZero(r.buf) {
		r.everSecret = true
	}
}

func (s *shadow) Alloc(size int) ([]byte, error) {
	s.mu.Lock()
	defer s.mu.Unlock()
	if _, fail := s.begin("Alloc"); fail {
		return nil, errInjected
	}
	r := &region{id: len(s.regions), buf: make([]byte, size), mapped: true, prot: "rw"}
	s.regions = append(s.regions, r)
	return r.buf, nil
}

func (s *shadow) Lock(b []byte) error {
	s.mu.Lock()
	defer s.mu.Unlock()
	_, fail := s.begin("Lock")
	r := s.find(b)
	if fail {
		return errInjected
	}
	if r == nil || !r.mapped {
		s.viol = append(s.viol, "Lock on a region that is not mapped")
		return errors.New("ENOMEM")
	}
	r.note(s)
	r.locked = true
	return nil
}

func (s *shadow) Unlock(b []byte) error {
	s.mu.Lock()
	defer s.mu.Unlock()
	_, fail := s.begin("Unlock")
	r := s.find(b)
	if r != nil {
		r.note(s)
	}
	if fail {
		return errInjected
	}
	if r == nil || !r.mapped {
		s.viol = append(s.viol, "Unlock on a region that is not mapped")
		return errors.New("ENOMEM")
	}
	if r.everSecret && r.prot != "none" && !allZero(r.buf) {
		s.viol = append(s.viol, fmt.Sprintf("region %d is unlocked while it still holds secret bytes (not wiped before munlock)", r.id))
	} else if r.everSecret && r.prot == "none" {
		s.viol = append(s.viol, fmt.Sprintf("region %d is unlocked while inaccessible, so it cannot have been wiped (it held secret bytes)", r.id))
	}
	r.locked = false
	return nil
}

func (s *shadow) Free(b []byte) error {
	s.mu.Lock()
	defer s.mu.Unlock()
	_, fail := s.begin("Free")
	r := s.find(b)
	if r != nil {
		r.note(s)
	}
	if fail {
		return errInjected
	}
	if r == nil || !r.mapped {
		s.viol = append(s.viol, "Free on a region that is not mapped (double free)")
		return errors.New("EINVAL")
	}
	if r.everSecret && (r.prot == "none" || !allZero(r.buf)) {
		s.viol = append(s.viol, fmt.Sprintf("region %d is released while it still holds secret bytes (not wiped before munmap)", r.id))
	}
	r.mapped, r.locked = false, false
	return nil
}

func (s *shadow) Protect(b []byte, f memcall.MemoryProtectionFlag) error {
	s.mu.Lock()
	defer s.mu.Unlock()
	name := map[memcall.MemoryProtectionFlag]string{memcall.NoAccess(): "none", memcall.ReadOnly(): "ro", memcall.ReadWrite(): "rw"}[f]
	_, fail := s.begin("Protect(" + name + ")")
	r := s.find(b)
	if r != nil && r.prot != "none" {
		r.note(s)
	}
	if fail {
		return errInjected
	}
	if r == nil || !r.mapped {
		s.viol = append(s.viol, "Protect("+name+") on a region that is not mapped")
		return errors.New("ENOMEM")
	}
	r.prot = name
	return nil
}

// state renders the page table.
func (s *shadow) state() string {
	s.mu.Lock()
	defer s.mu.Unlock()
	var sb strings.Builder
	for _, r := range s.regions {
		fmt.Fprintf(&sb, "region%d{mapped=%v locked=%v prot=%s secret=%v} ", r.id, r.mapped, r.locked, r.prot, r.everSecret)
	}
	return sb.String()
}

func (s *shadow) ncalls() int { s.mu.Lock(); defer s.mu.Unlock(); return len(s.calls) }

func (s *shadow) trace() string { s.mu.Lock(); defer s.mu.Unlock(); return strings.Join(s.calls, " ") }

// leftovers lists regions that are still mapped (and how).
func (s *shadow) leftovers() []*region {
	s.mu.Lock()
	defer s.mu.Unlock()
	var res []*region
	for _, r := range s.regions {
		if r.mapped {
			res = append(res, r)
		}
	}
	return res
}

func (s *shadow) violations() []string {
	s.mu.Lock()
	defer s.mu.Unlock()
	return append([]string(nil), s.viol...)
}

// failedCalls reports whether a call with the given name prefix was failed by the plan.
func (s *shadow) failed(prefix string) bool {
	s.mu.Lock()
	defer s.mu.Unlock()
	for _, c := range s.calls {
		if strings.HasPrefix(c, prefix) && strings.HasSuffix(c, "!FAIL") {
			return true
		}
	}
	return false
}
